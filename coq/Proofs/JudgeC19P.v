(* Soundness and transfer of the executable judgement Check/C19c.v (routed cases) and Check/C19m.v (several routes of
   one logical binding sequence) on the model's own runs - for the REPAIRED judgement.

   History (finding 1): the compass clause (clause 2) of the original C19c.ok was applied to every frame that follows a
   frame and REJECTED the model's own run on scenarios that gen/C19.py produces (family `presets-created-while-held',
   kind `cardinal'): a context created or rebuilt while one of the four keys is down starts with that binding ignored
   until the key is released.  Check/C19c.v now applies the clause only when every preset field that is down in the
   frame has been seen released in a frame since the last operation (compass_ready); section 2 shows that the cases
   that were rejected are now accepted, and section 13 that the clause is still evaluated and still rejects a wrong compass.

   What is proved:
     - clauses 1, 8, 9 for every routed case whose routes denote the scenario (no other hypothesis);
     - all clauses (the full judgement) for the Boolean profile profile_C19b (no condition on the steps any more);
     - transfer: C19c.ok respects C19c.agree (and agree_full) on every case;
     - soundness of C19m.ok_m; per-route transfer; the full transfer for ok_m is refuted (finding 2). *)
From Coq Require Import List ZArith QArith Bool Lia.
From BEI Require Import Model.Frame Proofs.ValueP Proofs.StateP Proofs.ActionP Proofs.InstanceP Proofs.RegistryP
  Proofs.TrackFrameP Proofs.TrackOpP Check.App Proofs.JudgeC07P Proofs.JudgeC12P Proofs.BindP Check.C19c Check.C19m.
Import ListNotations.
Open Scope Z_scope.

(* ================================================================================================ *)
(* 0. helpers                                                                                       *)
(* ================================================================================================ *)
Definition all_true (l : list (Z * bool)) : Prop := forall k b, In (k, b) l -> b = true.

Lemma all_true_first_fail l : all_true l -> first_fail l = 0.
Proof.
  induction l as [|[k b] l IH]; intros H; cbn [first_fail]; [reflexivity|].
  rewrite (H k b (or_introl eq_refl)). apply IH. intros k' b' Hin. apply (H k' b'). right. exact Hin.
Qed.
Lemma all_true_cons k b l : b = true -> all_true l -> all_true ((k, b) :: l).
Proof. intros Hb Hl k' b' [[= <- <-]|Hin]; [exact Hb | exact (Hl k' b' Hin)]. Qed.
Lemma all_true_app l1 l2 : all_true l1 -> all_true l2 -> all_true (l1 ++ l2).
Proof. intros H1 H2 k b Hin. apply in_app_or in Hin. destruct Hin as [Hin|Hin]; [exact (H1 k b Hin) | exact (H2 k b Hin)]. Qed.
Lemma all_true_inv_cons k b l : all_true ((k, b) :: l) -> b = true /\ all_true l.
Proof. intros H. split; [apply (H k b); left; reflexivity | intros k' b' Hin; apply (H k' b'); right; exact Hin]. Qed.
Lemma all_true_inv_app l1 l2 : all_true (l1 ++ l2) -> all_true l1 /\ all_true l2.
Proof. intros H. split; intros k b Hin; apply (H k b); apply in_or_app; [left | right]; exact Hin. Qed.

Lemma qeqb_iff' x y : qeqb x y = true <-> (x == y)%Q.
Proof. unfold qeqb. apply Qeq_bool_iff. Qed.
Lemma qeqb_sym x y : qeqb x y = true -> qeqb y x = true.
Proof. rewrite !qeqb_iff'. intros H. symmetry. exact H. Qed.
Lemma qeqb_trans x y z : qeqb x y = true -> qeqb y z = true -> qeqb x z = true.
Proof. rewrite !qeqb_iff'. intros H1 H2. rewrite H1. exact H2. Qed.
Lemma veqb_sym a b : veqb a b = true -> veqb b a = true.
Proof.
  destruct a, b; cbn [veqb]; try discriminate; rewrite ?andb_true_iff.
  - intros H. apply eqb_prop in H. subst. apply eqb_reflx.
  - apply qeqb_sym.
  - intros [H1 H2]. split; apply qeqb_sym; assumption.
  - intros [[H1 H2] H3]. repeat split; apply qeqb_sym; assumption.
Qed.
Lemma veqb_trans a b c : veqb a b = true -> veqb b c = true -> veqb a c = true.
Proof.
  destruct a, b, c; cbn [veqb]; try discriminate; rewrite ?andb_true_iff.
  - intros H1 H2. apply eqb_prop in H1. apply eqb_prop in H2. subst. apply eqb_reflx.
  - apply qeqb_trans.
  - intros [H1 H2] [H3 H4]. split; eapply qeqb_trans; eassumption.
  - intros [[H1 H2] H3] [[H4 H5] H6]. repeat split; eapply qeqb_trans; eassumption.
Qed.

(* ================================================================================================ *)
(* 1. the shape of the judgement                                                                    *)
(* ================================================================================================ *)
Definition rt := list (Z * Z * list (list iset)).

(* the compass clauses of one judged frame *)
Definition cclauses (routes : rt) (sc : scenario) (hist : list frame_in) (f : frame_in) (o : out) : list (Z * bool) :=
  flat_map (fun x =>
    let '(c, e, per_action) := x in
    flat_map (fun ra =>
      match fst ra with
      | [r] => match (match aid_accum (a_id (snd ra)) with
                      | Cumulative => if compass_ready hist f r then compass_expect f r else None
                      | MaxAbs => None
                      end),
                     snap_of_entry c e (a_id (snd ra)) (x_snaps o) with
               | Some (ex, ey), Some s =>
                   [(2, veqb (sn_value s) (convert (aid_dim (a_id (snd ra))) (V2 ex ey)))]
               | _, _ => []
               end
      | _ => []
      end) (combine per_action (i_actions (cfg_lookup sc c e)))) routes.

Definition next_hist (hist : list frame_in) (f : frame_in) : list frame_in := match f_ops f with [] => f :: hist | _ => [] end.
Lemma judge_steps_frame routes sc seen hist f steps o outs :
  C19c.judge_steps routes sc seen hist (SFrame f :: steps) (o :: outs) =
  (8, negb (x_panicked o)) :: (if seen then cclauses routes sc hist f o else []) ++ C19c.judge_steps routes sc true (next_hist hist f) steps outs.
Proof. reflexivity. Qed.
Lemma judge_steps_op routes sc seen hist op steps o outs :
  C19c.judge_steps routes sc seen hist (SOp op :: steps) (o :: outs) =
  (8, negb (x_panicked o)) :: C19c.judge_steps routes sc false [] steps outs.
Proof. reflexivity. Qed.

Lemma in_cclauses routes sc hist f o k b : In (k, b) (cclauses routes sc hist f o) ->
  exists c e per_action r sp ex ey s,
    In (c, e, per_action) routes /\ In ([r], sp) (combine per_action (i_actions (cfg_lookup sc c e))) /\
    aid_accum (a_id sp) = Cumulative /\ compass_ready hist f r = true /\ compass_expect f r = Some (ex, ey) /\
    snap_of_entry c e (a_id sp) (x_snaps o) = Some s /\
    k = 2 /\ b = veqb (sn_value s) (convert (aid_dim (a_id sp)) (V2 ex ey)).
Proof.
  unfold cclauses. intros Hin. apply in_flat_map in Hin. destruct Hin as ([[c e] pa] & Hx & Hin).
  apply in_flat_map in Hin. destruct Hin as ([rs sp] & Hra & Hin). cbn [fst snd] in Hin.
  destruct rs as [|r [|r2 rs]]; try (destruct Hin).
  destruct (aid_accum (a_id sp)) eqn:Ea; [|destruct Hin].
  destruct (compass_ready hist f r) eqn:Er; [|destruct Hin].
  destruct (compass_expect f r) as [[ex ey]|] eqn:Ec; [|destruct Hin].
  destruct (snap_of_entry c e (a_id sp) (x_snaps o)) as [s|] eqn:Es; [|destruct Hin].
  destruct Hin as [[= <- <-]|[]]. exists c, e, pa, r, sp, ex, ey, s. repeat split; assumption.
Qed.

(* ================================================================================================ *)
(* 2. finding 1 (history): cases the original judgement rejected; the repaired one accepts them   *)
(* ================================================================================================ *)
Definition fx_frame (keys : list Z) : step :=
  SFrame (mkFrame (1#64) 1 false 0 (mkRaw keys [] (0%Q, 0%Q) (0%Q, 0%Q) [mkPad 0 [] []] []) []).
Definition fx_cardinal : iset := RCardinal (RRaw (IKey 0 0)) (RRaw (IKey 1 0)) (RRaw (IKey 2 0)) (RRaw (IKey 3 0)).
Definition fx_spec (a : Z) : inst_spec := mkSpec None [mkAction a [] [] (denote fx_cardinal)].
(* gen/C19.py, held_preset_cases, kind = 'cardinal', how = 'insert': the entity is spawned, an idle frame, a frame with
   key 0 (north) down, the context is inserted, two frames with the key still down, a release, the key again *)
Definition fx_held_insert : rcase :=
  routed [(0, 0, [[fx_cardinal]])]
    (mkScenario [0] [0] [((0, 0), fx_spec 32)]
       [SOp (OSpawn 0 []); fx_frame []; fx_frame [0]; SOp (OInsert 0 0); fx_frame [0]; fx_frame [0]; fx_frame []; fx_frame [0]]).
(* how = 'rebuild' *)
Definition fx_held_rebuild : rcase :=
  routed [(0, 0, [[fx_cardinal]])]
    (mkScenario [0] [0] [((0, 0), fx_spec 32)]
       [SOp (OSpawn 0 [0]); fx_frame []; fx_frame [0]; SOp ORebuild; fx_frame [0]; fx_frame [0]; fx_frame []; fx_frame [0]]).
Definition model_trace (c : rcase) : trace_t := match c with routed _ sc => trace (run sc) end.

(* the original judgement returned 2 on both (the last frame of each, where the key is pressed again after a release,
   IS judged by the repaired one: see C19_repaired_still_judges) *)
Example C19_repaired_accepts_held_insert : C19c.ok (fx_held_insert, model_trace fx_held_insert) = 0.
Proof. vm_compute. reflexivity. Qed.
Example C19_repaired_accepts_held_rebuild : C19c.ok (fx_held_rebuild, model_trace fx_held_rebuild) = 0.
Proof. vm_compute. reflexivity. Qed.
Example fx_agree : C19c.agree (fx_held_insert, model_trace fx_held_insert) = true /\
                   C19c.agree (fx_held_rebuild, model_trace fx_held_rebuild) = true.
Proof. split; vm_compute; reflexivity. Qed.

(* ================================================================================================ *)
(* 3. clauses 8 and 9 (and the key set) on every run from a world satisfying the registry invariant  *)
(* ================================================================================================ *)
Lemma judge_steps_basic routes sc : forall steps w seen hist, reg_inv sc w ->
  forall k b, In (k, b) (C19c.judge_steps routes sc seen hist steps (run_steps sc w steps)) -> k = 2 \/ b = true.
Proof.
  induction steps as [|st steps IH]; intros w seen hist Hinv k b Hin; [destruct Hin|].
  rewrite run_steps_cons in Hin. destruct (step_res_inv sc w st Hinv) as (w' & o & Hs & Hinv' & (_ & _ & Hp)). rewrite Hs in Hin.
  destruct st as [op|f].
  - rewrite judge_steps_op in Hin. destruct Hin as [[= <- <-]|Hin]; [right; rewrite Hp; reflexivity|].
    exact (IH w' false [] Hinv' k b Hin).
  - rewrite judge_steps_frame in Hin. destruct Hin as [[= <- <-]|Hin]; [right; rewrite Hp; reflexivity|].
    apply in_app_or in Hin. destruct Hin as [Hin|Hin]; [|exact (IH w' true _ Hinv' k b Hin)].
    destruct seen; [|destruct Hin]. left. apply in_cclauses in Hin.
    destruct Hin as (? & ? & ? & ? & ? & ? & ? & ? & _ & _ & _ & _ & _ & _ & -> & _). reflexivity.
Qed.

(* the clause list of the judgement on the model's own run *)
Definition clause_list (c : rcase) : list (Z * bool) :=
  match c with routed routes sc => (1, routes_denote routes sc) :: C19c.judge_steps routes sc false [] (s_steps sc) (run sc) end.
Lemma ok_clause_list c : C19c.ok (c, model_trace c) = first_fail (clause_list c).
Proof. destruct c as [routes sc]. reflexivity. Qed.

Definition denotes (c : rcase) : bool := match c with routed routes sc => routes_denote routes sc end.

(* R-basic: every clause other than the compass clause holds on the model's run of EVERY case whose routes denote
   the scenario's binding sequence - no bound, no profile *)
Theorem C19_basic_sound : forall c k b, denotes c = true -> In (k, b) (clause_list c) -> In k [1; 8; 9] -> b = true.
Proof.
  intros [routes sc] k b Hd Hin Hk. cbn [clause_list denotes] in *. destruct Hin as [[= <- <-]|Hin]; [exact Hd|].
  destruct (judge_steps_basic routes sc (s_steps sc) world_init false [] (reg_inv_init sc) k b Hin) as [->|H]; [|exact H].
  cbn in Hk. intuition discriminate.
Qed.
Example C19_basic_sound_needs_denotes :
  let c := routed [(0, 0, [[RRaw (IKey 0 0)]])] (mkScenario [0] [0] [((0, 0), mkSpec None [mkAction 32 [] [] [mkBind (IKey 1 0) [] []]])] []) in
  denotes c = false /\ C19c.ok (c, model_trace c) = 1.
Proof. split; vm_compute; reflexivity. Qed.

(* ================================================================================================ *)
(* 4. transfer: the judgement respects the comparison with the model                                *)
(* ================================================================================================ *)
Lemma snap_of_entry_eqb c e a : forall l1 l2, list_eqb snap_entry_eqb l1 l2 = true ->
  osnap_eqb (snap_of_entry c e a l1) (snap_of_entry c e a l2) = true.
Proof.
  unfold snap_of_entry. induction l1 as [|[c1 e1 a1 s1] l1 IH]; intros [|[c2 e2 a2 s2] l2] H; cbn [list_eqb] in H; try discriminate; [reflexivity|].
  apply andb_true_iff in H. destruct H as [Hx Hl]. cbn [snap_entry_eqb] in Hx.
  apply andb_true_iff in Hx. destruct Hx as [Hx Hs]. apply andb_true_iff in Hx. destruct Hx as [Hx Ha].
  apply andb_true_iff in Hx. destruct Hx as [Hc He]. apply Z.eqb_eq in Hc, He, Ha. subst c2 e2 a2.
  cbn [find]. destruct (Z.eqb c c1 && Z.eqb e e1 && Z.eqb a a1); [exact Hs | exact (IH l2 Hl)].
Qed.

Lemma out_diff_fields key isf a b : out_diff_k key isf a b = 0 ->
  list_eqb snap_entry_eqb (x_snaps a) (x_snaps b) = true /\ x_panicked a = x_panicked b.
Proof.
  unfold out_diff_k. cbn [first_fail].
  destruct (list_eqb event_eqb (x_pre a) (x_pre b)); [|discriminate].
  destruct (if isf then _ else _); [|discriminate].
  destruct (list_eqb event_eqb (sort_by key (x_post a)) (sort_by key (x_post b))); [|discriminate].
  destruct (list_eqb logitem_eqb (x_log a) (x_log b)); [|discriminate].
  destruct (list_eqb snap_entry_eqb (x_snaps a) (x_snaps b)); [|discriminate].
  destruct (list_eqb mirror_eqb (x_mirror a) (x_mirror b)); [|discriminate].
  destruct (list_eqb zz_eqb (canon_built (x_built a)) (canon_built (x_built b))); [|discriminate].
  destruct (Bool.eqb (x_probe a) (x_probe b)); [|discriminate].
  destruct (Bool.eqb (x_update a) (x_update b)); [|discriminate].
  destruct (Bool.eqb (x_panicked a) (x_panicked b)) eqn:Ep; [|discriminate].
  intros _. split; [reflexivity|]. apply eqb_prop. exact Ep.
Qed.

Lemma cclauses_transfer routes sc hist f o o' :
  list_eqb snap_entry_eqb (x_snaps o) (x_snaps o') = true -> all_true (cclauses routes sc hist f o) -> all_true (cclauses routes sc hist f o').
Proof.
  intros Hs H k b Hin. apply in_cclauses in Hin.
  destruct Hin as (c & e & pa & r & sp & ex & ey & s' & Hx & Hra & Ea & Er & Ec & Es & -> & ->).
  pose proof (snap_of_entry_eqb c e (a_id sp) _ _ Hs) as Hos. rewrite Es in Hos.
  destruct (snap_of_entry c e (a_id sp) (x_snaps o)) as [s|] eqn:Es0; [|discriminate]. cbn [osnap_eqb] in Hos.
  assert (Hv : veqb (sn_value s) (sn_value s') = true).
  { unfold snap_eqb in Hos. apply andb_true_iff in Hos. destruct Hos as [Hos _]. apply andb_true_iff in Hos. destruct Hos as [Hos _].
    apply andb_true_iff in Hos. destruct Hos as [_ Hos]. exact Hos. }
  assert (Hb : veqb (sn_value s) (convert (aid_dim (a_id sp)) (V2 ex ey)) = true).
  { apply (H 2). unfold cclauses. apply in_flat_map. exists (c, e, pa). split; [exact Hx|]. apply in_flat_map. exists ([r], sp).
    split; [exact Hra|]. cbn [fst snd]. rewrite Ea, Er, Ec, Es0. left. reflexivity. }
  exact (veqb_trans _ _ _ (veqb_sym _ _ Hv) Hb).
Qed.

Definition out_sim (a b : out) : Prop :=
  list_eqb snap_entry_eqb (x_snaps a) (x_snaps b) = true /\ x_panicked a = x_panicked b.

Lemma judge_steps_transfer routes sc : forall steps seen hist outs outs',
  Forall2 out_sim outs outs' ->
  all_true (C19c.judge_steps routes sc seen hist steps outs) -> all_true (C19c.judge_steps routes sc seen hist steps outs').
Proof.
  induction steps as [|st steps IH]; intros seen hist outs outs' Hd H.
  - destruct Hd as [|x y r s _ _]; [exact H|]. exfalso. specialize (H 9 false (or_introl eq_refl)). discriminate.
  - destruct Hd as [|x y r s [Es Ep] Hd].
    + exfalso. destruct st; specialize (H 9 false (or_introl eq_refl)); discriminate.
    + destruct st as [op|f].
      * rewrite judge_steps_op in *. apply all_true_inv_cons in H. destruct H as [H1 H2].
        apply all_true_cons; [rewrite <- Ep; exact H1 | exact (IH false [] r s Hd H2)].
      * rewrite judge_steps_frame in *. apply all_true_inv_cons in H. destruct H as [H1 H2].
        apply all_true_inv_app in H2. destruct H2 as [H2 H3].
        apply all_true_cons; [rewrite <- Ep; exact H1|]. apply all_true_app; [|exact (IH true _ r s Hd H3)].
        destruct seen; [|intros ? ? []]. exact (cclauses_transfer routes sc hist f x y Es H2).
Qed.

Lemma outs_diff_nolog_sim : forall a b steps, outs_diff_nolog steps a b = 0 -> Forall2 out_sim a b.
Proof.
  induction a as [|x r IH]; intros [|y s] steps Hd; cbn [outs_diff_nolog] in Hd; try discriminate; [constructor|].
  destruct (Z.eqb (out_diff _ (strip_log x) (strip_log y)) 0) eqn:E.
  2:{ rewrite Hd in E. discriminate. }
  apply Z.eqb_eq in E. apply out_diff_fields in E. cbn [strip_log x_snaps x_panicked] in E.
  constructor; [exact E | exact (IH s _ Hd)].
Qed.
Lemma outs_diff_sim key : forall a b i steps, outs_diff key i steps a b = 0 -> Forall2 out_sim a b.
Proof.
  induction a as [|x r IH]; intros [|y s] i steps Hd; cbn [outs_diff] in Hd; try (constructor; fail).
  - exfalso. lia.
  - exfalso. lia.
  - destruct (Z.eqb (out_diff_k key _ x y) 0) eqn:E.
    + apply Z.eqb_eq in E. constructor; [exact (out_diff_fields _ _ _ _ E) | exact (IH s _ _ Hd)].
    + apply Z.eqb_neq in E. pose proof (out_diff_range key (match steps with st :: _ => is_frame st | [] => false end) x y). exfalso. lia.
Qed.

Lemma judge_steps_keys routes sc : forall steps seen hist outs k b,
  In (k, b) (C19c.judge_steps routes sc seen hist steps outs) -> In k [2; 8; 9].
Proof.
  induction steps as [|st steps IH]; intros seen hist outs k b Hin; destruct outs as [|o outs].
  - destruct Hin.
  - destruct Hin as [[= <- _]|[]]. cbn. tauto.
  - destruct st; destruct Hin as [[= <- _]|[]]; cbn; tauto.
  - destruct st as [op|f].
    + rewrite judge_steps_op in Hin. destruct Hin as [[= <- _]|Hin]; [cbn; tauto | exact (IH _ _ _ _ _ Hin)].
    + rewrite judge_steps_frame in Hin. destruct Hin as [[= <- _]|Hin]; [cbn; tauto|].
      apply in_app_or in Hin. destruct Hin as [Hin|Hin]; [|exact (IH _ _ _ _ _ Hin)].
      destruct seen; [|destruct Hin]. apply in_cclauses in Hin.
      destruct Hin as (? & ? & ? & ? & ? & ? & ? & ? & _ & _ & _ & _ & _ & _ & -> & _). cbn. tauto.
Qed.
Lemma first_fail_all_true_inv l : first_fail l = 0 -> (forall k b, In (k, b) l -> k <> 0) -> all_true l.
Proof.
  induction l as [|[k b] l IH]; cbn [first_fail]; intros Hf Hk; [intros ? ? []|]. destruct b.
  - apply all_true_cons; [reflexivity|]. apply IH; [exact Hf|]. intros k' b' Hin. apply (Hk k' b'). right. exact Hin.
  - exfalso. apply (Hk k false); [left; reflexivity | exact Hf].
Qed.
Lemma ok_all_true routes sc outs :
  C19c.ok (routed routes sc, trace outs) = 0 <-> all_true ((1, routes_denote routes sc) :: C19c.judge_steps routes sc false [] (s_steps sc) outs).
Proof.
  cbn [C19c.ok]. split; [|apply all_true_first_fail]. intros Hf. apply first_fail_all_true_inv; [exact Hf|].
  intros k b [[= <- _]|Hin]; [discriminate|]. apply judge_steps_keys in Hin. cbn in Hin. intuition (subst; discriminate).
Qed.

(* (T) in its general form: on ANY case, a trace that agrees with the model's run is judged like the model's run *)
Theorem C19_judgement_respects_agree : forall c t,
  C19c.agree (c, t) = true -> C19c.ok (c, model_trace c) = 0 -> C19c.ok (c, t) = 0.
Proof.
  intros [routes sc] [outs|] Ha Hok; cbn [C19c.agree] in Ha; [|discriminate]. apply Z.eqb_eq in Ha.
  cbn [model_trace] in Hok. apply ok_all_true in Hok. apply ok_all_true.
  apply all_true_inv_cons in Hok. destruct Hok as [H1 H2]. apply all_true_cons; [exact H1|].
  exact (judge_steps_transfer routes sc _ _ _ _ _ (outs_diff_nolog_sim _ _ _ Ha) H2).
Qed.
(* the same with the full comparison (events, invocation log, polled data, mirror) *)
Theorem C19_judgement_respects_agree_full : forall routes sc t,
  agree_full (sc, t) = true -> C19c.ok (routed routes sc, trace (run sc)) = 0 -> C19c.ok (routed routes sc, t) = 0.
Proof.
  intros routes sc [outs|] Ha Hok; unfold agree_full, trace_diff in Ha; cbn [fst snd] in Ha; [|discriminate]. apply Z.eqb_eq in Ha.
  apply ok_all_true in Hok. apply ok_all_true.
  apply all_true_inv_cons in Hok. destruct Hok as [H1 H2]. apply all_true_cons; [exact H1|].
  exact (judge_steps_transfer routes sc _ _ _ _ _ (outs_diff_sim _ _ _ _ _ Ha) H2).
Qed.

(* ================================================================================================ *)
(* 5. the compass clause: which actions are judged, and what they read                              *)
(* ================================================================================================ *)
(* the fields the compass clause understands: a plain key without modifier keys, a gamepad button *)
Definition simple_in (i : iset) : option input :=
  match i with
  | RRaw (IKey k m) => if Z.eqb m 0 then Some (IKey k 0) else None
  | RRaw (IPadButton b) => Some (IPadButton b)
  | _ => None
  end.
Definition compass_inputs (r : iset) : option (list input) :=
  match r with
  | RCardinal n e s w =>
      match simple_in n, simple_in e, simple_in s, simple_in w with
      | Some a, Some b, Some c, Some d => Some [a; b; c; d]
      | _, _, _, _ => None
      end
  | RBidirectional p n => match simple_in p, simple_in n with Some a, Some b => Some [a; b] | _, _ => None end
  | _ => None
  end.
(* is the input down, as the compass clause reads it *)
Definition kd (r : raw) (i : input) : bool :=
  match i with
  | IKey k _ => memz k (r_keys r)
  | IPadButton b => existsb (fun p => memz b (pad_buttons p)) (r_pads r)
  | _ => false
  end.
Definition simple_input (i : input) : Prop := (exists k, i = IKey k 0) \/ (exists b, i = IPadButton b).

Lemma simple_in_spec i inp : simple_in i = Some inp -> i = RRaw inp /\ simple_input inp.
Proof.
  destruct i as [| [k m|? ?|?|?|b|?] | | | | | | | | | |]; cbn [simple_in]; try discriminate.
  - destruct (Z.eqb m 0) eqn:E; [|discriminate]. apply Z.eqb_eq in E. subst m. intros [= <-]. split; [reflexivity | left; exists k; reflexivity].
  - intros [= <-]. split; [reflexivity | right; exists b; reflexivity].
Qed.
Lemma key_down_simple f inp : simple_input inp -> key_down f (RRaw inp) = Some (b2q (kd (f_raw f) inp)).
Proof. intros [[k ->]|[b ->]]; reflexivity. Qed.
Lemma key_down_some f i q : key_down f i = Some q -> exists inp, simple_in i = Some inp.
Proof.
  destruct i as [| [k m|? ?|?|?|b|?] | | | | | | | | | |]; cbn [key_down]; try discriminate.
  - destruct m; try discriminate. intros _. exists (IKey k 0). reflexivity.
  - intros _. exists (IPadButton b). reflexivity.
Qed.

Inductive cshape : iset -> list input -> Prop :=
| cs_card iN iE iS iW : simple_input iN -> simple_input iE -> simple_input iS -> simple_input iW ->
    cshape (RCardinal (RRaw iN) (RRaw iE) (RRaw iS) (RRaw iW)) [iN; iE; iS; iW]
| cs_bidir iP iN : simple_input iP -> simple_input iN -> cshape (RBidirectional (RRaw iP) (RRaw iN)) [iP; iN].

Lemma compass_inputs_shape r ins : compass_inputs r = Some ins -> cshape r ins.
Proof.
  destruct r; cbn [compass_inputs]; try discriminate.
  - destruct (simple_in r1) as [a|] eqn:E1; [|discriminate]. destruct (simple_in r2) as [b|] eqn:E2; [|discriminate].
    destruct (simple_in r3) as [c|] eqn:E3; [|discriminate]. destruct (simple_in r4) as [d|] eqn:E4; [|discriminate].
    intros [= <-]. apply simple_in_spec in E1, E2, E3, E4. destruct E1 as [-> ?], E2 as [-> ?], E3 as [-> ?], E4 as [-> ?].
    constructor; assumption.
  - destruct (simple_in r1) as [a|] eqn:E1; [|discriminate]. destruct (simple_in r2) as [b|] eqn:E2; [|discriminate].
    intros [= <-]. apply simple_in_spec in E1, E2. destruct E1 as [-> ?], E2 as [-> ?]. constructor; assumption.
Qed.
Lemma compass_expect_inputs f r p : compass_expect f r = Some p -> exists ins, compass_inputs r = Some ins.
Proof.
  destruct r; cbn [compass_expect compass_inputs]; try discriminate.
  - destruct (key_down f r1) eqn:E1; [|discriminate]. destruct (key_down f r2) eqn:E2; [|discriminate].
    destruct (key_down f r3) eqn:E3; [|discriminate]. destruct (key_down f r4) eqn:E4; [|discriminate].
    apply key_down_some in E1, E2, E3, E4. destruct E1 as [? ->], E2 as [? ->], E3 as [? ->], E4 as [? ->]. intros _. eexists. reflexivity.
  - destruct (key_down f r1) eqn:E1; [|discriminate]. destruct (key_down f r2) eqn:E2; [|discriminate].
    apply key_down_some in E1, E2. destruct E1 as [? ->], E2 as [? ->]. intros _. eexists. reflexivity.
Qed.

(* reading a simple input when nothing has been consumed *)
Definition harmless (c : consumed) : Prop := c_keys c = [] /\ c_pbuttons c = [].
Definition pad_free (ins : list input) : bool := forallb (fun i => match i with IKey _ _ => true | _ => false end) ins.
Lemma read_simple r c dev inp : simple_input inp -> harmless c -> (dev = None \/ exists k m, inp = IKey k m) ->
  reader_value r c dev inp = VB (kd r inp).
Proof.
  intros [[k ->]|[b ->]] [Hk Hb] Hdev; cbn [reader_value kd].
  - rewrite Hk. unfold mod_keys_pressed. rewrite Z.land_0_r. cbn. rewrite !andb_true_r. reflexivity.
  - destruct Hdev as [->|(k & m & [=])]. rewrite Hb. reflexivity.
Qed.
Lemma harmless_reset : harmless consumed_reset. Proof. split; reflexivity. Qed.
Lemma harmless_update r : harmless (update_state r). Proof. split; reflexivity. Qed.

(* ================================================================================================ *)
(* 6. one evaluation of a preset action                                                             *)
(* ================================================================================================ *)
(* the bindings as stored in an instance: the configured ones with their suppression flags *)
Definition stored_of (bs : list bind_spec) (flags : list bool) : list ibind :=
  map (fun p => mkIbind (b_input (fst p)) (b_mods (fst p)) (b_conds (fst p)) (snd p)) (combine bs flags).

Lemma cardinal_loop m tm r c dev a d iN iE iS iW gN gE gS gW bN bE bS bW :
  reader_value r c dev iN = VB bN -> reader_value r consumed_reset dev iN = VB bN ->
  reader_value r c dev iE = VB bE -> reader_value r consumed_reset dev iE = VB bE ->
  reader_value r c dev iS = VB bS -> reader_value r consumed_reset dev iS = VB bS ->
  reader_value r c dev iW = VB bW -> reader_value r consumed_reset dev iW = VB bW ->
  aid_accum a = Cumulative -> aid_consume a = false -> d <> DBool ->
  let res := input_loop m tm r c dev a (mkLoop (tracker_new (vzero d)) [] [])
               (stored_of (denote (RCardinal (RRaw iN) (RRaw iE) (RRaw iS) (RRaw iW))) [gN; gE; gS; gW]) in
  snd res = stored_of (denote (RCardinal (RRaw iN) (RRaw iE) (RRaw iS) (RRaw iW))) [gN && bN; gE && bE; gS && bS; gW && bW] /\
  (gN && bN = false -> gE && bE = false -> gS && bS = false -> gW && bW = false ->
   veqb (convert d (t_value (l_tracker (fst res)))) (convert d (V2 (b2q bE - b2q bW) (b2q bN - b2q bS))) = true).
Proof.
  intros HN HN0 HE HE0 HS HS0 HW HW0 Hacc Hcons Hd.
  cbn [denote cardinal map app add_mods raw_bind b_input b_mods b_conds stored_of combine fst snd].
  cbn [input_loop]. unfold input_step. cbn [ib_input ib_ignored ib_mods ib_conds].
  rewrite HN, HN0, HE, HE0, HS, HS0, HW, HW0, Hacc, Hcons.
  destruct d; [congruence| | |];
  destruct gN, bN, gE, bE, gS, bS, gW, bW; vm_compute; (split; [reflexivity|]); intros; try discriminate; reflexivity.
Qed.

Lemma bidir_loop m tm r c dev a d iP iN gP gN bP bN :
  reader_value r c dev iP = VB bP -> reader_value r consumed_reset dev iP = VB bP ->
  reader_value r c dev iN = VB bN -> reader_value r consumed_reset dev iN = VB bN ->
  aid_accum a = Cumulative -> aid_consume a = false -> d <> DBool ->
  let res := input_loop m tm r c dev a (mkLoop (tracker_new (vzero d)) [] [])
               (stored_of (denote (RBidirectional (RRaw iP) (RRaw iN))) [gP; gN]) in
  snd res = stored_of (denote (RBidirectional (RRaw iP) (RRaw iN))) [gP && bP; gN && bN] /\
  (gP && bP = false -> gN && bN = false ->
   veqb (convert d (t_value (l_tracker (fst res)))) (convert d (V2 (b2q bP - b2q bN) 0)) = true).
Proof.
  intros HP HP0 HN HN0 Hacc Hcons Hd.
  cbn [denote map app add_mods raw_bind b_input b_mods b_conds stored_of combine fst snd].
  cbn [input_loop]. unfold input_step. cbn [ib_input ib_ignored ib_mods ib_conds].
  rewrite HP, HP0, HN, HN0, Hacc, Hcons.
  destruct d; [congruence| | |];
  destruct gP, bP, gN, bN; vm_compute; (split; [reflexivity|]); intros; try discriminate; reflexivity.
Qed.

Lemma apply_conds_value m tm cs : forall t, t_value (snd (fst (apply_conds m tm t cs))) = t_value t.
Proof.
  induction cs as [|[id c] cs IH]; intros t; cbn [apply_conds]; [reflexivity|].
  destruct (cond_eval (look_of m) tm (t_value t) c) as [c' s]. specialize (IH (apply_result t (cond_kind c) s)).
  destruct (apply_conds m tm (apply_result t (cond_kind c) s) cs) as [[r' t'] lg]. cbn [fst snd] in *. rewrite IH.
  destruct (cond_kind c) as [| |[|]]; reflexivity.
Qed.

(* an action without action-level modifiers stores the converted value of its input loop, whatever its conditions say *)
Lemma action_update_plain m tm r c dev recips a cs ibs :
  aid_consume a = false ->
  let res := input_loop m tm r c dev a (mkLoop (tracker_new (vzero (aid_dim a))) [] []) ibs in
  let o := action_update m tm r c dev recips (mkAbind a [] cs ibs) in
  (exists cs', o_bind o = mkAbind a [] cs' (snd res)) /\ o_consumed o = c /\
  exists d', lookup a (o_actions o) = Some d' /\ d_value d' = convert (aid_dim a) (t_value (l_tracker (fst res))).
Proof.
  intros Hc. cbv zeta. unfold action_update. cbn [ab_id ab_inputs ab_mods ab_conds].
  destruct (input_loop m tm r c dev a (mkLoop (tracker_new (vzero (aid_dim a))) [] []) ibs) as [st ibs'].
  cbn [apply_mods fst snd].
  pose proof (apply_conds_value m tm cs (with_value (l_tracker st) (t_value (l_tracker st)))) as Hv0.
  destruct (apply_conds m tm (with_value (l_tracker st) (t_value (l_tracker st))) cs) as [[cs' tr] lg2]. cbn [fst snd] in Hv0.
  rewrite Hc. cbn [andb o_bind o_consumed o_actions].
  split; [eexists; reflexivity|]. split; [reflexivity|]. eexists. split; [apply lookup_store_same|].
  match goal with |- d_value (data_update ?dt ?d ?s ?v) = _ => destruct (data_update_fields dt d s v) as (_ & Hv & _) end.
  rewrite Hv, Hv0. reflexivity.
Qed.

(* the instance of a judged entry: one action, bound through the preset; a binding that is still suppressed has its
   input in [pend] *)
Definition CInv (r : iset) (a : aid) (dev : device) (ins pend : list input) (i : inst) : Prop :=
  in_pad i = dev /\
  exists cs flags, in_binds i = [mkAbind a [] cs (stored_of (denote r) flags)] /\
                Forall2 (fun (g : bool) inp => g = true -> In inp pend) flags ins.

(* what the compass clause expects, from the inputs *)
Definition cexpect (r0 : raw) (ins : list input) : Q * Q :=
  match ins with
  | [iN; iE; iS; iW] => (b2q (kd r0 iE) - b2q (kd r0 iW), b2q (kd r0 iN) - b2q (kd r0 iS))%Q
  | [iP; iN] => (b2q (kd r0 iP) - b2q (kd r0 iN), 0)%Q
  | _ => (0, 0)%Q
  end.
Lemma compass_expect_shape f r ins : cshape r ins -> compass_expect f r = Some (cexpect (f_raw f) ins).
Proof.
  intros [iN iE iS iW H1 H2 H3 H4|iP iN H1 H2]; cbn [compass_expect cexpect].
  - rewrite !key_down_simple by assumption. reflexivity.
  - rewrite !key_down_simple by assumption. reflexivity.
Qed.

Lemma skip_free (g : bool) inp r0 pend : (g = true -> In inp pend) -> (kd r0 inp = true -> ~ In inp pend) -> g && kd r0 inp = false.
Proof.
  intros Hg Hn. destruct g; [|reflexivity]. cbn [andb]. destruct (kd r0 inp); [|reflexivity]. exfalso. exact (Hn eq_refl (Hg eq_refl)).
Qed.
Lemma flag_step (g : bool) inp r0 pend : (g = true -> In inp pend) -> g && kd r0 inp = true -> In inp (filter (kd r0) pend).
Proof. intros Hg H. apply andb_true_iff in H. destruct H as [H1 H2]. apply filter_In. split; [exact (Hg H1) | exact H2]. Qed.

Lemma inst_update_compass tm r0 c recips r a dev ins pend i :
  cshape r ins -> harmless c -> (dev = None \/ pad_free ins = true) ->
  aid_accum a = Cumulative -> aid_consume a = false -> aid_dim a <> DBool ->
  CInv r a dev ins pend i ->
  let i' := io_inst (inst_update tm r0 c recips i) in
  CInv r a dev ins (filter (kd r0) pend) i' /\
  ((forall inp, In inp ins -> kd r0 inp = true -> ~ In inp pend) ->
   exists d', lookup a (in_actions i') = Some d' /\
              veqb (d_value d') (convert (aid_dim a) (V2 (fst (cexpect r0 ins)) (snd (cexpect r0 ins)))) = true).
Proof.
  intros Hsh Hc Hdev Hacc Hcons Hdim (Hpad & cs & flags & Hb & Hf). cbv zeta. subst dev.
  unfold inst_update. rewrite Hb. cbn [binds_update]. cbv zeta. cbn [io_inst in_pad in_binds in_actions].
  assert (Hread : forall inp, In inp ins -> simple_input inp ->
            reader_value r0 c (in_pad i) inp = VB (kd r0 inp) /\ reader_value r0 consumed_reset (in_pad i) inp = VB (kd r0 inp)).
  { intros inp Hin Hs. assert (Hd : in_pad i = None \/ exists k m, inp = IKey k m).
    { destruct Hdev as [Hd|Hd]; [left; exact Hd|]. right. unfold pad_free in Hd. rewrite forallb_forall in Hd. specialize (Hd inp Hin).
      destruct inp; try discriminate. eexists; eexists; reflexivity. }
    split; apply read_simple; try assumption. apply harmless_reset. }
  destruct Hsh as [iN iE iS iW H1 H2 H3 H4|iP iN H1 H2].
  - inversion Hf as [|gN ? fl1 ? HgN Hf1]; subst. inversion Hf1 as [|gE ? fl2 ? HgE Hf2]; subst.
    inversion Hf2 as [|gS ? fl3 ? HgS Hf3]; subst. inversion Hf3 as [|gW ? fl4 ? HgW Hf4]; subst. inversion Hf4; subst.
    destruct (Hread iN) as [RN RN0]; [cbn; tauto | exact H1|]. destruct (Hread iE) as [RE RE0]; [cbn; tauto | exact H2|].
    destruct (Hread iS) as [RS RS0]; [cbn; tauto | exact H3|]. destruct (Hread iW) as [RW RW0]; [cbn; tauto | exact H4|].
    pose proof (cardinal_loop (in_actions i) tm r0 c (in_pad i) a (aid_dim a) iN iE iS iW gN gE gS gW _ _ _ _ RN RN0 RE RE0 RS RS0 RW RW0 Hacc Hcons Hdim) as [L1 L2].
    destruct (action_update_plain (in_actions i) tm r0 c (in_pad i) recips a cs
                (stored_of (denote (RCardinal (RRaw iN) (RRaw iE) (RRaw iS) (RRaw iW))) [gN; gE; gS; gW]) Hcons) as ((cs' & A1) & A2 & d' & A3 & A4).
    cbv zeta in L1, L2, A1, A2, A3, A4. split.
    + split; [reflexivity|]. exists cs'. eexists. split; [rewrite A1, L1; reflexivity|].
      repeat constructor; intros Hg; eapply flag_step; eassumption.
    + intros Hn. exists d'. split; [exact A3|]. rewrite A4. cbn [cexpect fst snd].
      apply L2; (eapply skip_free; [eassumption|]; apply Hn; cbn; tauto).
  - inversion Hf as [|gP ? fl1 ? HgP Hf1]; subst. inversion Hf1 as [|gN ? fl2 ? HgN Hf2]; subst. inversion Hf2; subst.
    destruct (Hread iP) as [RP RP0]; [cbn; tauto | exact H1|]. destruct (Hread iN) as [RN RN0]; [cbn; tauto | exact H2|].
    pose proof (bidir_loop (in_actions i) tm r0 c (in_pad i) a (aid_dim a) iP iN gP gN _ _ RP RP0 RN RN0 Hacc Hcons Hdim) as [L1 L2].
    destruct (action_update_plain (in_actions i) tm r0 c (in_pad i) recips a cs
                (stored_of (denote (RBidirectional (RRaw iP) (RRaw iN))) [gP; gN]) Hcons) as ((cs' & A1) & A2 & d' & A3 & A4).
    cbv zeta in L1, L2, A1, A2, A3, A4. split.
    + split; [reflexivity|]. exists cs'. eexists. split; [rewrite A1, L1; reflexivity|].
      repeat constructor; intros Hg; eapply flag_step; eassumption.
    + intros Hn. exists d'. split; [exact A3|]. rewrite A4. cbn [cexpect fst snd].
      apply L2; (eapply skip_free; [eassumption|]; apply Hn; cbn; tauto).
Qed.

(* ================================================================================================ *)
(* 7. one registry update when no action consumes: every instance is evaluated on the frame's reset state *)
(* ================================================================================================ *)
Lemma binds_update_nc tm r dev recips bs : forall m c, Forall (fun ab => aid_consume (ab_id ab) = false) bs ->
  let '(_, _, c', _, _) := binds_update m tm r c dev recips bs in c' = c.
Proof.
  induction bs as [|b bs IH]; intros m c Hnc; cbn [binds_update]; [reflexivity|]. cbv zeta.
  inversion Hnc as [|? ? Hb Hr]; subst.
  destruct (action_update_sites m tm r c dev recips b) as (_ & _ & Hcons). cbv zeta in Hcons. specialize (Hcons Hb).
  specialize (IH (o_actions (action_update m tm r c dev recips b)) (o_consumed (action_update m tm r c dev recips b)) Hr).
  destruct (binds_update _ tm r _ dev recips bs) as [[[[rest' m'] c'] ev] lg]. rewrite IH. exact Hcons.
Qed.
Lemma inst_update_nc tm r c recips i : nonconsuming i -> io_consumed (inst_update tm r c recips i) = c.
Proof.
  intros Hnc. unfold inst_update. pose proof (binds_update_nc tm r (in_pad i) recips (in_binds i) (in_actions i) c Hnc) as H.
  destruct (binds_update (in_actions i) tm r c (in_pad i) recips (in_binds i)) as [[[[bs m] c'] ev] lg]. exact H.
Qed.

Lemma excl_update_get tm r e : forall insts c0, Forall nonconsuming (map snd insts) ->
  let '(insts', c', _, _) := excl_update tm r c0 insts in
  c' = c0 /\ forall i', option_map snd (find (fun ei : entity * inst => Z.eqb (fst ei) e) insts') = Some i' ->
                exists i recips, option_map snd (find (fun ei : entity * inst => Z.eqb (fst ei) e) insts) = Some i /\
                                 i' = io_inst (inst_update tm r c0 recips i).
Proof.
  induction insts as [|[en i] insts IH]; intros c0 Hnc; cbn [excl_update]; [split; [reflexivity | discriminate]|]. cbv zeta.
  cbn [map snd] in Hnc. inversion Hnc as [|? ? Hi Hr]; subst.
  rewrite (inst_update_nc tm r c0 [en] i Hi). specialize (IH c0 Hr).
  destruct (excl_update tm r c0 insts) as [[[rest' c'] ev] lg]. destruct IH as [-> IH]. split; [reflexivity|].
  intros i'. cbn [find fst]. destruct (Z.eqb en e).
  - cbn [option_map snd]. intros [= <-]. exists i, [en]. split; reflexivity.
  - exact (IH i').
Qed.

Lemma reg_update_get tm r c e : forall gs c0, Forall nonconsuming (all_insts gs) ->
  ro_consumed (reg_update tm r c0 gs) = c0 /\
  forall i', reg_get c e (ro_reg (reg_update tm r c0 gs)) = Some i' ->
             exists i recips, reg_get c e gs = Some i /\ i' = io_inst (inst_update tm r c0 recips i).
Proof.
  induction gs as [|[cx p insts|cx p ents i] gs IH]; intros c0 Hnc; cbn [reg_update].
  - split; [reflexivity|]. cbn [ro_reg]. intros i' H. rewrite reg_get_unfold in H. discriminate.
  - unfold all_insts in Hnc. cbn [flat_map g_insts] in Hnc. apply Forall_app in Hnc. destruct Hnc as [H1 H2].
    pose proof (excl_update_get tm r e insts c0 H1) as He. destruct (excl_update tm r c0 insts) as [[[insts' c'] ev] lg].
    destruct He as [-> He]. cbv zeta. cbn [ro_consumed ro_reg]. destruct (IH c0 H2) as [I1 I2]. split; [exact I1|].
    intros i'. rewrite !tk_reg_get_cons. cbn [g_ctx group_get]. destruct (Z.eqb cx c); [exact (He i') | exact (I2 i')].
  - unfold all_insts in Hnc. cbn [flat_map g_insts app] in Hnc. inversion Hnc as [|? ? H1 H2]; subst. cbv zeta.
    rewrite (inst_update_nc tm r c0 ents i H1). cbn [ro_consumed ro_reg]. destruct (IH c0 H2) as [I1 I2]. split; [exact I1|].
    intros i'. rewrite !tk_reg_get_cons. cbn [g_ctx group_get]. destruct (Z.eqb cx c); [|exact (I2 i')].
    destruct (existsb (Z.eqb e) ents); [|discriminate]. intros [= <-]. exists i, ents. split; reflexivity.
Qed.

(* ================================================================================================ *)
(* 8. the routes denote the scenario: for a preset, the configured bindings ARE the denotation      *)
(* ================================================================================================ *)
Definition rigid (m : modif) : Prop := match m with MNegate _ _ _ | MSwizzle _ => True | _ => False end.
Lemma modif_eqb_rigid m m' : rigid m -> modif_eqb m m' = true -> m' = m.
Proof.
  destruct m; cbn [rigid]; try contradiction; intros _; destruct m'; cbn [modif_eqb]; try discriminate.
  - intros H. apply andb_true_iff in H. destruct H as [H H3]. apply andb_true_iff in H. destruct H as [H1 H2].
    apply eqb_prop in H1, H2, H3. subst. reflexivity.
  - destruct k, k0; try discriminate; reflexivity.
Qed.
Definition rigid_bind (b : bind_spec) : Prop := Forall (fun p => rigid (snd p)) (b_mods b) /\ b_conds b = [].
Lemma input_eqb'_eq a b : input_eqb' a b = true -> a = b.
Proof.
  destruct a, b; cbn [input_eqb']; try discriminate; rewrite ?andb_true_iff, ?Z.eqb_eq; intros H; try destruct H; subst; reflexivity.
Qed.
Lemma bind_eqb_rigid b b' : rigid_bind b -> bind_eqb b b' = true -> b' = b.
Proof.
  destruct b as [i ms cs], b' as [i' ms' cs']. intros [Hm Hc]. cbn [b_mods b_conds] in Hm, Hc. subst cs.
  unfold bind_eqb. cbn [b_input b_mods b_conds]. intros H. apply andb_true_iff in H. destruct H as [H H3].
  apply andb_true_iff in H. destruct H as [H1 H2]. apply input_eqb'_eq in H1. subst i'.
  destruct cs'; [|discriminate]. f_equal.
  revert ms' H2. induction Hm as [|[id m] ms Hr _ IH]; intros [|[id' m'] ms'] H; cbn [list_eqb] in H; try discriminate; [reflexivity|].
  apply andb_true_iff in H. destruct H as [H H']. cbn [fst snd] in H, Hr. apply andb_true_iff in H. destruct H as [Hi Hmm].
  apply Z.eqb_eq in Hi. subst id'. rewrite (modif_eqb_rigid m m' Hr Hmm), (IH ms' H'). reflexivity.
Qed.
Lemma binds_eqb_rigid bs : Forall rigid_bind bs -> forall bs', list_eqb bind_eqb bs bs' = true -> bs' = bs.
Proof.
  induction 1 as [|b bs Hb _ IH]; intros [|b' bs'] H; cbn [list_eqb] in H; try discriminate; [reflexivity|].
  apply andb_true_iff in H. destruct H as [H1 H2]. rewrite (bind_eqb_rigid b b' Hb H1), (IH bs' H2). reflexivity.
Qed.
Lemma cshape_rigid r ins : cshape r ins -> Forall rigid_bind (denote r).
Proof. intros [iN iE iS iW _ _ _ _|iP iN _ _]; cbn; repeat constructor. Qed.
Lemma cshape_fresh r ins : cshape r ins -> map ibind_of (denote r) = stored_of (denote r) (map (fun _ => true) ins).
Proof. intros [iN iE iS iW _ _ _ _|iP iN _ _]; reflexivity. Qed.

(* ================================================================================================ *)
(* 9. the judged entries and the profile                                                            *)
(* ================================================================================================ *)
Definition entry : Type := (Z * Z * iset * action_spec * list input)%type.
Definition en_c (E : entry) : Z := fst (fst (fst (fst E))).
Definition en_e (E : entry) : Z := snd (fst (fst (fst E))).
Definition en_r (E : entry) : iset := snd (fst (fst E)).
Definition en_sp (E : entry) : action_spec := snd (fst E).
Definition en_ins (E : entry) : list input := snd E.

Definition judged_entries (routes : rt) (sc : scenario) : list entry :=
  flat_map (fun x =>
    let '(c, e, per_action) := x in
    flat_map (fun ra =>
      match fst ra with
      | [r] => match aid_accum (a_id (snd ra)) with
               | Cumulative => match compass_inputs r with Some ins => [(c, e, r, snd ra, ins)] | None => [] end
               | MaxAbs => []
               end
      | _ => []
      end) (combine per_action (i_actions (cfg_lookup sc c e)))) routes.

Lemma judged_entry_in routes sc c e pa r sp f p :
  In (c, e, pa) routes -> In ([r], sp) (combine pa (i_actions (cfg_lookup sc c e))) ->
  aid_accum (a_id sp) = Cumulative -> compass_expect f r = Some p ->
  exists ins, In (c, e, r, sp, ins) (judged_entries routes sc).
Proof.
  intros Hx Hra Ea Ec. destruct (compass_expect_inputs f r p Ec) as [ins Hi]. exists ins.
  unfold judged_entries. apply in_flat_map. exists (c, e, pa). split; [exact Hx|]. apply in_flat_map. exists ([r], sp).
  split; [exact Hra|]. cbn [fst snd]. rewrite Ea, Hi. left. reflexivity.
Qed.
Lemma judged_entry_inv routes sc E : In E (judged_entries routes sc) ->
  exists pa, In (en_c E, en_e E, pa) routes /\ In ([en_r E], en_sp E) (combine pa (i_actions (cfg_lookup sc (en_c E) (en_e E)))) /\
             aid_accum (a_id (en_sp E)) = Cumulative /\ compass_inputs (en_r E) = Some (en_ins E).
Proof.
  unfold judged_entries. intros Hin. apply in_flat_map in Hin. destruct Hin as ([[c e] pa] & Hx & Hin).
  apply in_flat_map in Hin. destruct Hin as ([rs sp] & Hra & Hin). cbn [fst snd] in Hin.
  destruct rs as [|r [|r2 rs]]; try (destruct Hin). destruct (aid_accum (a_id sp)) eqn:Ea; [|destruct Hin].
  destruct (compass_inputs r) as [ins|] eqn:Ei; [|destruct Hin]. destruct Hin as [<-|[]].
  exists pa. cbn [en_c en_e en_r en_sp en_ins fst snd]. repeat split; assumption.
Qed.

Definition entry_okb (sc : scenario) (E : entry) : bool :=
  let spec := cfg_lookup sc (en_c E) (en_e E) in
  negb (ctx_shared (en_c E)) &&
  match i_actions spec with [_] => true | _ => false end &&
  match a_mods (en_sp E) with [] => true | _ => false end &&
  negb (dim_eqb (aid_dim (a_id (en_sp E))) DBool) &&
  (pad_free (en_ins E) || match i_pad spec with None => true | Some _ => false end).

Definition profile_C19b (c : rcase) : bool :=
  match c with
  | routed routes sc =>
      routes_denote routes sc &&
      match judged_entries routes sc with
      | [] => true
      | es => nonconsumingb sc && forallb (entry_okb sc) es
      end
  end.
Definition profile_C19 (c : rcase) : Prop := profile_C19b c = true.

(* what the profile says of one judged entry *)
Record estatic (sc : scenario) (E : entry) : Prop := mkEstatic {
  es_excl : ctx_shared (en_c E) = false;
  es_one : i_actions (cfg_lookup sc (en_c E) (en_e E)) = [en_sp E];
  es_mods : a_mods (en_sp E) = [];
  es_binds : a_binds (en_sp E) = denote (en_r E);
  es_dim : aid_dim (a_id (en_sp E)) <> DBool;
  es_acc : aid_accum (a_id (en_sp E)) = Cumulative;
  es_pad : i_pad (cfg_lookup sc (en_c E) (en_e E)) = None \/ pad_free (en_ins E) = true;
  es_shape : cshape (en_r E) (en_ins E) }.

Lemma entry_static routes sc E : routes_denote routes sc = true -> In E (judged_entries routes sc) -> entry_okb sc E = true -> estatic sc E.
Proof.
  intros Hd Hin Hok. destruct (judged_entry_inv routes sc E Hin) as (pa & Hx & Hra & Ea & Ei).
  pose proof (compass_inputs_shape _ _ Ei) as Hsh.
  unfold entry_okb in Hok. cbv zeta in Hok. rewrite !andb_true_iff in Hok. destruct Hok as ((((H1 & H2) & H3) & H5) & H6).
  destruct (i_actions (cfg_lookup sc (en_c E) (en_e E))) as [|x [|y l]] eqn:Eact; try discriminate.
  assert (Hsp : en_sp E = x). { apply in_combine_r in Hra. destruct Hra as [<-|[]]. reflexivity. }
  constructor.
  - apply negb_true_iff. exact H1.
  - rewrite Hsp. exact Eact.
  - destruct (a_mods (en_sp E)); [reflexivity | discriminate].
  - unfold routes_denote in Hd. rewrite forallb_forall in Hd. specialize (Hd _ Hx). cbv beta iota zeta in Hd.
    apply andb_true_iff in Hd. destruct Hd as [_ Hd]. rewrite forallb_forall in Hd. rewrite Eact in Hd. specialize (Hd _ Hra).
    cbn [fst snd] in Hd. unfold denote_routes in Hd. cbn [flat_map] in Hd. rewrite app_nil_r in Hd.
    exact (binds_eqb_rigid _ (cshape_rigid _ _ Hsh) _ Hd).
  - intros Hdm. rewrite Hdm in H5. discriminate.
  - exact Ea.
  - apply orb_true_iff in H6. destruct H6 as [H6|H6]; [right; exact H6 | left]. destruct (i_pad (cfg_lookup sc (en_c E) (en_e E))); [discriminate | reflexivity].
  - exact Hsh.
Qed.

(* ================================================================================================ *)
(* 10. R1/R2: the invariant of one judged entry through operations and frames                        *)
(* ================================================================================================ *)
Definition WInv (sc : scenario) (E : entry) (pend : list input) (w : world) : Prop :=
  forall i, reg_get (en_c E) (en_e E) (w_reg w) = Some i ->
            CInv (en_r E) (a_id (en_sp E)) (i_pad (cfg_lookup sc (en_c E) (en_e E))) (en_ins E) pend i.

Lemma flags_any {A} (P : bool -> A -> Prop) flags (ins : list A) : Forall2 P flags ins ->
  forall l, incl ins l -> Forall2 (fun (g : bool) inp => g = true -> In inp l) flags ins.
Proof.
  induction 1 as [|g inp flags ins _ _ IH]; intros l Hl; [constructor|]. constructor.
  - intros _. apply Hl. left. reflexivity.
  - apply IH. intros x Hx. apply Hl. right. exact Hx.
Qed.
Lemma CInv_all r a dev ins pend i : CInv r a dev ins pend i -> CInv r a dev ins ins i.
Proof. intros (Hp & cs & flags & Hb & Hf). split; [exact Hp|]. exists cs, flags. split; [exact Hb|]. exact (flags_any _ _ _ Hf ins (incl_refl _)). Qed.
Lemma flags_fresh (ins : list input) : forall l, incl ins l -> Forall2 (fun (g : bool) inp => g = true -> In inp l) (map (fun _ => true) ins) ins.
Proof.
  induction ins as [|x ins IH]; intros l Hl; [constructor|]. cbn [map]. constructor.
  - intros _. apply Hl. left. reflexivity.
  - apply IH. intros y Hy. apply Hl. right. exact Hy.
Qed.

Lemma fresh_CInv sc E : estatic sc E ->
  CInv (en_r E) (a_id (en_sp E)) (i_pad (cfg_lookup sc (en_c E) (en_e E))) (en_ins E) (en_ins E) (mk_inst sc (en_c E) (en_e E)).
Proof.
  intros S. unfold mk_inst, instantiate. rewrite (es_one sc E S). cbn [fold_left bind_action extend in_binds in_pad in_actions app].
  split; [reflexivity|]. exists (a_conds (en_sp E)), (map (fun _ => true) (en_ins E)). split.
  - rewrite (es_mods sc E S), (es_binds sc E S), (cshape_fresh _ _ (es_shape sc E S)). reflexivity.
  - apply flags_fresh. apply incl_refl.
Qed.

Lemma reg_get_holds sc w c e i : reg_inv sc w -> reg_get c e (w_reg w) = Some i -> holds (w_holds w) c e.
Proof. intros (_ & _ & _ & Hm & _) H. apply (Hm c e). rewrite H. discriminate. Qed.

Lemma op_WInv sc E pend w o oo : estatic sc E -> reg_inv sc w -> apply_op sc w o = Some oo ->
  WInv sc E pend w -> WInv sc E (en_ins E) (oo_world oo).
Proof.
  intros S Hinv Hop HW i' Hget.
  pose proof (apply_op_effect sc w o oo Hinv Hop) as Ef.
  destruct (apply_op_inv sc w o Hinv) as (oo' & Hop' & Hinv'). rewrite Hop in Hop'. injection Hop' as <-.
  pose proof (reg_get_holds sc _ _ _ _ Hinv' Hget) as Hh'.
  destruct (pair_in_dec (en_c E, en_e E) (oo_built oo)) as [Hin|Hnin].
  - rewrite (ef_fx sc _ _ _ _ Ef _ _ (es_excl sc E S) Hin) in Hget. injection Hget as <-. exact (fresh_CInv sc E S).
  - destruct (holds_dec w (en_c E) (en_e E)) as [Hh|Hnh].
    + destruct (ef_u sc _ _ _ _ Ef _ _ Hh) as [Hn|He].
      * unfold touched. rewrite (es_excl sc E S). exact Hnin.
      * rewrite Hn in Hget. discriminate.
      * rewrite He in Hget. exact (CInv_all _ _ _ _ _ _ (HW i' Hget)).
    + exfalso. apply Hnin. apply (ef_bx sc _ _ _ _ Ef _ _ (es_excl sc E S)). split; [exact Hh' | left; exact Hnh].
Qed.

Lemma entry_nonconsuming sc E : nonconsumingb sc = true -> estatic sc E -> aid_consume (a_id (en_sp E)) = false.
Proof.
  intros Hnc S. destruct (JudgeC07P.cfg_lookup_cases sc (en_c E) (en_e E)) as [H|(x & Hx & H)].
  - pose proof (es_one sc E S) as H1. rewrite H in H1. discriminate.
  - unfold nonconsumingb in Hnc. rewrite forallb_forall in Hnc. specialize (Hnc x Hx). rewrite forallb_forall in Hnc.
    apply negb_true_iff. apply Hnc. rewrite <- H, (es_one sc E S). left. reflexivity.
Qed.

Lemma WInv_all sc E pend w : WInv sc E pend w -> WInv sc E (en_ins E) w.
Proof. intros H i Hg. exact (CInv_all _ _ _ _ _ _ (H i Hg)). Qed.

(* the registry update of a frame *)
Lemma reg_update_WInv sc E pend w tm r0 : estatic sc E -> aid_consume (a_id (en_sp E)) = false -> insts_ok sc w ->
  WInv sc E pend w ->
  let w1 := mkWorld (w_holds w) (ro_reg (reg_update tm r0 (update_state r0) (w_reg w))) tm in
  WInv sc E (filter (kd r0) pend) w1 /\
  ((forall inp, In inp (en_ins E) -> kd r0 inp = true -> ~ In inp pend) ->
   forall i', reg_get (en_c E) (en_e E) (w_reg w1) = Some i' ->
   exists d', lookup (a_id (en_sp E)) (in_actions i') = Some d' /\
              veqb (d_value d') (convert (aid_dim (a_id (en_sp E))) (V2 (fst (cexpect r0 (en_ins E))) (snd (cexpect r0 (en_ins E))))) = true).
Proof.
  intros S Hcons Hok HW. cbv zeta. cbn [w_reg].
  assert (Hnc : Forall nonconsuming (all_insts (w_reg w))) by (eapply Forall_impl; [|exact Hok]; intros i [_ H]; exact H).
  destruct (reg_update_get tm r0 (en_c E) (en_e E) (w_reg w) (update_state r0) Hnc) as [_ Hget].
  split.
  - intros i' Hg. destruct (Hget i' Hg) as (i & recips & Hi & ->).
    exact (proj1 (inst_update_compass tm r0 (update_state r0) recips _ _ _ _ pend i
                    (es_shape sc E S) (harmless_update _) (es_pad sc E S) (es_acc sc E S) Hcons (es_dim sc E S) (HW i Hi))).
  - intros Hchk i' Hg. destruct (Hget i' Hg) as (i & recips & Hi & ->).
    exact (proj2 (inst_update_compass tm r0 (update_state r0) recips _ _ _ _ pend i
                    (es_shape sc E S) (harmless_update _) (es_pad sc E S) (es_acc sc E S) Hcons (es_dim sc E S) (HW i Hi)) Hchk).
Qed.

Lemma run_ops_WInv sc E : estatic sc E -> forall ops w a pend, reg_inv sc w -> run_ops sc w ops = Some a ->
  WInv sc E pend w -> WInv sc E (en_ins E) (oo_world a).
Proof.
  intros S. induction ops as [|o ops IH]; intros w a pend Hinv Hr HW.
  - rewrite run_ops_nil in Hr. injection Hr as <-. exact (WInv_all sc E pend w HW).
  - rewrite run_ops_cons in Hr. destruct (apply_op sc w o) as [r|] eqn:Eo; [|discriminate].
    destruct (run_ops sc (oo_world r) ops) as [a2|] eqn:E2; [|discriminate]. injection Hr as <-. cbn [prefix_out oo_world].
    destruct (apply_op_inv sc w o Hinv) as (r' & Hr' & Hinv'). rewrite Eo in Hr'. injection Hr' as <-.
    exact (IH _ _ _ Hinv' E2 (op_WInv sc E pend w o r S Hinv Eo HW)).
Qed.

(* a frame without operations: the pending set is filtered; the judged value *)
Lemma frame_WInv sc E pend w f fo : estatic sc E -> aid_consume (a_id (en_sp E)) = false ->
  reg_inv sc w -> insts_ok sc w -> f_ops f = [] -> frame sc w f = Some fo ->
  WInv sc E pend w ->
  WInv sc E (filter (kd (f_raw f)) pend) (fo_world fo) /\
  ((forall inp, In inp (en_ins E) -> kd (f_raw f) inp = true -> ~ In inp pend) ->
   forall i', reg_get (en_c E) (en_e E) (w_reg (fo_world fo)) = Some i' ->
   exists d', lookup (a_id (en_sp E)) (in_actions i') = Some d' /\
              veqb (d_value d') (convert (aid_dim (a_id (en_sp E))) (V2 (fst (cexpect (f_raw f) (en_ins E))) (snd (cexpect (f_raw f) (en_ins E))))) = true).
Proof.
  intros S Hcons Hinv Hok Hops Hf HW.
  destruct (frame_parts sc w f fo Hf) as (a & Ha & Hw & _ & _). cbv zeta in Ha. rewrite Hops, run_ops_nil in Ha. injection Ha as <-.
  cbn [oo_world] in Hw. rewrite Hw. exact (reg_update_WInv sc E pend w (frame_time f) (f_raw f) S Hcons Hok HW).
Qed.
(* any frame, with or without operations: afterwards every binding may be suppressed again *)
Lemma frame_ops_WInv sc E pend w f fo : estatic sc E -> aid_consume (a_id (en_sp E)) = false ->
  reg_inv sc w -> insts_ok sc w -> frame sc w f = Some fo -> WInv sc E pend w -> WInv sc E (en_ins E) (fo_world fo).
Proof.
  intros S Hcons Hinv Hok Hf HW.
  destruct (frame_parts sc w f fo Hf) as (a & Ha & Hw & _ & _). cbv zeta in Ha. rewrite Hw.
  refine (run_ops_WInv sc E S (f_ops f) _ a _ (reg_update_inv sc w (frame_time f) (f_raw f) (update_state (f_raw f)) Hinv) Ha _).
  exact (proj1 (reg_update_WInv sc E pend w (frame_time f) (f_raw f) S Hcons Hok HW)).
Qed.

Lemma snap_of_entry_snapv sc w c e a s : snap_of_entry c e a (model_snaps sc w) = Some s -> snapv w c e a = Some s.
Proof.
  unfold snap_of_entry. destruct (find _ (model_snaps sc w)) as [x|] eqn:Ef; [|discriminate].
  apply find_some in Ef. destruct Ef as [Hin Hp]. apply in_model_snaps in Hin. destruct Hin as (c' & e' & a' & _ & _ & _ & _ & ->).
  apply andb_true_iff in Hp. destruct Hp as [Hp H3]. apply andb_true_iff in Hp. destruct Hp as [H1 H2].
  apply Z.eqb_eq in H1, H2, H3. subst. intros H. exact H.
Qed.

(* ================================================================================================ *)
(* 11. R3: induction over the steps; the judgement's history against the pending sets               *)
(* ================================================================================================ *)
(* the inputs that were down on every frame of the history (newest first) *)
Fixpoint pend_of (hist : list frame_in) (ins : list input) : list input :=
  match hist with [] => ins | g :: h => filter (kd (f_raw g)) (pend_of h ins) end.
Lemma pend_of_in hist ins inp : In inp (pend_of hist ins) -> forall g, In g hist -> kd (f_raw g) inp = true.
Proof.
  induction hist as [|g0 h IH]; cbn [pend_of]; intros Hin g Hg; [destruct Hg|]. apply filter_In in Hin. destruct Hin as [Hin Hk].
  destruct Hg as [<-|Hg]; [exact Hk | exact (IH Hin g Hg)].
Qed.
Lemma qnz_b2q b : qnz (b2q b) = b.
Proof. destruct b; reflexivity. Qed.
Lemma field_ready_simple hist f inp : simple_input inp -> field_ready hist f (RRaw inp) = true -> kd (f_raw f) inp = true ->
  exists g, In g hist /\ kd (f_raw g) inp = false.
Proof.
  intros Hs Hr Hk. unfold field_ready in Hr. rewrite (key_down_simple f inp Hs), qnz_b2q, Hk in Hr. cbn [negb orb] in Hr.
  apply existsb_exists in Hr. destruct Hr as (g & Hg & Hr). exists g. split; [exact Hg|].
  rewrite (key_down_simple g inp Hs), qnz_b2q in Hr. apply negb_true_iff. exact Hr.
Qed.
Lemma compass_ready_check hist f r ins : cshape r ins -> compass_ready hist f r = true ->
  f_ops f = [] /\ forall inp, In inp ins -> kd (f_raw f) inp = true -> ~ In inp (pend_of hist ins).
Proof.
  intros Hsh Hr. unfold compass_ready in Hr. destruct (f_ops f); [|discriminate]. split; [reflexivity|].
  assert (G : forall inp, simple_input inp -> field_ready hist f (RRaw inp) = true -> kd (f_raw f) inp = true -> ~ In inp (pend_of hist ins)).
  { intros inp Hs Hf Hk Hin. destruct (field_ready_simple hist f inp Hs Hf Hk) as (g & Hg & Hgk).
    rewrite (pend_of_in hist ins inp Hin g Hg) in Hgk. discriminate. }
  destruct Hsh as [iN iE iS iW H1 H2 H3 H4|iP iN H1 H2]; rewrite !andb_true_iff in Hr.
  - destruct Hr as (((R1 & R2) & R3) & R4). intros inp [<-|[<-|[<-|[<-|[]]]]]; apply G; assumption.
  - destruct Hr as (R1 & R2). intros inp [<-|[<-|[]]]; apply G; assumption.
Qed.

Lemma steps_compass routes sc : nonconsumingb sc = true -> (forall E, In E (judged_entries routes sc) -> estatic sc E) ->
  forall steps w seen hist, reg_inv sc w -> insts_ok sc w ->
  (forall E, In E (judged_entries routes sc) -> WInv sc E (pend_of hist (en_ins E)) w) ->
  all_true (C19c.judge_steps routes sc seen hist steps (run_steps sc w steps)).
Proof.
  intros Hnc HS. induction steps as [|st steps IH]; intros w seen hist Hinv Hok HE; [intros ? ? []|].
  rewrite run_steps_cons. destruct (step_res_inv sc w st Hinv) as (w' & o & Hs & Hinv' & (_ & Hsn & Hp)). rewrite Hs.
  pose proof (step_res_insts sc (mk_inst_from_spec sc Hnc) w st w' o Hinv Hs Hok) as Hok'.
  destruct st as [op|f].
  - rewrite judge_steps_op. apply all_true_cons; [rewrite Hp; reflexivity|].
    cbn [step_res] in Hs. destruct (apply_op sc w op) as [oo|] eqn:Eo; [|discriminate]. injection Hs as <- _.
    apply (IH _ false [] Hinv' Hok'). intros E HinE. cbn [pend_of].
    exact (op_WInv sc E _ w op oo (HS E HinE) Hinv Eo (HE E HinE)).
  - rewrite judge_steps_frame. apply all_true_cons; [rewrite Hp; reflexivity|].
    cbn [step_res] in Hs. destruct (frame sc w f) as [fo|] eqn:Ef; [|discriminate]. injection Hs as <- <-. cbn [x_snaps] in *.
    apply all_true_app.
    + destruct seen; [|intros ? ? []]. intros k b Hin. apply in_cclauses in Hin.
      destruct Hin as (c & e & pa & r & sp & ex & ey & s & Hx & Hra & Ea & Er & Ec & Es & -> & ->). cbn [x_snaps] in Es.
      destruct (judged_entry_in routes sc c e pa r sp f _ Hx Hra Ea Ec) as (ins & HinE).
      set (E := (c, e, r, sp, ins)) in *. pose proof (HS E HinE) as S. pose proof (HE E HinE) as HW.
      destruct (compass_ready_check hist f r ins (es_shape sc E S) Er) as (Hops & Hchk).
      destruct (frame_WInv sc E _ w f fo S (entry_nonconsuming sc E Hnc S) Hinv Hok Hops Ef HW) as [_ Hval].
      apply snap_of_entry_snapv in Es. unfold snapv in Es.
      destruct (reg_get c e (w_reg (fo_world fo))) as [i'|] eqn:Eg; [|discriminate].
      destruct (Hval Hchk i' Eg) as (d' & Hl & Hv).
      pose proof (compass_expect_shape f r ins (es_shape sc E S)) as Hce.
      subst E. cbn [en_c en_e en_r en_sp en_ins fst snd] in *. rewrite Hl in Es. cbn [option_map] in Es.
      injection Es as <-. cbn [snap_of sn_value].
      rewrite Hce in Ec. injection Ec as Ec. rewrite Ec in Hv. cbn [fst snd] in Hv. exact Hv.
    + apply (IH _ true (next_hist hist f) Hinv' Hok'). intros E HinE. pose proof (HE E HinE) as HW. pose proof (HS E HinE) as S.
      unfold next_hist. destruct (f_ops f) as [|o1 ops] eqn:Eops.
      * cbn [pend_of]. exact (proj1 (frame_WInv sc E _ w f fo S (entry_nonconsuming sc E Hnc S) Hinv Hok Eops Ef HW)).
      * cbn [pend_of]. exact (frame_ops_WInv sc E _ w f fo S (entry_nonconsuming sc E Hnc S) Hinv Hok Ef HW).
Qed.

Lemma judge_steps_in2 routes sc : forall steps seen hist outs b,
  In (2, b) (C19c.judge_steps routes sc seen hist steps outs) -> exists h f o, In (2, b) (cclauses routes sc h f o).
Proof.
  induction steps as [|st steps IH]; intros seen hist outs b Hin; destruct outs as [|o outs].
  - destruct Hin.
  - destruct Hin as [[=]|[]].
  - destruct st; destruct Hin as [[=]|[]].
  - destruct st as [op|f].
    + rewrite judge_steps_op in Hin. destruct Hin as [[=]|Hin]. exact (IH _ _ _ _ Hin).
    + rewrite judge_steps_frame in Hin. destruct Hin as [[=]|Hin]. apply in_app_or in Hin. destruct Hin as [Hin|Hin]; [|exact (IH _ _ _ _ Hin)].
      destruct seen; [|destruct Hin]. exists hist, f, o. exact Hin.
Qed.

(* ================================================================================================ *)
(* 12. (S) and (T) for the routed judgement                                                         *)
(* ================================================================================================ *)
Theorem C19_app_judgement_sound : forall c, profile_C19 c -> C19c.ok (c, model_trace c) = 0.
Proof.
  intros [routes sc] Hprof. unfold profile_C19, profile_C19b in Hprof. apply andb_true_iff in Hprof. destruct Hprof as [Hd Hrest].
  cbn [model_trace]. apply ok_all_true. apply all_true_cons; [exact Hd|].
  destruct (judged_entries routes sc) as [|E0 es] eqn:Een.
  - intros k b Hin. destruct (judge_steps_basic routes sc (s_steps sc) world_init false [] (reg_inv_init sc) k b Hin) as [->|H]; [|exact H].
    exfalso. apply judge_steps_in2 in Hin. destruct Hin as (h & f & o & Hin). apply in_cclauses in Hin.
    destruct Hin as (c & e & pa & r & sp & ex & ey & s & Hx & Hra & Ea & _ & Ec & _).
    destruct (judged_entry_in routes sc c e pa r sp f _ Hx Hra Ea Ec) as (ins & HinE). rewrite Een in HinE. destruct HinE.
  - apply andb_true_iff in Hrest. destruct Hrest as [Hnc Hes]. rewrite forallb_forall in Hes. rewrite <- Een in Hes.
    assert (HS : forall E, In E (judged_entries routes sc) -> estatic sc E).
    { intros E HinE. exact (entry_static routes sc E Hd HinE (Hes E HinE)). }
    apply (steps_compass routes sc Hnc HS (s_steps sc) world_init false [] (reg_inv_init sc) (insts_ok_init sc)).
    intros E HinE i Hg. cbn in Hg. discriminate Hg.
Qed.

Theorem C19_app_judgement_transfer : forall c t, profile_C19 c -> C19c.agree (c, t) = true -> C19c.ok (c, t) = 0.
Proof. intros c t Hp Ha. exact (C19_judgement_respects_agree c t Ha (C19_app_judgement_sound c Hp)). Qed.
Theorem C19_app_judgement_transfer_full : forall routes sc t, profile_C19 (routed routes sc) -> agree_full (sc, t) = true ->
  C19c.ok (routed routes sc, t) = 0.
Proof. intros routes sc t Hp Ha. exact (C19_judgement_respects_agree_full routes sc t Ha (C19_app_judgement_sound _ Hp)). Qed.

(* ================================================================================================ *)
(* 13. the profile is satisfiable on a non-trivial case; every hypothesis is needed                  *)
(* ================================================================================================ *)
Definition ex_frame (keys : list Z) (pads : list pad) (ops : list op) : step :=
  SFrame (mkFrame (1#64) 1 false 0 (mkRaw keys [] (0%Q, 0%Q) (0%Q, 0%Q) pads []) ops).
Definition ex_bidir : iset := RBidirectional (RRaw (IKey 1 0)) (RRaw (IPadButton 3)).
Definition ex_routes : rt :=
  [(0, 0, [[fx_cardinal]]); (2, 1, [[ex_bidir]]); (3, 1, [[RSingle (mkBind (IKey 0 0) [(5, m_script [])] [])]])].
Definition ex_sc : scenario :=
  mkScenario [0; 2; 3] [0; 1]
    [((0, 0), fx_spec 32);
     ((2, 1), mkSpec None [mkAction 48 [] [(6, c_press (1#2))] (denote ex_bidir)]);
     ((3, 1), mkSpec None [mkAction 20 [] [] [mkBind (IKey 0 0) [(5, m_script [])] []]])]
    [SOp (OSpawn 0 [0]); SOp (OSpawn 1 [2; 3]); ex_frame [] [mkPad 0 [] []] []; ex_frame [0] [mkPad 0 [] []] [];
     ex_frame [0; 1] [mkPad 0 [3] []] []; ex_frame [1; 2; 3] [mkPad 0 [] []] []; SOp ORebuild; ex_frame [] [mkPad 0 [] []] [];
     ex_frame [3] [mkPad 0 [3] []] []; ex_frame [0; 3] [mkPad 0 [] []] []].
Definition ex_case : rcase := routed ex_routes ex_sc.

Example C19_app_judgement_sound_satisfiable :
  profile_C19 ex_case /\ C19c.ok (ex_case, model_trace ex_case) = 0 /\ length (judged_entries ex_routes ex_sc) = 2%nat /\
  existsb (fun o => existsb (fun ev => state_eqb (e_state ev) SFired && Z.eqb (e_action ev) 32) (x_main o)) (run ex_sc) = true.
Proof. repeat split; vm_compute; reflexivity. Qed.
Example C19_app_judgement_transfer_satisfiable :
  profile_C19 ex_case /\ C19c.agree (ex_case, model_trace ex_case) = true /\ agree_full (ex_sc, trace (run ex_sc)) = true.
Proof. repeat split; vm_compute; reflexivity. Qed.

Definition one_case (menu ents : list Z) (cfg : list (Z * Z * inst_spec)) (routes : rt) (steps : list step) : rcase :=
  routed routes (mkScenario menu ents cfg steps).
Definition refutes (c : rcase) : Prop := profile_C19b c = false /\ C19c.ok (c, model_trace c) = 2.
Definition idle : step := ex_frame [] [mkPad 0 [] []] [].

(* the cases of finding 1 are inside the profile now (no condition on the steps is left) *)
Example C19_held_cases_in_profile : profile_C19b fx_held_insert = true /\ profile_C19b fx_held_rebuild = true.
Proof. split; vm_compute; reflexivity. Qed.

(* the repair does not make the compass clause vacuous: number of compass clauses evaluated on the model's run *)
Definition judged_count (c : rcase) : nat := length (filter (fun kb => Z.eqb (fst kb) 2) (clause_list c)).
(* gen/C19.py `cardinal-keys': spawn, an idle frame, then every subset of the four keys *)
Definition fx_subsets : list (list Z) :=
  [[]; [3]; [2]; [2; 3]; [1]; [1; 3]; [1; 2]; [1; 2; 3]; [0]; [0; 3]; [0; 2]; [0; 2; 3]; [0; 1]; [0; 1; 3]; [0; 1; 2]; [0; 1; 2; 3]].
Definition fx_compass_case : rcase :=
  routed [(0, 0, [[fx_cardinal]])]
    (mkScenario [0] [0] [((0, 0), fx_spec 32)] (SOp (OSpawn 0 [0]) :: fx_frame [] :: map fx_frame fx_subsets)).
Example C19_repaired_still_judges :
  profile_C19b fx_compass_case = true /\ C19c.ok (fx_compass_case, model_trace fx_compass_case) = 0 /\
  judged_count fx_compass_case = 16%nat /\            (* every frame after the idle one *)
  judged_count fx_held_insert = 2%nat /\ judged_count fx_held_rebuild = 3%nat /\   (* the release and the second press (+ the press before the rebuild) *)
  judged_count ex_case = 10%nat.
Proof. repeat split; vm_compute; reflexivity. Qed.
(* ... and it still rejects a wrong compass: the same traces with every polled value negated (east reads (-1, 0),
   north (0, -1)) agree with nothing and are rejected by clause 2 *)
Definition neg_x (v : value) : value :=
  match v with V1 x => V1 (- x) | V2 x y => V2 (- x) (- y) | V3 x y z => V3 (- x) (- y) (- z) | VB b => VB b end.
Definition tamper (o : out) : out :=
  mkOut (x_pre o) (x_main o) (x_post o) (x_log o)
        (map (fun e => match e with
                       | sn c e a (Some s) => sn c e a (Some (mkSnap (sn_state s) (sn_events s) (neg_x (sn_value s)) (sn_elapsed s) (sn_fired s)))
                       | x => x end) (x_snaps o))
        (x_mirror o) (x_built o) (x_probe o) (x_update o) (x_panicked o).
Definition wrong_trace (c : rcase) : trace_t := match c with routed _ sc => trace (map tamper (run sc)) end.
Example C19_repaired_rejects_wrong_compass :
  C19c.ok (fx_compass_case, wrong_trace fx_compass_case) = 2 /\ C19c.ok (fx_held_insert, wrong_trace fx_held_insert) = 2 /\
  C19c.ok (ex_case, wrong_trace ex_case) = 2 /\ C19c.agree (fx_compass_case, wrong_trace fx_compass_case) = false.
Proof. repeat split; vm_compute; reflexivity. Qed.
(* a higher-priority context consumes the north key *)
Example C19_app_judgement_sound_needs_nonconsuming :
  refutes (one_case [0; 2] [0] [((0, 0), mkSpec None [mkAction 2 [] [] [mkBind (IKey 0 0) [] []]]); ((2, 0), fx_spec 32)]
                    [(2, 0, [[fx_cardinal]])] [SOp (OSpawn 0 [0; 2]); idle; ex_frame [0] [mkPad 0 [] []] []]).
Proof. split; vm_compute; reflexivity. Qed.
(* a shared context type: the instance polled for entity 1 was built from entity 0's configuration *)
Example C19_app_judgement_sound_needs_exclusive :
  refutes (one_case [1] [0; 1] [((1, 0), mkSpec None [mkAction 32 [] [] [mkBind (IKey 5 0) [] []]]); ((1, 1), fx_spec 32)]
                    [(1, 1, [[fx_cardinal]])] [SOp (OSpawn 0 [1]); SOp (OSpawn 1 [1]); idle; ex_frame [0] [mkPad 0 [] []] []]).
Proof. split; vm_compute; reflexivity. Qed.
(* the preset action is bound a second time with one more key (the profile asks for a single action per judged
   context, which is stronger than what this counterexample shows to be necessary: the action bound once) *)
Example C19_app_judgement_sound_needs_single_action :
  refutes (one_case [0] [0] [((0, 0), mkSpec None [mkAction 32 [] [] (denote fx_cardinal); mkAction 32 [] [] [mkBind (IKey 5 0) [] []]])]
                    [(0, 0, [[fx_cardinal]; [RRaw (IKey 5 0)]])] [SOp (OSpawn 0 [0]); idle; ex_frame [5] [mkPad 0 [] []] []]).
Proof. split; vm_compute; reflexivity. Qed.
(* an action-level modifier *)
Example C19_app_judgement_sound_needs_no_action_modifiers :
  refutes (one_case [0] [0] [((0, 0), mkSpec None [mkAction 32 [(7, m_negate true true true)] [] (denote fx_cardinal)])]
                    [(0, 0, [[fx_cardinal]])] [SOp (OSpawn 0 [0]); idle; ex_frame [0] [mkPad 0 [] []] []]).
Proof. split; vm_compute; reflexivity. Qed.
(* a Boolean action: north, east and west pressed accumulate to false, the clause expects true *)
Example C19_app_judgement_sound_needs_numeric_output :
  refutes (one_case [0] [0] [((0, 0), fx_spec 0)] [(0, 0, [[fx_cardinal]])] [SOp (OSpawn 0 [0]); idle; ex_frame [0; 1; 3] [mkPad 0 [] []] []]).
Proof. split; vm_compute; reflexivity. Qed.
(* gamepad buttons read from one gamepad by the context, from any gamepad by the clause *)
Definition fx_buttons : iset := RCardinal (RRaw (IPadButton 0)) (RRaw (IPadButton 1)) (RRaw (IPadButton 2)) (RRaw (IPadButton 3)).
Example C19_app_judgement_sound_needs_any_gamepad :
  refutes (one_case [0] [0] [((0, 0), mkSpec (Some 1) [mkAction 32 [] [] (denote fx_buttons)])] [(0, 0, [[fx_buttons]])]
                    [SOp (OSpawn 0 [0]); idle; ex_frame [] [mkPad 0 [0] []] []]).
Proof. split; vm_compute; reflexivity. Qed.
(* an operation issued inside a frame rebuilds the context after its evaluation: rejected by the original judgement,
   not judged (and inside the profile) now *)
Example C19_repaired_accepts_frame_ops :
  let c := one_case [0] [0] [((0, 0), fx_spec 32)] [(0, 0, [[fx_cardinal]])]
                    [SOp (OSpawn 0 [0]); idle; ex_frame [0] [mkPad 0 [] []] [ORebuild]; ex_frame [0] [mkPad 0 [] []] []; idle; ex_frame [0] [mkPad 0 [] []] []] in
  profile_C19b c = true /\ C19c.ok (c, model_trace c) = 0 /\ judged_count c = 2%nat.
Proof. repeat split; vm_compute; reflexivity. Qed.
Example C19_app_judgement_sound_needs_denotes :
  let c := one_case [0] [0] [((0, 0), mkSpec None [mkAction 32 [] [] [mkBind (IKey 1 0) [] []]])] [(0, 0, [[RRaw (IKey 0 0)]])] [] in
  profile_C19b c = false /\ C19c.ok (c, model_trace c) = 1.
Proof. split; vm_compute; reflexivity. Qed.

(* ================================================================================================ *)
(* 14. several routes of one logical binding sequence (Check/C19m.v)                                *)
(* ================================================================================================ *)
Definition model_m (c : rmcase) : mtrace_t := match c with rmulti cs => mtrace (map model_trace cs) end.
Definition scen (c : rcase) : scenario := match c with routed _ sc => sc end.

Lemma list_eqb_refl {A} (f : A -> A -> bool) l : (forall x, f x x = true) -> list_eqb f l l = true.
Proof. intros H. induction l as [|x l IH]; cbn [list_eqb]; [reflexivity|]. rewrite H, IH. reflexivity. Qed.
Lemma oq_eqb_refl o : oq_eqb o o = true.
Proof. destruct o; cbn [oq_eqb]; [apply JudgeC07P.qeqb_refl | reflexivity]. Qed.
Lemma event_eqb_refl e : event_eqb e e = true.
Proof.
  unfold event_eqb. rewrite !Z.eqb_refl, JudgeC07P.veqb_refl, JudgeC07P.state_eqb_refl, !oq_eqb_refl.
  destruct (e_kind e); reflexivity.
Qed.
Lemma seen_eqb_refl s : seen_eqb s s = true.
Proof. apply list_eqb_refl. intros [i st]. cbn [fst snd]. rewrite Z.eqb_refl, JudgeC07P.state_eqb_refl. reflexivity. Qed.
Lemma logitem_eqb_refl x : logitem_eqb x x = true.
Proof. destruct x; cbn [logitem_eqb]; rewrite Z.eqb_refl, ?JudgeC07P.veqb_refl, ?JudgeC07P.state_eqb_refl, seen_eqb_refl; reflexivity. Qed.
Lemma snap_entry_eqb_refl x : snap_entry_eqb x x = true.
Proof. destruct x as [c e a [s|]]; cbn [snap_entry_eqb osnap_eqb]; rewrite !Z.eqb_refl, ?snap_eqb_refl; reflexivity. Qed.
Lemma mirror_eqb_refl x : mirror_eqb x x = true.
Proof. destruct x; cbn [mirror_eqb]. rewrite !Z.eqb_refl, !eqb_reflx. reflexivity. Qed.
Lemma zz_eqb_refl x : zz_eqb x x = true.
Proof. unfold zz_eqb. rewrite !Z.eqb_refl. reflexivity. Qed.
Lemma out_diff_refl isf x : out_diff isf x x = 0.
Proof.
  unfold out_diff, out_diff_k. cbn [first_fail].
  rewrite !(list_eqb_refl event_eqb _ event_eqb_refl), (list_eqb_refl logitem_eqb _ logitem_eqb_refl),
    (list_eqb_refl snap_entry_eqb _ snap_entry_eqb_refl), (list_eqb_refl mirror_eqb _ mirror_eqb_refl),
    (list_eqb_refl zz_eqb _ zz_eqb_refl), !eqb_reflx.
  destruct isf; reflexivity.
Qed.
Lemma outs_same_refl : forall l steps, outs_same steps l l = true.
Proof. induction l as [|x l IH]; intros steps; cbn [outs_same]; [reflexivity|]. rewrite out_diff_refl, IH. reflexivity. Qed.

Lemma in_combine_map {A B} (f : A -> B) l x y : In (x, y) (combine l (map f l)) -> In x l /\ y = f x.
Proof.
  induction l as [|a l IH]; cbn [map combine]; [intros []|]. intros [[= <- <-]|H]; [split; [left|]; reflexivity|].
  destruct (IH H) as [H1 H2]. split; [right; exact H1 | exact H2].
Qed.

(* the multi-route profile: every route is in the profile of the routed judgement (Boolean) ... *)
Definition profile_C19mb (c : rmcase) : bool :=
  match c with rmulti cs => match cs with [] => false | _ => forallb profile_C19b cs end end.
(* ... and the routes are attached to one and the same scenario (as gen/C19.py writes them for every family except
   `rebind-in-place', where the two scenarios bind the same action once and twice) *)
Definition same_scenario (c : rmcase) : Prop :=
  match c with rmulti cs => forall c1 c2, In c1 cs -> In c2 cs -> scen c1 = scen c2 end.
Definition profile_C19m (c : rmcase) : Prop := profile_C19mb c = true /\ same_scenario c.

Theorem C19m_app_judgement_sound : forall c, profile_C19m c -> ok_m (c, model_m c) = 0.
Proof.
  intros [cs] [Hp Hs]. cbn [profile_C19mb same_scenario model_m] in *. destruct cs as [|[r0 sc0] rest]; [discriminate|].
  cbn [ok_m map model_trace]. apply all_true_first_fail. apply all_true_app.
  - intros k b Hin. apply in_concat in Hin. destruct Hin as (l & Hl & Hin). apply in_map_iff in Hl. destruct Hl as ([c t] & <- & Hct).
    change (trace (run sc0) :: map model_trace rest) with (map model_trace (routed r0 sc0 :: rest)) in Hct.
    apply in_combine_map in Hct. destruct Hct as [Hc ->]. cbv beta zeta in Hin. destruct Hin as [[= <- <-]|[]].
    rewrite forallb_forall in Hp. apply Z.eqb_eq. exact (C19_app_judgement_sound c (Hp c Hc)).
  - intros k b Hin. destruct Hin as [[= <- <-]|Hin]; [apply outs_same_refl|].
    apply in_map_iff in Hin. destruct Hin as (t & [= <- <-] & Ht).
    apply in_map_iff in Ht. destruct Ht as ([r sc] & <- & Hc). cbn [model_trace].
    pose proof (Hs (routed r sc) (routed r0 sc0) (or_intror Hc) (or_introl eq_refl)) as E. cbn [scen] in E. subst sc. apply outs_same_refl.
Qed.

(* transfer, per route: every trace that agrees with the model is accepted by the routed judgement *)
Theorem C19m_routes_transfer : forall cs ts, (forall c, In c cs -> profile_C19 c) -> agree_m (rmulti cs, mtrace ts) = true ->
  forall ct, In ct (combine cs ts) -> C19c.ok ct = 0.
Proof.
  intros cs ts Hp Ha [c t] Hct. cbn [agree_m] in Ha. apply andb_true_iff in Ha. destruct Ha as [_ Ha]. rewrite forallb_forall in Ha.
  apply (C19_app_judgement_transfer c t); [apply Hp; exact (in_combine_l _ _ _ _ Hct) | exact (Ha _ Hct)].
Qed.

(* FINDING 2: the full transfer statement for ok_m is false: agree_m compares every trace with the model WITHOUT the
   invocation log (strip_log), clause 3 of ok_m compares the traces with each other WITH it; two traces that agree with
   the model can therefore be rejected by clause 3 *)
Definition ex_m : rmcase := rmulti [ex_case; ex_case].
Definition ex_m_traces : mtrace_t :=
  mtrace [trace (run ex_sc); trace (map strip_log (run ex_sc))].
Example C19m_app_judgement_sound_satisfiable : profile_C19mb ex_m = true /\ ok_m (ex_m, model_m ex_m) = 0.
Proof. split; vm_compute; reflexivity. Qed.
Example C19m_app_judgement_transfer_refuted :
  profile_C19mb ex_m = true /\ agree_m (ex_m, ex_m_traces) = true /\ ok_m (ex_m, ex_m_traces) = 3.
Proof. repeat split; vm_compute; reflexivity. Qed.
(* the generator's `rebind-in-place' family compares two DIFFERENT scenarios (an action bound once / twice): outside
   same_scenario; the model's runs are nevertheless accepted on a concrete instance *)
Definition ex_rebind : rmcase :=
  let P := mkBind (IKey 0 0) [(1, m_script [])] [] in let P2 := mkBind (IKey 1 0) [(2, m_script [])] [] in
  let Qb := mkBind (IKey 0 0) [(3, m_script [])] [] in
  let steps := [SOp (OSpawn 0 [0]); idle; ex_frame [0] [mkPad 0 [] []] []; ex_frame [0; 1] [mkPad 0 [] []] []; ex_frame [1] [mkPad 0 [] []] []] in
  rmulti [routed [(0, 0, [[RSingle P; RSingle P2]; [RSingle Qb]])]
                 (mkScenario [0] [0] [((0, 0), mkSpec None [mkAction 6 [] [] [P; P2]; mkAction 8 [] [] [Qb]])] steps);
          routed [(0, 0, [[RSingle P]; [RSingle Qb]; [RSingle P2]])]
                 (mkScenario [0] [0] [((0, 0), mkSpec None [mkAction 6 [] [] [P]; mkAction 8 [] [] [Qb]; mkAction 6 [] [] [P2]])] steps)].
Example C19m_rebind_accepted : profile_C19mb ex_rebind = true /\ ok_m (ex_rebind, model_m ex_rebind) = 0.
Proof. split; vm_compute; reflexivity. Qed.

(* a case exactly as gen/C19.py prints it (tier quick, VERIF_SEED=2, case 46 of stage `routes', family
   presets-created-while-held): the original judgement rejected the model's own traces with clause 2; the repaired one
   accepts them, and the case is inside the profile *)
Definition generated_case_q2_46 : rmcase := (rmulti [(routed [(pair (pair 0 0) [[(RCardinal (RRaw (IKey 0 0)) (RRaw (IKey 1 0)) (RRaw (IKey 2 0)) (RRaw (IKey 3 0)))]])] (mkScenario [0] [0] [(pair (pair 0 0) (mkSpec None [(mkAction 32 [] [] [(mkBind (IKey 0 0) [(pair (-1) (m_swizzle YXZ))] []); (mkBind (IKey 1 0) [] []); (mkBind (IKey 2 0) [(pair (-1) (m_negate true true true)); (pair (-1) (m_swizzle YXZ))] []); (mkBind (IKey 3 0) [(pair (-1) (m_negate true true true))] [])])]))] [(SOp (OSpawn 0 [0])); (SFrame (mkFrame (Qmake 1 64) (Qmake 1 1) false 0 (mkRaw [] [] (pair (Qmake 0 1) (Qmake 0 1)) (pair (Qmake 0 1) (Qmake 0 1)) [(mkPad 0 [] [])] []) [])); (SFrame (mkFrame (Qmake 1 64) (Qmake 1 1) false 0 (mkRaw [1; 2] [] (pair (Qmake 0 1) (Qmake 0 1)) (pair (Qmake 0 1) (Qmake 0 1)) [(mkPad 0 [5; 6] [(pair 0 (Qmake 0 1)); (pair 1 (Qmake 0 1)); (pair 2 (Qmake (-1) 1)); (pair 3 (Qmake 1 2))])] []) [])); (SOp ORebuild); (SFrame (mkFrame (Qmake 1 64) (Qmake 1 1) false 0 (mkRaw [1; 2] [] (pair (Qmake 0 1) (Qmake 0 1)) (pair (Qmake 0 1) (Qmake 0 1)) [(mkPad 0 [5; 6] [(pair 0 (Qmake 0 1)); (pair 1 (Qmake 0 1)); (pair 2 (Qmake (-1) 1)); (pair 3 (Qmake 1 2))])] []) [])); (SFrame (mkFrame (Qmake 1 64) (Qmake 1 1) false 0 (mkRaw [1; 2] [] (pair (Qmake 0 1) (Qmake 0 1)) (pair (Qmake 0 1) (Qmake 0 1)) [(mkPad 0 [5; 6] [(pair 0 (Qmake 0 1)); (pair 1 (Qmake 0 1)); (pair 2 (Qmake (-1) 1)); (pair 3 (Qmake 1 2))])] []) [])); (SFrame (mkFrame (Qmake 1 64) (Qmake 1 1) false 0 (mkRaw [0; 1; 3] [] (pair (Qmake 0 1) (Qmake 0 1)) (pair (Qmake 0 1) (Qmake 0 1)) [(mkPad 0 [7] [(pair 0 (Qmake 1 4)); (pair 1 (Qmake 1 4)); (pair 2 (Qmake 1 2)); (pair 3 (Qmake 1 2))])] []) [])); (SFrame (mkFrame (Qmake 1 64) (Qmake 1 1) false 0 (mkRaw [0; 2; 3] [] (pair (Qmake 0 1) (Qmake 0 1)) (pair (Qmake 0 1) (Qmake 0 1)) [(mkPad 0 [4; 6] [(pair 0 (Qmake 1 2)); (pair 1 (Qmake 1 4)); (pair 2 (Qmake 1 2)); (pair 3 (Qmake 1 4))])] []) [])); (SFrame (mkFrame (Qmake 1 64) (Qmake 1 1) false 0 (mkRaw [0; 3] [] (pair (Qmake 0 1) (Qmake 0 1)) (pair (Qmake 0 1) (Qmake 0 1)) [(mkPad 0 [5; 6] [(pair 0 (Qmake (-1) 1)); (pair 1 (Qmake 1 2)); (pair 2 (Qmake 1 4)); (pair 3 (Qmake 0 1))])] []) [])); (SFrame (mkFrame (Qmake 1 64) (Qmake 1 1) false 0 (mkRaw [0; 3] [] (pair (Qmake 0 1) (Qmake 0 1)) (pair (Qmake 0 1) (Qmake 0 1)) [(mkPad 0 [4] [(pair 0 (Qmake (-1) 1)); (pair 1 (Qmake (-1) 1)); (pair 2 (Qmake 1 2)); (pair 3 (Qmake 1 2))])] []) [])); (SFrame (mkFrame (Qmake 1 64) (Qmake 1 1) false 0 (mkRaw [0; 2; 3] [] (pair (Qmake 0 1) (Qmake 0 1)) (pair (Qmake 0 1) (Qmake 0 1)) [(mkPad 0 [4; 5; 7] [(pair 0 (Qmake 0 1)); (pair 1 (Qmake (-1) 1)); (pair 2 (Qmake 1 4)); (pair 3 (Qmake 1 4))])] []) []))])); (routed [(pair (pair 0 0) [[(RSingle (mkBind (IKey 0 0) [(pair (-1) (m_swizzle YXZ))] [])); (RSingle (mkBind (IKey 1 0) [] [])); (RSingle (mkBind (IKey 2 0) [(pair (-1) (m_negate true true true)); (pair (-1) (m_swizzle YXZ))] [])); (RSingle (mkBind (IKey 3 0) [(pair (-1) (m_negate true true true))] []))]])] (mkScenario [0] [0] [(pair (pair 0 0) (mkSpec None [(mkAction 32 [] [] [(mkBind (IKey 0 0) [(pair (-1) (m_swizzle YXZ))] []); (mkBind (IKey 1 0) [] []); (mkBind (IKey 2 0) [(pair (-1) (m_negate true true true)); (pair (-1) (m_swizzle YXZ))] []); (mkBind (IKey 3 0) [(pair (-1) (m_negate true true true))] [])])]))] [(SOp (OSpawn 0 [0])); (SFrame (mkFrame (Qmake 1 64) (Qmake 1 1) false 0 (mkRaw [] [] (pair (Qmake 0 1) (Qmake 0 1)) (pair (Qmake 0 1) (Qmake 0 1)) [(mkPad 0 [] [])] []) [])); (SFrame (mkFrame (Qmake 1 64) (Qmake 1 1) false 0 (mkRaw [1; 2] [] (pair (Qmake 0 1) (Qmake 0 1)) (pair (Qmake 0 1) (Qmake 0 1)) [(mkPad 0 [5; 6] [(pair 0 (Qmake 0 1)); (pair 1 (Qmake 0 1)); (pair 2 (Qmake (-1) 1)); (pair 3 (Qmake 1 2))])] []) [])); (SOp ORebuild); (SFrame (mkFrame (Qmake 1 64) (Qmake 1 1) false 0 (mkRaw [1; 2] [] (pair (Qmake 0 1) (Qmake 0 1)) (pair (Qmake 0 1) (Qmake 0 1)) [(mkPad 0 [5; 6] [(pair 0 (Qmake 0 1)); (pair 1 (Qmake 0 1)); (pair 2 (Qmake (-1) 1)); (pair 3 (Qmake 1 2))])] []) [])); (SFrame (mkFrame (Qmake 1 64) (Qmake 1 1) false 0 (mkRaw [1; 2] [] (pair (Qmake 0 1) (Qmake 0 1)) (pair (Qmake 0 1) (Qmake 0 1)) [(mkPad 0 [5; 6] [(pair 0 (Qmake 0 1)); (pair 1 (Qmake 0 1)); (pair 2 (Qmake (-1) 1)); (pair 3 (Qmake 1 2))])] []) [])); (SFrame (mkFrame (Qmake 1 64) (Qmake 1 1) false 0 (mkRaw [0; 1; 3] [] (pair (Qmake 0 1) (Qmake 0 1)) (pair (Qmake 0 1) (Qmake 0 1)) [(mkPad 0 [7] [(pair 0 (Qmake 1 4)); (pair 1 (Qmake 1 4)); (pair 2 (Qmake 1 2)); (pair 3 (Qmake 1 2))])] []) [])); (SFrame (mkFrame (Qmake 1 64) (Qmake 1 1) false 0 (mkRaw [0; 2; 3] [] (pair (Qmake 0 1) (Qmake 0 1)) (pair (Qmake 0 1) (Qmake 0 1)) [(mkPad 0 [4; 6] [(pair 0 (Qmake 1 2)); (pair 1 (Qmake 1 4)); (pair 2 (Qmake 1 2)); (pair 3 (Qmake 1 4))])] []) [])); (SFrame (mkFrame (Qmake 1 64) (Qmake 1 1) false 0 (mkRaw [0; 3] [] (pair (Qmake 0 1) (Qmake 0 1)) (pair (Qmake 0 1) (Qmake 0 1)) [(mkPad 0 [5; 6] [(pair 0 (Qmake (-1) 1)); (pair 1 (Qmake 1 2)); (pair 2 (Qmake 1 4)); (pair 3 (Qmake 0 1))])] []) [])); (SFrame (mkFrame (Qmake 1 64) (Qmake 1 1) false 0 (mkRaw [0; 3] [] (pair (Qmake 0 1) (Qmake 0 1)) (pair (Qmake 0 1) (Qmake 0 1)) [(mkPad 0 [4] [(pair 0 (Qmake (-1) 1)); (pair 1 (Qmake (-1) 1)); (pair 2 (Qmake 1 2)); (pair 3 (Qmake 1 2))])] []) [])); (SFrame (mkFrame (Qmake 1 64) (Qmake 1 1) false 0 (mkRaw [0; 2; 3] [] (pair (Qmake 0 1) (Qmake 0 1)) (pair (Qmake 0 1) (Qmake 0 1)) [(mkPad 0 [4; 5; 7] [(pair 0 (Qmake 0 1)); (pair 1 (Qmake (-1) 1)); (pair 2 (Qmake 1 4)); (pair 3 (Qmake 1 4))])] []) []))]))]).
Example C19_generated_case_accepted :
  ok_m (generated_case_q2_46, model_m generated_case_q2_46) = 0 /\ agree_m (generated_case_q2_46, model_m generated_case_q2_46) = true /\
  profile_C19mb generated_case_q2_46 = true.
Proof. repeat split; vm_compute; reflexivity. Qed.

Print Assumptions C19_basic_sound.
Print Assumptions C19_judgement_respects_agree.
Print Assumptions C19_judgement_respects_agree_full.
Print Assumptions C19_app_judgement_sound.
Print Assumptions C19_app_judgement_transfer.
Print Assumptions C19_app_judgement_transfer_full.
Print Assumptions C19m_app_judgement_sound.
Print Assumptions C19m_routes_transfer.
Print Assumptions C19_repaired_accepts_held_insert.
Print Assumptions C19m_app_judgement_transfer_refuted.
