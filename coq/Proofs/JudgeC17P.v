(* Soundness of the executable judgement Check/C17c.v (input-disjoint contexts do not interfere; evaluation is
   deterministic) on the model's own runs, for the branch of the judgement in which the deleted contexts are
   context TYPES (the menu of the sub-configuration differs from the full menu):

     forall mc, profile_C17 mc -> C17c.ok (mc, mtrace (map (fun sc => trace (run sc)) scs)) = 0.

   Ladder: (1) reflexivity of the trace comparison, (2) a boolean criterion for "two raw inputs are read alike",
   (3) what the events / log of one instance mention, (4) one registry update of the full registry against the
   update of the registry without the deleted groups (generalises NonInterfP.delete_disjoint to interleaved groups and
   to two different raw inputs), (5) the registry operations commute with deleting groups, (6) the operations of
   Model/Frame.v on related worlds, (7) frames, steps, polled data, (8) profile and main theorem. *)
From Coq Require Import List ZArith QArith Bool Lia Sorted Permutation.
From BEI Require Import Model.Frame Spec.ReadSpec Proofs.ReaderP Proofs.ActionP Proofs.InstanceP Proofs.ConsumeP
  Proofs.RegistryP Proofs.NonInterfP Proofs.TrackFrameP Proofs.TrackOpP Proofs.ValueP Check.App Check.C17c.
From BEI Require Proofs.JudgeC03P Proofs.JudgeC07P Proofs.JudgeC12P.
Import ListNotations.
Open Scope Z_scope.

(* ================================================================================================ *)
(* 0. lists                                                                                         *)
(* ================================================================================================ *)
Lemma filter_all {A} (f : A -> bool) l : (forall x, In x l -> f x = true) -> filter f l = l.
Proof. induction l as [|x l IH]; intros H; cbn [filter]; [reflexivity|]. rewrite (H x (or_introl eq_refl)), IH; [reflexivity|]. intros y Hy. apply H. right. exact Hy. Qed.
Lemma filter_nothing {A} (f : A -> bool) l : (forall x, In x l -> f x = false) -> filter f l = [].
Proof. induction l as [|x l IH]; intros H; cbn [filter]; [reflexivity|]. rewrite (H x (or_introl eq_refl)). apply IH. intros y Hy. apply H. right. exact Hy. Qed.
Lemma filter_filter {A} (f g : A -> bool) l : filter f (filter g l) = filter g (filter f l).
Proof. induction l as [|x l IH]; cbn [filter]; [reflexivity|]. destruct (f x) eqn:F, (g x) eqn:G; cbn [filter]; rewrite ?F, ?G, IH; reflexivity. Qed.
Lemma filter_idem {A} (f : A -> bool) l : filter f (filter f l) = filter f l.
Proof. apply filter_all. intros x Hx. apply filter_In in Hx. tauto. Qed.
Lemma filter_ext_in' {A} (f g : A -> bool) l : (forall x, In x l -> f x = g x) -> filter f l = filter g l.
Proof. induction l as [|x l IH]; intros H; cbn [filter]; [reflexivity|]. rewrite (H x (or_introl eq_refl)), IH; [reflexivity|]. intros y Hy. apply H. right. exact Hy. Qed.
Lemma flat_map_ext_in' {A B} (f g : A -> list B) l : (forall x, In x l -> f x = g x) -> flat_map f l = flat_map g l.
Proof. induction l as [|x l IH]; intros H; cbn [flat_map]; [reflexivity|]. rewrite (H x (or_introl eq_refl)), IH; [reflexivity|]. intros y Hy. apply H. right. exact Hy. Qed.
(* a tagged concatenation filtered by tag *)
Lemma filter_flat_map_tag {B} (tag : B -> Z) (keep : Z -> bool) (F : Z -> list B) (l : list Z) :
  (forall c x, In x (F c) -> tag x = c) ->
  filter (fun x => keep (tag x)) (flat_map F l) = flat_map F (filter keep l).
Proof.
  intros H. induction l as [|c l IH]; cbn [flat_map filter]; [reflexivity|]. rewrite filter_app, IH.
  destruct (keep c) eqn:E; cbn [flat_map].
  - rewrite filter_all; [reflexivity|]. intros x Hx. rewrite (H c x Hx). exact E.
  - rewrite filter_nothing; [reflexivity|]. intros x Hx. rewrite (H c x Hx). exact E.
Qed.
Lemma memz_filter (keep : Z -> bool) c l : keep c = true -> memz c (filter keep l) = memz c l.
Proof.
  intros Hk. induction l as [|x l IH]; [reflexivity|]. cbn [filter]. destruct (keep x) eqn:E.
  - unfold memz in *. cbn [existsb]. rewrite IH. reflexivity.
  - unfold memz in *. cbn [existsb]. rewrite IH. destruct (Z.eqb c x) eqn:Ec; [|reflexivity].
    apply Z.eqb_eq in Ec. subst x. congruence.
Qed.

(* ================================================================================================ *)
(* 1. the comparison of two identical traces                                                        *)
(* ================================================================================================ *)
Lemma list_eqb_refl {A} (f : A -> A -> bool) l : (forall x, f x x = true) -> list_eqb f l l = true.
Proof. intros H. induction l as [|x l IH]; cbn [list_eqb]; [reflexivity|]. rewrite H, IH. reflexivity. Qed.
Lemma oq_eqb_refl a : oq_eqb a a = true.
Proof. destruct a; cbn [oq_eqb]; [apply JudgeC07P.qeqb_refl | reflexivity]. Qed.
Lemma event_eqb_refl e : event_eqb e e = true.
Proof.
  unfold event_eqb. rewrite !Z.eqb_refl, JudgeC07P.veqb_refl, JudgeC07P.state_eqb_refl, !oq_eqb_refl.
  destruct (e_kind e); reflexivity.
Qed.
Lemma seen_eqb_refl s : seen_eqb s s = true.
Proof. unfold seen_eqb. apply list_eqb_refl. intros x. rewrite Z.eqb_refl, JudgeC07P.state_eqb_refl. reflexivity. Qed.
Lemma logitem_eqb_refl l : logitem_eqb l l = true.
Proof. destruct l; cbn [logitem_eqb]; rewrite Z.eqb_refl, ?JudgeC07P.veqb_refl, ?JudgeC07P.state_eqb_refl, seen_eqb_refl; reflexivity. Qed.
Lemma snap_entry_eqb_refl s : snap_entry_eqb s s = true.
Proof. destruct s as [c e a [s|]]; cbn [snap_entry_eqb osnap_eqb]; rewrite !Z.eqb_refl, ?JudgeC07P.snap_eqb_refl; reflexivity. Qed.
Lemma mirror_eqb_refl m : mirror_eqb m m = true.
Proof. destruct m as [c e g h]; cbn [mirror_eqb]. rewrite !Z.eqb_refl, !Bool.eqb_reflx. reflexivity. Qed.
Lemma zz_eqb_refl p : zz_eqb p p = true.
Proof. unfold zz_eqb. rewrite !Z.eqb_refl. reflexivity. Qed.

Lemma out_diff_k_refl key isf o : out_diff_k key isf o o = 0.
Proof.
  unfold out_diff_k. apply JudgeC12P.all_true_first_fail. intros k b Hin. cbn [In] in Hin.
  repeat (destruct Hin as [Hin|Hin]; [injection Hin as _ <-|]); try contradiction;
    try (apply list_eqb_refl; first [exact event_eqb_refl | exact logitem_eqb_refl | exact snap_entry_eqb_refl | exact mirror_eqb_refl | exact zz_eqb_refl]);
    try apply Bool.eqb_reflx.
  destruct isf; apply list_eqb_refl; exact event_eqb_refl.
Qed.
Lemma outs_eq_refl key base : forall l steps, outs_eq key base steps l l = 0.
Proof. induction l as [|x l IH]; intros steps; cbn [outs_eq]; [reflexivity|]. rewrite out_diff_k_refl. cbn [Z.eqb]. apply IH. Qed.

(* ================================================================================================ *)
(* 2. two raw inputs that one read cannot tell apart: a boolean criterion                           *)
(* ================================================================================================ *)
Definition Q_eq_dec (a b : Q) : {a = b} + {a <> b}.
Proof. decide equality; [apply Pos.eq_dec | apply Z.eq_dec]. Defined.
Definition value_eq_dec (a b : value) : {a = b} + {a <> b}.
Proof. decide equality; first [apply Q_eq_dec | apply Bool.bool_dec]. Defined.
Definition QQ_eq_dec (a b : Q * Q) : {a = b} + {a <> b}.
Proof. decide equality; apply Q_eq_dec. Defined.

Definition mods_agreeb (m : Z) (k1 k2 : list Z) : bool :=
  forallb (fun b => if Z.testbit m b then Bool.eqb (memz (100 + 2 * b) k1 || memz (101 + 2 * b) k1) (memz (100 + 2 * b) k2 || memz (101 + 2 * b) k2)
                    else true) mod_bits.
Lemma mods_agreeb_sound m k1 k2 : mods_agreeb m k1 k2 = true -> mods_agree m k1 k2.
Proof.
  unfold mods_agreeb. rewrite forallb_forall. intros H b Hb Ht. specialize (H b Hb). rewrite Ht in H. apply Bool.eqb_prop. exact H.
Qed.

(* the read [j] of an instance tied to gamepad setting [d] *)
Definition same_forb (d : device) (j : input) (r1 r2 : raw) : bool :=
  match j with
  | IKey k m => Bool.eqb (memz k (r_keys r1)) (memz k (r_keys r2)) && mods_agreeb m (r_keys r1) (r_keys r2)
  | IMouseButton b m => Bool.eqb (memz b (r_mbuttons r1)) (memz b (r_mbuttons r2)) && mods_agreeb m (r_keys r1) (r_keys r2)
  | IMotion m => (if QQ_eq_dec (r_motion r1) (r_motion r2) then true else false) && mods_agreeb m (r_keys r1) (r_keys r2)
  | IWheel m => (if QQ_eq_dec (r_wheel r1) (r_wheel r2) then true else false) && mods_agreeb m (r_keys r1) (r_keys r2)
  | IPadButton _ | IPadAxis _ =>
      (* what the gamepads report to this device setting, nothing consumed *)
      if value_eq_dec (reader_value r1 consumed_reset d j) (reader_value r2 consumed_reset d j) then true else false
  end.

Lemma same_forb_sound d j r1 r2 : same_forb d j r1 r2 = true -> forall c, reader_value r1 c d j = reader_value r2 c d j.
Proof.
  intros H c. destruct j as [k m|b m|m|m|b|a]; cbn [same_forb] in H.
  - apply andb_true_iff in H. destruct H as [H1 H2]. apply reader_value_same_for. cbn [raw_same_for].
    split; [apply Bool.eqb_prop; exact H1 | apply mods_agreeb_sound; exact H2].
  - apply andb_true_iff in H. destruct H as [H1 H2]. apply reader_value_same_for. cbn [raw_same_for].
    split; [apply Bool.eqb_prop; exact H1 | apply mods_agreeb_sound; exact H2].
  - apply andb_true_iff in H. destruct H as [H1 H2]. apply reader_value_same_for. cbn [raw_same_for].
    split; [destruct (QQ_eq_dec (r_motion r1) (r_motion r2)); [assumption|discriminate] | apply mods_agreeb_sound; exact H2].
  - apply andb_true_iff in H. destruct H as [H1 H2]. apply reader_value_same_for. cbn [raw_same_for].
    split; [destruct (QQ_eq_dec (r_wheel r1) (r_wheel r2)); [assumption|discriminate] | apply mods_agreeb_sound; exact H2].
  - destruct (value_eq_dec _ _) as [E|]; [|discriminate]. cbn [reader_value consumed_reset c_pbuttons memdz existsb] in E.
    cbn [reader_value]. destruct (memdz d b (c_pbuttons c)); [reflexivity | exact E].
  - destruct (value_eq_dec _ _) as [E|]; [|discriminate]. cbn [reader_value consumed_reset c_paxes memdz existsb] in E.
    cbn [reader_value]. destruct (memdz d a (c_paxes c)); [reflexivity | exact E].
Qed.

(* ================================================================================================ *)
(* 3. what the events and the log of one instance mention; what an update keeps                     *)
(* ================================================================================================ *)
Definition iacts (i : inst) : list Z := map ab_id (in_binds i).
Definition iids (i : inst) : list Z := JudgeC03P.all_ids (in_binds i).
Definition ishape (i : inst) := (reads_of_inst i, iacts i, iids i).

Lemma emit_action adim a d rs evs : emit adim a d rs = Some evs -> Forall (fun x => e_action x = a) evs.
Proof.
  assert (G : forall ks, Forall (fun x => e_action x = a) (flat_map (fun k => map (mk_event a d k) rs) ks)).
  { intros ks. apply Forall_forall. intros x Hx. apply in_flat_map in Hx. destruct Hx as (k' & _ & Hx).
    apply in_map_iff in Hx. destruct Hx as (e & <- & _). apply TrackFrameP.mk_event_action. }
  unfold emit. destruct (iter_names (d_events d)) as [|k ks]; [intros [= <-]; constructor|].
  destruct (dim_eqb (vdim (d_value d)) adim); [|discriminate]. intros [= <-]. apply (G (k :: ks)).
Qed.

Lemma action_update_facts m tm r c dev recips ab :
  let o := action_update m tm r c dev recips ab in
  (forall evs, o_events o = Some evs -> Forall (fun x => e_action x = ab_id ab) evs) /\
  incl (map log_id (o_log o)) (JudgeC03P.ab_ids ab) /\
  JudgeC03P.sig (o_bind o) = JudgeC03P.sig ab.
Proof.
  cbv zeta. split; [|split].
  - destruct (action_update_result m tm r c dev recips ab) as (s & v & bl & _ & _ & _ & He). rewrite He.
    intros evs [= <-]. destruct bl; [constructor|]. apply Forall_forall. intros x Hx. apply in_flat_map in Hx.
    destruct Hx as (k & _ & Hx). apply in_map_iff in Hx. destruct Hx as (e & <- & _). apply TrackFrameP.mk_event_action.
  - rewrite action_update_ids. apply (JudgeC03P.action_ids_thin r c dev ab).
  - apply (JudgeC03P.action_update_shape m tm r c dev recips ab).
Qed.

Lemma binds_update_facts tm r dev recips bs : forall m c,
  let '(bs', m', c', ev, lg) := binds_update m tm r c dev recips bs in
  map JudgeC03P.sig bs' = map JudgeC03P.sig bs /\
  (forall evs, ev = Some evs -> Forall (fun x => In (e_action x) (map ab_id bs)) evs) /\
  incl (map log_id lg) (JudgeC03P.all_ids bs).
Proof.
  induction bs as [|b bs IH]; intros m c; cbn [binds_update].
  - split; [reflexivity|]. split; [intros evs [= <-]; constructor | intros x []].
  - cbv zeta. destruct (action_update_facts m tm r c dev recips b) as (F1 & F2 & F3).
    set (o := action_update m tm r c dev recips b) in *. specialize (IH (o_actions o) (o_consumed o)).
    destruct (binds_update (o_actions o) tm r (o_consumed o) dev recips bs) as [[[[bs' m'] c'] ev] lg].
    destruct IH as (I1 & I2 & I3). split; [cbn [map]; rewrite F3, I1; reflexivity|]. split.
    + intros evs He. destruct (o_events o) as [e1|]; [|discriminate]. destruct ev as [e2|]; [|discriminate].
      injection He as <-. apply Forall_app. split.
      * eapply Forall_impl; [|exact (F1 e1 eq_refl)]. intros x Hx. left. symmetry. exact Hx.
      * eapply Forall_impl; [|exact (I2 e2 eq_refl)]. intros x Hx. right. exact Hx.
    + rewrite map_app. unfold JudgeC03P.all_ids. cbn [map concat]. apply incl_app_app; assumption.
Qed.

Lemma sig_ab_id b : ab_id b = fst (fst (fst (JudgeC03P.sig b))).
Proof. reflexivity. Qed.
Lemma map_sig_ab_id bs bs' : map JudgeC03P.sig bs' = map JudgeC03P.sig bs -> map ab_id bs' = map ab_id bs.
Proof.
  intros H. rewrite (map_ext _ _ sig_ab_id bs'), (map_ext _ _ sig_ab_id bs), <- !(map_map JudgeC03P.sig (fun s => fst (fst (fst s)))), H.
  reflexivity.
Qed.

Lemma inst_update_facts tm r c recips i :
  let o := inst_update tm r c recips i in
  ishape (io_inst o) = ishape i /\
  (forall evs, io_events o = Some evs -> Forall (fun x => In (e_action x) (iacts i)) evs) /\
  incl (map log_id (io_log o)) (iids i).
Proof.
  cbv zeta. pose proof (inst_update_reads tm r c recips i) as Hr. unfold ishape. rewrite Hr. clear Hr.
  unfold inst_update. pose proof (binds_update_facts tm r (in_pad i) recips (in_binds i) (in_actions i) c) as H.
  destruct (binds_update (in_actions i) tm r c (in_pad i) recips (in_binds i)) as [[[[bs m] c'] ev] lg].
  destruct H as (H1 & H2 & H3). cbn [io_inst io_events io_log]. unfold iacts, iids. cbn [in_binds].
  rewrite (map_sig_ab_id _ _ H1), (JudgeC03P.all_ids_sig _ _ H1). repeat split; assumption.
Qed.

Lemma trigger_removed_acts tm recips i evs :
  trigger_removed tm recips i = Some evs -> Forall (fun x => In (e_action x) (iacts i)) evs.
Proof.
  unfold trigger_removed, iacts.
  assert (G : forall bs acc evs, Forall (fun x => In (e_action x) (map ab_id (in_binds i))) acc -> incl bs (in_binds i) ->
            fold_left (fun acc b =>
              match acc, lookup (ab_id b) (in_actions i) with
              | Some evs, Some d =>
                  match emit (aid_dim (ab_id b)) (ab_id b) (data_update (vdelta tm) d SNone (vzero (aid_dim (ab_id b)))) recips with
                  | Some e => Some (evs ++ e) | None => None end
              | _, _ => None
              end) bs (Some acc) = Some evs -> Forall (fun x => In (e_action x) (map ab_id (in_binds i))) evs).
  { induction bs as [|b bs IH]; intros acc evs0 Hacc Hi; cbn [fold_left]; [intros [= <-]; exact Hacc|].
    destruct (lookup (ab_id b) (in_actions i)) as [d|].
    - destruct (emit _ _ _ recips) as [e|] eqn:Ee.
      + apply IH; [|intros y Hy; apply Hi; right; exact Hy]. apply Forall_app. split; [exact Hacc|].
        eapply Forall_impl; [|exact (emit_action _ _ _ _ _ Ee)]. intros x Hx. rewrite Hx. apply in_map. apply Hi. left. reflexivity.
      + intros H. exfalso. clear -H. induction bs as [|b' bs IHb]; cbn [fold_left] in H; [discriminate | exact (IHb H)].
    - intros H. exfalso. clear -H. induction bs as [|b' bs IHb]; cbn [fold_left] in H; [discriminate | exact (IHb H)]. }
  apply G; [constructor | apply incl_refl].
Qed.

(* groups *)
Definition gacts (g : group) : list Z := flat_map iacts (g_insts g).
Definition gids (g : group) : list Z := flat_map iids (g_insts g).
Definition shape_kept (g g' : group) : Prop :=
  g_ctx g' = g_ctx g /\ Forall2 (fun i i' => ishape i' = ishape i) (g_insts g) (g_insts g').

Lemma excl_update_facts tm r insts : forall c,
  let '(insts', c', ev, lg) := excl_update tm r c insts in
  Forall2 (fun i i' => ishape i' = ishape i) (map snd insts) (map snd insts') /\
  (forall evs, ev = Some evs -> Forall (fun x => In (e_action x) (flat_map iacts (map snd insts))) evs) /\
  incl (map log_id lg) (flat_map iids (map snd insts)).
Proof.
  induction insts as [|[e i] insts IH]; intros c; cbn [excl_update].
  - split; [constructor|]. split; [intros evs [= <-]; constructor | intros x []].
  - cbv zeta. destruct (inst_update_facts tm r c [e] i) as (F1 & F2 & F3).
    set (o := inst_update tm r c [e] i) in *. specialize (IH (io_consumed o)).
    destruct (excl_update tm r (io_consumed o) insts) as [[[rest' c'] ev] lg]. destruct IH as (I1 & I2 & I3).
    cbn [map snd flat_map]. split; [constructor; assumption|]. split.
    + intros evs He. destruct (io_events o) as [e1|]; [|discriminate]. destruct ev as [e2|]; [|discriminate].
      cbn [cat_ev] in He. injection He as <-. apply Forall_app. split.
      * eapply Forall_impl; [|exact (F2 e1 eq_refl)]. intros x Hx. apply in_or_app. left. exact Hx.
      * eapply Forall_impl; [|exact (I2 e2 eq_refl)]. intros x Hx. apply in_or_app. right. exact Hx.
    + rewrite map_app. apply incl_app_app; assumption.
Qed.

(* the update of one group *)
Lemma group_update_facts tm r c g :
  let o := reg_update tm r c [g] in
  (exists g', ro_reg o = [g'] /\ shape_kept g g') /\
  (forall evs, ro_events o = Some evs -> Forall (fun x => In (e_action x) (gacts g)) evs) /\
  incl (map log_id (ro_log o)) (gids g).
Proof.
  destruct g as [cx p insts|cx p ents i]; cbn [reg_update]; cbv zeta.
  - pose proof (excl_update_facts tm r insts c) as H. destruct (excl_update tm r c insts) as [[[insts' c'] ev] lg].
    destruct H as (H1 & H2 & H3). cbn [ro_reg ro_events ro_log]. unfold gacts, gids. cbn [g_insts]. split; [|split].
    + eexists. split; [reflexivity|]. split; [reflexivity | exact H1].
    + intros evs He. destruct ev as [e1|]; [|discriminate]. cbn [cat_ev] in He. injection He as <-. rewrite app_nil_r. apply H2. reflexivity.
    + rewrite app_nil_r. exact H3.
  - destruct (inst_update_facts tm r c ents i) as (F1 & F2 & F3). cbn [ro_reg ro_events ro_log]. unfold gacts, gids. cbn [g_insts flat_map].
    rewrite !app_nil_r. split; [|split].
    + eexists. split; [reflexivity|]. split; [reflexivity | constructor; [exact F1 | constructor]].
    + intros evs He. destruct (io_events (inst_update tm r c ents i)) as [e1|]; [|discriminate]. cbn [cat_ev] in He. injection He as <-.
      rewrite app_nil_r. apply F2. reflexivity.
    + exact F3.
Qed.

(* ================================================================================================ *)
(* 4. one registry update: the full registry against the registry without the deleted groups       *)
(* ================================================================================================ *)
Lemma flat_map_map' {A B C} (f : B -> list C) (g : A -> B) l : flat_map f (map g l) = flat_map (fun x => f (g x)) l.
Proof. induction l as [|x l IH]; cbn [map flat_map]; [reflexivity | rewrite IH; reflexivity]. Qed.
Lemma reads_of_group_insts g : reads_of_group g = flat_map reads_of_inst (g_insts g).
Proof. destruct g as [c p insts|c p ents i]; cbn [reads_of_group g_insts flat_map]; [rewrite flat_map_map'; reflexivity | rewrite app_nil_r; reflexivity]. Qed.
Lemma reads_of_reg_one g : reads_of_reg [g] = reads_of_group g.
Proof. unfold reads_of_reg. cbn [flat_map]. apply app_nil_r. Qed.
Lemma cons_app1 {A} (x : A) l : x :: l = [x] ++ l.
Proof. reflexivity. Qed.

Section RegSim.
Variable keep : Z -> bool.
Variable J : list read.
Variables A I : list Z.

Definition kg (g : group) : bool := keep (g_ctx g).
Definition inA (e : event) : bool := memz (e_action e) A.
Definition inI (l : logitem) : bool := memz (log_id l) I.

(* an instance of a deleted context: nothing it reads, emits or logs touches what is kept *)
Definition Dr (i : inst) : Prop :=
  disjoint_reads (reads_of_inst i) J /\ (forall a, In a (iacts i) -> ~ In a A) /\ (forall x, In x (iids i) -> ~ In x I).
Definition Pi (c : ctx) (i : inst) : Prop := if keep c then incl (reads_of_inst i) J else Dr i.
Definition Pg (g : group) : Prop := Forall (Pi (g_ctx g)) (g_insts g).

Lemma Pi_shape c i i' : ishape i' = ishape i -> Pi c i -> Pi c i'.
Proof. unfold ishape, Pi, Dr. intros [= H1 H2 H3]. rewrite H1, H2, H3. auto. Qed.
Lemma Pg_shape g g' : shape_kept g g' -> Pg g -> Pg g'.
Proof.
  intros [Hc Hi]. unfold Pg. rewrite Hc. generalize (g_ctx g). intros c. induction Hi as [|i i' l l' Hs _ IH]; intros H; [constructor|].
  inversion H; subst. constructor; [eapply Pi_shape; eassumption | apply IH; assumption].
Qed.

Lemma Pg_kept_reads g : kg g = true -> Pg g -> incl (reads_of_group g) J.
Proof.
  unfold kg, Pg, Pi. intros Hk H. rewrite Hk in H. rewrite reads_of_group_insts. intros x Hx. apply in_flat_map in Hx.
  destruct Hx as (i & Hi & Hx). rewrite Forall_forall in H. exact (H i Hi x Hx).
Qed.
Lemma Pg_dropped g : kg g = false -> Pg g ->
  disjoint_reads (reads_of_group g) J /\ (forall a, In a (gacts g) -> ~ In a A) /\ (forall x, In x (gids g) -> ~ In x I).
Proof.
  unfold kg, Pg, Pi. intros Hk H. rewrite Hk in H. rewrite Forall_forall in H. split; [|split].
  - rewrite reads_of_group_insts. intros di i dj j Hi Hj. apply in_flat_map in Hi. destruct Hi as (x & Hx & Hi).
    destruct (H x Hx) as (D1 & _). exact (D1 di i dj j Hi Hj).
  - intros a Ha. apply in_flat_map in Ha. destruct Ha as (x & Hx & Ha). destruct (H x Hx) as (_ & D2 & _). exact (D2 a Ha).
  - intros a Ha. apply in_flat_map in Ha. destruct Ha as (x & Hx & Ha). destruct (H x Hx) as (_ & _ & D3). exact (D3 a Ha).
Qed.

Lemma memz_false_notin x l : ~ In x l -> memz x l = false.
Proof. intros H. apply RegistryP.memz_false. exact H. Qed.

Lemma reg_update_sim tm r1 r2 : forall gs c1 c2,
  Forall Pg gs -> sees r1 r2 J c1 c2 -> sees r1 r2 J consumed_reset consumed_reset ->
  let o1 := reg_update tm r1 c1 gs in
  let o2 := reg_update tm r2 c2 (filter kg gs) in
  ro_reg o2 = filter kg (ro_reg o1) /\ Forall Pg (ro_reg o1) /\
  (forall ev1 ev2, ro_events o1 = Some ev1 -> ro_events o2 = Some ev2 -> filter inA ev2 = filter inA ev1) /\
  filter inI (ro_log o2) = filter inI (ro_log o1) /\
  sees r1 r2 J (ro_consumed o1) (ro_consumed o2).
Proof.
  induction gs as [|g gs IH]; intros c1 c2 HP Hs Hr; cbv zeta.
  - cbn [filter reg_update ro_reg ro_events ro_log ro_consumed]. split; [reflexivity|]. split; [constructor|].
    split; [intros ev1 ev2 [= <-] [= <-]; reflexivity|]. split; [reflexivity | exact Hs].
  - inversion HP as [|? ? Hg HP']; subst.
    destruct (group_update_facts tm r1 c1 g) as ((g' & Eg' & Hsh) & Fev & Flg).
    rewrite (cons_app1 g gs), (reg_update_app tm r1 [g] gs c1). cbv zeta. cbn [ro_reg ro_events ro_log ro_consumed].
    pose proof (Pg_shape g g' Hsh Hg) as Hg'. destruct Hsh as [Hctx _].
    cbn [app filter]. destruct (kg g) eqn:Ek.
    + (* kept: evaluated alike on both sides *)
      destruct (reg_update_sees tm r1 r2 J [g] c1 c2) as (l & reg & ev & lg & Hl & E1 & E2);
        [rewrite reads_of_reg_one; apply Pg_kept_reads; assumption | exact Hs | exact Hr |].
      rewrite (cons_app1 g (filter kg gs)), (reg_update_app tm r2 [g] (filter kg gs) c2). cbv zeta. rewrite E1, E2 in *.
      cbn [ro_reg ro_events ro_log ro_consumed] in *. subst reg.
      destruct (IH (consume_list l c1) (consume_list l c2) HP' (sees_consume_list _ _ _ l _ _ Hs) Hr) as (I1 & I2 & I3 & I4 & I5).
      split; [cbn [app filter]; unfold kg at 2; rewrite Hctx; fold (kg g); rewrite Ek, I1; reflexivity|].
      split; [constructor; assumption|]. split; [|split; [rewrite !filter_app, I4; reflexivity | exact I5]].
      intros ev1 ev2 H1 H2. destruct ev as [e0|]; [|discriminate].
      destruct (ro_events (reg_update tm r1 (consume_list l c1) gs)) as [e1|]; [|discriminate].
      destruct (ro_events (reg_update tm r2 (consume_list l c2) (filter kg gs))) as [e2|]; [|discriminate].
      cbn [cat_ev] in H1, H2. injection H1 as <-. injection H2 as <-. rewrite !filter_app, (I3 e1 e2 eq_refl eq_refl). reflexivity.
    + (* deleted: invisible to what is kept *)
      destruct (Pg_dropped g Ek Hg) as (D1 & D2 & D3).
      assert (Hc : sees r1 r2 J (ro_consumed (reg_update tm r1 c1 [g])) c2).
      { apply sees_trans with (r2 := r1) (c2 := c1); [|exact Hs]. apply reg_update_frame. rewrite reads_of_reg_one. exact D1. }
      destruct (IH (ro_consumed (reg_update tm r1 c1 [g])) c2 HP' Hc Hr) as (I1 & I2 & I3 & I4 & I5).
      rewrite Eg'. split; [cbn [app filter]; unfold kg at 2; rewrite Hctx; fold (kg g); rewrite Ek; exact I1|].
      split; [constructor; assumption|]. split; [|split; [|exact I5]].
      * intros ev1 ev2 H1 H2. destruct (ro_events (reg_update tm r1 c1 [g])) as [e0|] eqn:E0; [|discriminate].
        destruct (ro_events (reg_update tm r1 (ro_consumed (reg_update tm r1 c1 [g])) gs)) as [e1|]; [|discriminate].
        cbn [cat_ev] in H1. injection H1 as <-. rewrite filter_app, (I3 e1 ev2 eq_refl H2).
        rewrite (filter_nothing inA e0); [reflexivity|]. intros x Hx. pose proof (Fev e0 eq_refl) as F. rewrite Forall_forall in F.
        apply memz_false_notin. apply D2. apply F. exact Hx.
      * rewrite filter_app, I4. rewrite (filter_nothing inI (ro_log (reg_update tm r1 c1 [g]))); [reflexivity|].
        intros x Hx. apply memz_false_notin. apply D3. apply Flg. apply in_map. exact Hx.
Qed.
End RegSim.

(* ================================================================================================ *)
(* 5. the registry operations, one group at a time                                                  *)
(* ================================================================================================ *)
(* ContextInstances::remove inside the group of the type *)
Definition group_remove (tm : time) (e : entity) (g : group) : option (option group * option (list event)) :=
  match g with
  | GExcl c' p insts =>
      match position (fun ei : Z * inst => Z.eqb (fst ei) e) insts with
      | None => None
      | Some k => match nth_error insts k with
                  | Some (_, i) => Some (match swap_remove k insts with [] => None | l => Some (GExcl c' p l) end, trigger_removed tm [e] i)
                  | None => None
                  end
      end
  | GShared c' p ents i =>
      match position (Z.eqb e) ents with
      | None => None
      | Some k => Some (match swap_remove k ents with [] => None | l => Some (GShared c' p l i) end, trigger_removed tm [e] i)
      end
  end.
Definition opt_list {A} (o : option A) : list A := match o with Some x => [x] | None => [] end.

Lemma reg_remove_mid tm c e l1 g l2 : ~ In c (map g_ctx l1) -> g_ctx g = c ->
  reg_remove tm c e (l1 ++ g :: l2) = option_map (fun p => (l1 ++ opt_list (fst p) ++ l2, snd p)) (group_remove tm e g).
Proof.
  intros Hn Hc. unfold reg_remove. rewrite (index_of_found c l1 g l2 Hn Hc), nth_error_mid.
  destruct g as [c0 p insts|c0 p ents i]; cbn [group_remove].
  - unfold entity in *. destruct (position (fun ei : Z * inst => Z.eqb (fst ei) e) insts) as [k|]; [|reflexivity].
    destruct (nth_error insts k) as [[x i]|]; [|reflexivity].
    cbn [option_map fst snd]. destruct (swap_remove k insts) as [|q rest]; cbn [opt_list app].
    + rewrite remove_at_app by reflexivity. reflexivity.
    + rewrite update_at_app by reflexivity. reflexivity.
  - unfold entity in *. destruct (position (Z.eqb e) ents) as [k|]; [|reflexivity].
    cbn [option_map fst snd]. destruct (swap_remove k ents) as [|q rest]; cbn [opt_list app].
    + rewrite remove_at_app by reflexivity. reflexivity.
    + rewrite update_at_app by reflexivity. reflexivity.
Qed.
Lemma reg_remove_none tm c e r : index_of c r = None -> reg_remove tm c e r = None.
Proof. intros H. unfold reg_remove. rewrite H. reflexivity. Qed.

Lemma group_remove_facts tm e g og oevs : group_remove tm e g = Some (og, oevs) ->
  (forall g', og = Some g' -> g_ctx g' = g_ctx g /\ incl (g_insts g') (g_insts g)) /\
  (forall evs, oevs = Some evs -> Forall (fun x => In (e_action x) (gacts g)) evs).
Proof.
  destruct g as [c0 p insts|c0 p ents i]; cbn [group_remove].
  - unfold entity in *. destruct (position (fun ei : Z * inst => Z.eqb (fst ei) e) insts) as [k|]; [|discriminate].
    destruct (nth_error insts k) as [[x i]|] eqn:En; [|discriminate].
    intros [= <- <-]. split.
    + intros g' Hg'. pose proof (JudgeC12P.swap_remove_incl k insts) as Hi. destruct (swap_remove k insts) as [|q rest]; [discriminate|].
      injection Hg' as <-. cbn [g_ctx g_insts]. split; [reflexivity|]. apply incl_map. exact Hi.
    + intros evs He. eapply Forall_impl; [|exact (trigger_removed_acts _ _ _ _ He)]. intros y Hy. unfold gacts. cbn [g_insts].
      apply in_flat_map. exists i. split; [|exact Hy]. apply in_map_iff. exists (x, i). split; [reflexivity|]. eapply nth_error_In; exact En.
  - unfold entity in *. destruct (position (Z.eqb e) ents) as [k|]; [|discriminate]. intros [= <- <-]. split.
    + intros g' Hg'. destruct (swap_remove k ents) as [|q rest]; [discriminate|]. injection Hg' as <-. cbn [g_ctx g_insts].
      split; [reflexivity | apply incl_refl].
    + intros evs He. eapply Forall_impl; [|exact (trigger_removed_acts _ _ _ _ He)]. intros y Hy. unfold gacts. cbn [g_insts flat_map].
      rewrite app_nil_r. exact Hy.
Qed.

(* ContextInstances::rebuild inside the group of the type *)
Definition group_rebuild (mk : entity -> inst) (tm : time) (g : group) : option (group * option (list event)) :=
  match g with
  | GExcl c' p insts =>
      Some (GExcl c' p (map (fun ei => (fst ei, mk (fst ei))) insts),
            fold_left (fun acc ei => cat_ev acc (trigger_removed tm [fst ei] (snd ei))) insts (Some []))
  | GShared c' p ents i =>
      match ents with
      | [] => None
      | e0 :: _ => Some (GShared c' p ents (mk e0), trigger_removed tm ents i)
      end
  end.
Lemma reg_rebuild_mid mk tm c l1 g l2 : ~ In c (map g_ctx l1) -> g_ctx g = c ->
  reg_rebuild mk tm c (l1 ++ g :: l2) = option_map (fun p => (l1 ++ fst p :: l2, snd p)) (group_rebuild mk tm g).
Proof.
  intros Hn Hc. unfold reg_rebuild. rewrite (index_of_found c l1 g l2 Hn Hc), nth_error_mid.
  destruct g as [c0 p insts|c0 p ents i]; cbn [group_rebuild].
  - cbn [option_map fst snd]. rewrite update_at_app by reflexivity. reflexivity.
  - destruct ents as [|e0 ents]; [reflexivity|]. cbn [option_map fst snd]. rewrite update_at_app by reflexivity. reflexivity.
Qed.

Lemma fold_cat_ev_none tm (l : list (entity * inst)) :
  fold_left (fun acc ei => cat_ev acc (trigger_removed tm [fst ei] (snd ei))) l None = None.
Proof. induction l as [|y l IHl]; cbn [fold_left cat_ev]; [reflexivity | exact IHl]. Qed.
Lemma fold_cat_ev_acts tm L (insts : list (entity * inst)) : forall acc evs,
  (forall a, In a (flat_map iacts (map snd insts)) -> In a L) ->
  Forall (fun x => In (e_action x) L) acc ->
  fold_left (fun acc ei => cat_ev acc (trigger_removed tm [fst ei] (snd ei))) insts (Some acc) = Some evs ->
  Forall (fun x => In (e_action x) L) evs.
Proof.
  induction insts as [|[e i] insts IH]; intros acc evs HL Hacc; cbn [fold_left]; [intros [= <-]; exact Hacc|].
  cbn [fst snd]. destruct (trigger_removed tm [e] i) as [e1|] eqn:Et; cbn [cat_ev]; [|rewrite fold_cat_ev_none; discriminate].
  apply IH; [intros a Ha; apply HL; cbn [map snd flat_map]; apply in_or_app; right; exact Ha|].
  apply Forall_app. split; [exact Hacc|]. eapply Forall_impl; [|exact (trigger_removed_acts _ _ _ _ Et)].
  intros y Hy. apply HL. cbn [map snd flat_map]. apply in_or_app. left. exact Hy.
Qed.

Lemma group_rebuild_facts mk tm g g' oevs : group_rebuild mk tm g = Some (g', oevs) ->
  g_ctx g' = g_ctx g /\ (forall i, In i (g_insts g') -> exists e0, i = mk e0) /\
  (forall evs, oevs = Some evs -> Forall (fun x => In (e_action x) (gacts g)) evs).
Proof.
  destruct g as [c0 p insts|c0 p ents i]; cbn [group_rebuild].
  - intros [= <- <-]. cbn [g_ctx g_insts]. split; [reflexivity|]. split.
    + intros i Hi. rewrite map_map in Hi. apply in_map_iff in Hi. destruct Hi as (ei & <- & _). eexists; reflexivity.
    + intros evs He. unfold gacts. cbn [g_insts]. apply (fold_cat_ev_acts tm _ insts [] evs); [auto | constructor | exact He].
  - destruct ents as [|e0 ents]; [discriminate|]. intros [= <- <-]. cbn [g_ctx g_insts]. split; [reflexivity|]. split.
    + intros i0 [<-|[]]. eexists; reflexivity.
    + intros evs He. eapply Forall_impl; [|exact (trigger_removed_acts _ _ _ _ He)]. intros y Hy. unfold gacts. cbn [g_insts flat_map].
      rewrite app_nil_r. exact Hy.
Qed.

(* what ORebuild reports as built for one type *)
Definition group_built (c : ctx) (g : group) : list (ctx * entity) :=
  match g with
  | GExcl _ _ insts => map (fun ei => (c, fst ei)) insts
  | GShared _ _ (e0 :: _) _ => [(c, e0)]
  | _ => []
  end.
Definition built_expr (c : ctx) (r : registry) : list (ctx * entity) :=
  match index_of c r, nth_error r (match index_of c r with Some n => n | None => O end) with
  | Some _, Some (GExcl _ _ insts) => map (fun ei => (c, fst ei)) insts
  | Some _, Some (GShared _ _ (e0 :: _) _) => [(c, e0)]
  | _, _ => []
  end.
Lemma built_expr_mid c l1 g l2 : ~ In c (map g_ctx l1) -> g_ctx g = c -> built_expr c (l1 ++ g :: l2) = group_built c g.
Proof.
  intros Hn Hc. unfold built_expr. rewrite (index_of_found c l1 g l2 Hn Hc), nth_error_mid.
  destruct g as [c0 p insts|c0 p [|e0 ents] i]; reflexivity.
Qed.
Lemma built_expr_none c r : index_of c r = None -> built_expr c r = [].
Proof. intros H. unfold built_expr. rewrite H. reflexivity. Qed.
Lemma built_expr_fst c r p : In p (built_expr c r) -> fst p = c.
Proof.
  unfold built_expr. destruct (index_of c r) as [n|]; [|intros []]. destruct (nth_error r n) as [[c0 p0 insts|c0 p0 [|e0 ents] i]|].
  - intros H. apply in_map_iff in H. destruct H as (ei & <- & _). reflexivity.
  - intros [].
  - intros [<-|[]]. reflexivity.
  - intros [].
Qed.

(* ================================================================================================ *)
(* 5b. the registry operations commute with deleting the groups of some context types               *)
(* ================================================================================================ *)
Lemma split_unique {T} (P Q : T -> Prop) : (forall x, P x -> Q x -> False) -> forall a a' b b' : list T,
  a ++ b = a' ++ b' -> Forall P a -> Forall Q b -> Forall P a' -> Forall Q b' -> a = a' /\ b = b'.
Proof.
  intros HPQ. induction a as [|x a IH]; intros [|y a'] b b' E Pa Qb Pa' Qb'; cbn [app] in E.
  - split; [reflexivity | exact E].
  - exfalso. subst b. inversion Qb; subst. inversion Pa'; subst. eauto.
  - exfalso. subst b'. inversion Qb'; subst. inversion Pa; subst. eauto.
  - injection E as <- E. inversion Pa; subst. inversion Pa'; subst. destruct (IH a' b b' E) as [-> ->]; auto.
Qed.

Lemma In_firstn_skipn_split' {T} (l : list T) n x : In x (firstn n l) \/ In x (skipn n l) -> In x l.
Proof. intros H. rewrite <- (firstn_skipn n l). apply in_or_app. exact H. Qed.

Section FilterOps.
Variable keep : Z -> bool.
Variable J : list read.
Variables A I : list Z.
Notation kgK := (kg keep).
Notation PgK := (Pg keep J A I).
Notation PiK := (Pi keep J A I).
Notation inAK := (inA A).

Lemma filter_mid_keep l1 g l2 : kgK g = true -> filter kgK (l1 ++ g :: l2) = filter kgK l1 ++ g :: filter kgK l2.
Proof. intros H. rewrite filter_app. cbn [filter]. rewrite H. reflexivity. Qed.
Lemma filter_mid_drop l1 g l2 : kgK g = false -> filter kgK (l1 ++ g :: l2) = filter kgK l1 ++ filter kgK l2.
Proof. intros H. rewrite filter_app. cbn [filter]. rewrite H. reflexivity. Qed.
Lemma notin_filter c l : ~ In c (map g_ctx l) -> ~ In c (map g_ctx (filter kgK l)).
Proof. intros H Hin. apply H. apply in_map_iff in Hin. destruct Hin as (g & <- & Hg). apply in_map. apply filter_In in Hg. tauto. Qed.
Lemma index_of_none_filter c r : index_of c r = None -> index_of c (filter kgK r) = None.
Proof. intros H. apply index_of_none. apply notin_filter. apply index_of_none. exact H. Qed.

Lemma split_keep c r : keep c = true ->
  (index_of c r = None /\ index_of c (filter kgK r) = None) \/
  (exists l1 g l2, r = l1 ++ g :: l2 /\ ~ In c (map g_ctx l1) /\ g_ctx g = c /\
                   filter kgK r = filter kgK l1 ++ g :: filter kgK l2 /\ ~ In c (map g_ctx (filter kgK l1))).
Proof.
  intros Hk. destruct (index_of c r) as [n|] eqn:Ei.
  - right. destruct (index_of_some c r n Ei) as (l1 & g & l2 & -> & _ & Hc & Hn). exists l1, g, l2.
    split; [reflexivity|]. split; [exact Hn|]. split; [exact Hc|]. split; [|apply notin_filter; exact Hn].
    apply filter_mid_keep. unfold kg. rewrite Hc. exact Hk.
  - left. split; [reflexivity | apply index_of_none_filter; exact Ei].
Qed.
Lemma split_drop c r n : keep c = false -> index_of c r = Some n ->
  exists l1 g l2, r = l1 ++ g :: l2 /\ ~ In c (map g_ctx l1) /\ g_ctx g = c /\ filter kgK r = filter kgK l1 ++ filter kgK l2.
Proof.
  intros Hk Ei. destruct (index_of_some c r n Ei) as (l1 & g & l2 & -> & _ & Hc & Hn). exists l1, g, l2.
  split; [reflexivity|]. split; [exact Hn|]. split; [exact Hc|]. apply filter_mid_drop. unfold kg. rewrite Hc. exact Hk.
Qed.

Lemma sorted_filter r : sorted_desc r -> sorted_desc (filter kgK r).
Proof.
  unfold sorted_desc. induction r as [|g r IH]; cbn [filter map]; [auto|]. intros H. apply desc_cons in H. destruct H as [H1 H2].
  destruct (kgK g); [|apply IH; exact H1]. cbn [map]. apply desc_cons. split; [apply IH; exact H1|].
  intros b Hb. apply H2. apply in_map_iff in Hb. destruct Hb as (x & <- & Hx). apply in_map. apply filter_In in Hx. tauto.
Qed.

Lemma insert_filter p ng r : sorted_desc r -> (forall g, In g r -> g_prio g <> p) -> kgK ng = true ->
  insert_at (bsearch p (filter kgK r)) ng (filter kgK r) = filter kgK (insert_at (bsearch p r) ng r).
Proof.
  intros Hs Hne Hk. destruct (bsearch_spec p r Hs) as (_ & Hlo & Hhi).
  destruct (bsearch_spec p (filter kgK r) (sorted_filter r Hs)) as (_ & Hlo' & Hhi').
  set (n := bsearch p r) in *. set (m := bsearch p (filter kgK r)) in *.
  rewrite !insert_at_firstn_skipn, filter_app. cbn [filter]. rewrite Hk.
  assert (Hin' : forall g, In g (filter kgK r) -> g_prio g <> p) by (intros g Hg; apply Hne; apply filter_In in Hg; tauto).
  assert (Hstrict : forall (l : list group) (R : Z -> Z -> Prop), (forall g, In g l -> g_prio g <> p) ->
            (forall a, R a p -> a <> p -> (R a p /\ a <> p)) -> True) by auto. clear Hstrict.
  destruct (split_unique (fun g => g_prio g > p) (fun g => g_prio g < p) ltac:(cbv beta; intros x H1 H2; lia)
              (firstn m (filter kgK r)) (filter kgK (firstn n r)) (skipn m (filter kgK r)) (filter kgK (skipn n r))) as [E1 E2].
  - rewrite firstn_skipn, <- filter_app, firstn_skipn. reflexivity.
  - apply Forall_forall. intros g Hg. rewrite Forall_forall in Hlo'. specialize (Hlo' g Hg). cbv beta in Hlo'.
    assert (g_prio g <> p) by (apply Hin'; eapply (In_firstn_skipn_split' _ m); left; exact Hg). lia.
  - apply Forall_forall. intros g Hg. rewrite Forall_forall in Hhi'. specialize (Hhi' g Hg). cbv beta in Hhi'.
    assert (g_prio g <> p) by (apply Hin'; eapply (In_firstn_skipn_split' _ m); right; exact Hg). lia.
  - apply Forall_forall. intros g Hg. apply filter_In in Hg. destruct Hg as [Hg _]. rewrite Forall_forall in Hlo. specialize (Hlo g Hg). cbv beta in Hlo.
    assert (g_prio g <> p) by (apply Hne; eapply (In_firstn_skipn_split' _ n); left; exact Hg). lia.
  - apply Forall_forall. intros g Hg. apply filter_In in Hg. destruct Hg as [Hg _]. rewrite Forall_forall in Hhi. specialize (Hhi g Hg). cbv beta in Hhi.
    assert (g_prio g <> p) by (apply Hne; eapply (In_firstn_skipn_split' _ n); right; exact Hg). lia.
  - rewrite E1, E2. reflexivity.
Qed.
End FilterOps.

Section FilterOps2.
Variable keep : Z -> bool.
Variable J : list read.
Variables A I : list Z.
Notation kgK := (kg keep).
Notation PgK := (Pg keep J A I).
Notation PiK := (Pi keep J A I).
Notation inAK := (inA A).

(* --- add --- *)
Lemma add_ent_ctx mk e g : g_ctx (add_ent mk e g) = g_ctx g.
Proof. destruct g; reflexivity. Qed.
Lemma new_group_ctx c e i : g_ctx (new_group c e i) = c.
Proof. unfold new_group. destruct (ctx_shared c); reflexivity. Qed.

Lemma reg_add_keep mk c e r : keep c = true -> sorted_desc r ->
  (index_of c r = None -> forall g, In g r -> g_prio g <> ctx_prio c) ->
  reg_add mk c e (filter kgK r) = filter kgK (reg_add mk c e r).
Proof.
  intros Hk Hs Hne. destruct (split_keep keep c r Hk) as [[E1 E2]|(l1 & g & l2 & -> & Hn & Hc & Ef & Hn')].
  - rewrite (reg_add_new mk c e _ E1), (reg_add_new mk c e _ E2). apply insert_filter; [exact Hs | exact (Hne E1)|].
    unfold kg. rewrite new_group_ctx. exact Hk.
  - rewrite Ef, (reg_add_old mk c e _ g _ Hn' Hc), (reg_add_old mk c e l1 g l2 Hn Hc). symmetry. apply filter_mid_keep.
    unfold kg. rewrite add_ent_ctx, Hc. exact Hk.
Qed.
Lemma reg_add_drop mk c e r : keep c = false -> filter kgK (reg_add mk c e r) = filter kgK r.
Proof.
  intros Hk. destruct (index_of c r) as [n|] eqn:Ei.
  - destruct (index_of_some c r n Ei) as (l1 & g & l2 & -> & _ & Hc & Hn). rewrite (reg_add_old mk c e l1 g l2 Hn Hc).
    rewrite !filter_mid_drop; [reflexivity | unfold kg; rewrite Hc; exact Hk | unfold kg; rewrite add_ent_ctx, Hc; exact Hk].
  - rewrite (reg_add_new mk c e r Ei), insert_at_firstn_skipn, filter_mid_drop by (unfold kg; rewrite new_group_ctx; exact Hk).
    rewrite <- filter_app, firstn_skipn. reflexivity.
Qed.
Lemma reg_add_Pg mk c e r : Forall PgK r -> PiK c (mk e) -> Forall PgK (reg_add mk c e r).
Proof.
  intros H Hmk. destruct (index_of c r) as [n|] eqn:Ei.
  - destruct (index_of_some c r n Ei) as (l1 & g & l2 & -> & _ & Hc & Hn). rewrite (reg_add_old mk c e l1 g l2 Hn Hc).
    apply Forall_app in H. destruct H as [H1 H2]. inversion H2 as [|? ? Hg H3]; subst. apply Forall_app. split; [exact H1|]. constructor; [|exact H3].
    unfold Pg in *. rewrite add_ent_ctx. destruct (add_ent_fields mk e g) as (_ & _ & _ & _ & F5). rewrite Forall_forall in *.
    intros x Hx. apply F5 in Hx. destruct Hx as [<-|Hx]; [exact Hmk | apply Hg; exact Hx].
  - rewrite (reg_add_new mk c e r Ei). apply JudgeC12P.Forall_insert_at; [exact H|]. unfold Pg. rewrite new_group_ctx.
    destruct (new_group_fields c e (mk e)) as (_ & _ & _ & _ & F5). cbv zeta in F5. rewrite F5. constructor; [exact Hmk | constructor].
Qed.

(* --- remove --- *)
Lemma reg_remove_keep tm c e r : keep c = true ->
  reg_remove tm c e (filter kgK r) = option_map (fun p => (filter kgK (fst p), snd p)) (reg_remove tm c e r).
Proof.
  intros Hk. destruct (split_keep keep c r Hk) as [[E1 E2]|(l1 & g & l2 & -> & Hn & Hc & Ef & Hn')].
  - rewrite (reg_remove_none _ _ _ _ E1), (reg_remove_none _ _ _ _ E2). reflexivity.
  - rewrite Ef, (reg_remove_mid tm c e _ g _ Hn' Hc), (reg_remove_mid tm c e l1 g l2 Hn Hc).
    destruct (group_remove tm e g) as [[og oevs]|] eqn:Eg; [|reflexivity]. cbn [option_map fst snd]. f_equal. f_equal.
    rewrite !filter_app. f_equal. f_equal. destruct og as [g'|]; [|reflexivity]. cbn [opt_list filter].
    destruct (group_remove_facts tm e g _ _ Eg) as (F1 & _). destruct (F1 g' eq_refl) as (Hc' & _).
    unfold kg at 1. rewrite Hc', Hc, Hk. reflexivity.
Qed.
Lemma reg_remove_drop tm c e r r' oevs : keep c = false -> Forall PgK r -> reg_remove tm c e r = Some (r', oevs) ->
  filter kgK r' = filter kgK r /\ (forall evs, oevs = Some evs -> filter inAK evs = []).
Proof.
  intros Hk HP Hr. destruct (index_of c r) as [n|] eqn:Ei; [|rewrite (reg_remove_none _ _ _ _ Ei) in Hr; discriminate].
  destruct (split_drop keep c r n Hk Ei) as (l1 & g & l2 & -> & Hn & Hc & Ef). rewrite (reg_remove_mid tm c e l1 g l2 Hn Hc) in Hr.
  destruct (group_remove tm e g) as [[og oevs0]|] eqn:Eg; [|discriminate]. cbn [option_map fst snd] in Hr. injection Hr as <- <-.
  destruct (group_remove_facts tm e g _ _ Eg) as (F1 & F2). split.
  - rewrite Ef, !filter_app. f_equal. destruct og as [g'|]; [|reflexivity]. cbn [opt_list app filter].
    destruct (F1 g' eq_refl) as (Hc' & _). unfold kg at 1. rewrite Hc', Hc, Hk. reflexivity.
  - intros evs He. apply filter_nothing. intros x Hx. apply memz_false_notin.
    apply Forall_app in HP. destruct HP as [_ HP]. pose proof (Forall_inv HP) as Hg.
    destruct (Pg_dropped keep J A I g) as (_ & D2 & _); [unfold kg; rewrite Hc; exact Hk | exact Hg |].
    apply D2. pose proof (F2 evs He) as F. rewrite Forall_forall in F. apply F. exact Hx.
Qed.
Lemma reg_remove_Pg tm c e r r' oevs : Forall PgK r -> reg_remove tm c e r = Some (r', oevs) -> Forall PgK r'.
Proof.
  intros HP Hr. destruct (index_of c r) as [n|] eqn:Ei; [|rewrite (reg_remove_none _ _ _ _ Ei) in Hr; discriminate].
  destruct (index_of_some c r n Ei) as (l1 & g & l2 & -> & _ & Hc & Hn). rewrite (reg_remove_mid tm c e l1 g l2 Hn Hc) in Hr.
  destruct (group_remove tm e g) as [[og oevs0]|] eqn:Eg; [|discriminate]. cbn [option_map fst snd] in Hr. injection Hr as <- <-.
  destruct (group_remove_facts tm e g _ _ Eg) as (F1 & _).
  apply Forall_app in HP. destruct HP as [H1 H2]. inversion H2 as [|? ? Hg H3]; subst. apply Forall_app. split; [exact H1|].
  apply Forall_app. split; [|exact H3]. destruct og as [g'|]; [|constructor]. constructor; [|constructor].
  destruct (F1 g' eq_refl) as (Hc' & Hi). unfold Pg in *. rewrite Hc'. rewrite Forall_forall in *. intros x Hx. apply Hg, Hi, Hx.
Qed.

(* --- rebuild --- *)
Lemma reg_rebuild_keep mk tm c r : keep c = true ->
  reg_rebuild mk tm c (filter kgK r) = option_map (fun p => (filter kgK (fst p), snd p)) (reg_rebuild mk tm c r) /\
  built_expr c (filter kgK r) = built_expr c r.
Proof.
  intros Hk. destruct (split_keep keep c r Hk) as [[E1 E2]|(l1 & g & l2 & -> & Hn & Hc & Ef & Hn')].
  - rewrite (reg_rebuild_absent _ _ _ _ E1), (reg_rebuild_absent _ _ _ _ E2), (built_expr_none _ _ E1), (built_expr_none _ _ E2). split; reflexivity.
  - rewrite Ef, (reg_rebuild_mid mk tm c _ g _ Hn' Hc), (reg_rebuild_mid mk tm c l1 g l2 Hn Hc),
      (built_expr_mid c _ g _ Hn' Hc), (built_expr_mid c l1 g l2 Hn Hc). split; [|reflexivity].
    destruct (group_rebuild mk tm g) as [[g' oevs]|] eqn:Eg; [|reflexivity]. cbn [option_map fst snd]. f_equal. f_equal.
    symmetry. apply filter_mid_keep. destruct (group_rebuild_facts mk tm g _ _ Eg) as (Hc' & _). unfold kg. rewrite Hc', Hc. exact Hk.
Qed.
Lemma reg_rebuild_drop mk tm c r r' oevs : keep c = false -> Forall PgK r -> reg_rebuild mk tm c r = Some (r', oevs) ->
  filter kgK r' = filter kgK r /\ (forall evs, oevs = Some evs -> filter inAK evs = []).
Proof.
  intros Hk HP Hr. destruct (index_of c r) as [n|] eqn:Ei.
  2:{ rewrite (reg_rebuild_absent _ _ _ _ Ei) in Hr. injection Hr as <- <-. split; [reflexivity|]. intros evs [= <-]. reflexivity. }
  destruct (split_drop keep c r n Hk Ei) as (l1 & g & l2 & -> & Hn & Hc & Ef). rewrite (reg_rebuild_mid mk tm c l1 g l2 Hn Hc) in Hr.
  destruct (group_rebuild mk tm g) as [[g' oevs0]|] eqn:Eg; [|discriminate]. cbn [option_map fst snd] in Hr. injection Hr as <- <-.
  destruct (group_rebuild_facts mk tm g _ _ Eg) as (Hc' & _ & F2). split.
  - rewrite Ef. apply filter_mid_drop. unfold kg. rewrite Hc', Hc. exact Hk.
  - intros evs He. apply filter_nothing. intros x Hx. apply memz_false_notin.
    apply Forall_app in HP. destruct HP as [_ HP]. pose proof (Forall_inv HP) as Hg.
    destruct (Pg_dropped keep J A I g) as (_ & D2 & _); [unfold kg; rewrite Hc; exact Hk | exact Hg |].
    apply D2. pose proof (F2 evs He) as F. rewrite Forall_forall in F. apply F. exact Hx.
Qed.
Lemma reg_rebuild_Pg mk tm c r r' oevs : Forall PgK r -> (forall e, PiK c (mk e)) -> reg_rebuild mk tm c r = Some (r', oevs) -> Forall PgK r'.
Proof.
  intros HP Hmk Hr. destruct (index_of c r) as [n|] eqn:Ei; [|rewrite (reg_rebuild_absent _ _ _ _ Ei) in Hr; injection Hr as <- _; exact HP].
  destruct (index_of_some c r n Ei) as (l1 & g & l2 & -> & _ & Hc & Hn). rewrite (reg_rebuild_mid mk tm c l1 g l2 Hn Hc) in Hr.
  destruct (group_rebuild mk tm g) as [[g' oevs0]|] eqn:Eg; [|discriminate]. cbn [option_map fst snd] in Hr. injection Hr as <- <-.
  destruct (group_rebuild_facts mk tm g _ _ Eg) as (Hc' & F1 & _).
  apply Forall_app in HP. destruct HP as [H1 H2]. inversion H2 as [|? ? Hg H3]; subst. apply Forall_app. split; [exact H1|].
  constructor; [|exact H3]. unfold Pg. rewrite Hc'. apply Forall_forall. intros x Hx. destruct (F1 x Hx) as (e0 & ->). apply Hmk.
Qed.

(* --- get --- *)
Lemma reg_get_filter c e r : keep c = true -> reg_get c e (filter kgK r) = reg_get c e r.
Proof.
  intros Hk. destruct (split_keep keep c r Hk) as [[E1 E2]|(l1 & g & l2 & -> & Hn & Hc & Ef & Hn')].
  - rewrite !reg_get_unfold, E1, E2. reflexivity.
  - rewrite Ef, (reg_get_found c e _ g _ Hn' Hc), (reg_get_found c e l1 g l2 Hn Hc). reflexivity.
Qed.
Lemma index_of_filter_some c r : keep c = true ->
  match index_of c (filter kgK r) with Some _ => true | None => false end = match index_of c r with Some _ => true | None => false end.
Proof.
  intros Hk. destruct (split_keep keep c r Hk) as [[E1 E2]|(l1 & g & l2 & -> & Hn & Hc & Ef & Hn')].
  - rewrite E1, E2. reflexivity.
  - rewrite Ef, (index_of_found c _ g _ Hn' Hc), (index_of_found c l1 g l2 Hn Hc). reflexivity.
Qed.
End FilterOps2.

(* ================================================================================================ *)
(* 6. the operations of Model/Frame.v on two related worlds                                         *)
(* ================================================================================================ *)
Lemma reg_add_ext mk mk' c e r : mk e = mk' e -> reg_add mk c e r = reg_add mk' c e r.
Proof. intros H. unfold reg_add. rewrite H. destruct (index_of c r); [|reflexivity]. apply f_equal2; [|reflexivity]. reflexivity. Qed.

Section WorldSim.
Variables full sub : scenario.
Variable J : list read.
Variables A I : list Z.
Let keep (c : Z) : bool := memz c (s_menu sub).
Notation kgK := (kg keep).
Notation PgK := (Pg keep J A I).
Notation PiK := (Pi keep J A I).
Notation inAK := (inA A).
Definition inC (p : ctx * entity) : bool := memz (fst p) (s_menu sub).

Hypothesis Hmenu : s_menu sub = filter keep (s_menu full).
Hypothesis Hmk : forall c e, keep c = true -> mk_inst sub c e = mk_inst full c e.
Hypothesis HPmk : forall c e, PiK c (mk_inst full c e).
Hypothesis Hprio : forall c1 c2, In c1 (s_menu full) -> In c2 (s_menu full) -> ctx_prio c1 = ctx_prio c2 -> c1 = c2.

Definition hmap (h : list (entity * list ctx)) : list (entity * list ctx) := map (fun p => (fst p, filter keep (snd p))) h.
Definition Sim (w1 w2 : world) : Prop :=
  w_holds w2 = hmap (w_holds w1) /\ w_reg w2 = filter kgK (w_reg w1) /\ w_time w2 = w_time w1.
Definition Inv (w1 : world) : Prop := reg_inv full w1 /\ Forall PgK (w_reg w1).
Definition OSim (o1 o2 : op_out) : Prop :=
  Sim (oo_world o1) (oo_world o2) /\ filter inAK (oo_events o2) = filter inAK (oo_events o1) /\
  filter inC (oo_built o2) = filter inC (oo_built o1).

Lemma holds_of_hmap e h : holds_of e (hmap h) = option_map (filter keep) (holds_of e h).
Proof. induction h as [|[x cs] h IH]; cbn [hmap map holds_of fst snd]; [reflexivity|]. destruct (Z.eqb x e); [reflexivity | exact IH]. Qed.
Lemma set_holds_hmap e cs h : set_holds e (filter keep cs) (hmap h) = hmap (set_holds e cs h).
Proof.
  induction h as [|[x old] h IH]; cbn [hmap map set_holds fst snd]; [reflexivity|]. destruct (Z.eqb x e); cbn [map fst snd]; [reflexivity|].
  f_equal. exact IH.
Qed.
Lemma del_ent_hmap e h : del_ent e (hmap h) = hmap (del_ent e h).
Proof.
  unfold del_ent. induction h as [|[x cs] h IH]; cbn [hmap map filter fst snd]; [reflexivity|].
  destruct (negb (Z.eqb x e)); cbn [map fst snd]; [f_equal|]; exact IH.
Qed.
Lemma set_holds_same e cs h : holds_of e h = Some cs -> set_holds e cs h = h.
Proof.
  induction h as [|[x old] h IH]; cbn [holds_of set_holds]; [discriminate|]. destruct (Z.eqb x e) eqn:E.
  - intros [= ->]. reflexivity.
  - intros H. f_equal. apply IH. exact H.
Qed.
Lemma keep_menu c : keep c = true -> memz c (s_menu sub) = memz c (s_menu full).
Proof. intros Hk. rewrite Hmenu. apply memz_filter. exact Hk. Qed.

Lemma inv_prio_fresh w c : reg_inv full w -> In c (s_menu full) -> index_of c (w_reg w) = None ->
  forall g, In g (w_reg w) -> g_prio g <> ctx_prio c.
Proof.
  intros Hinv Hc Hi g Hg Hp. pose proof (JudgeC12P.reg_ctx_menu full w g Hinv Hg) as Hm.
  destruct Hinv as (_ & _ & Hok & _). rewrite Forall_forall in Hok. destruct (Hok g Hg) as (P1 & _). rewrite P1 in Hp.
  pose proof (Hprio _ _ Hm Hc Hp) as E. apply index_of_none in Hi. apply Hi. rewrite <- E. apply in_map. exact Hg.
Qed.

Lemma OSim_refl_on w1 w2 ev bl : Sim w1 w2 -> OSim (mkOpOut w1 ev bl) (mkOpOut w2 ev bl).
Proof. intros H. split; [exact H|]. split; reflexivity. Qed.

Lemma insert_ctx_sim w1 w2 e c : Inv w1 -> Sim w1 w2 ->
  Inv (oo_world (insert_ctx full w1 e c)) /\ OSim (insert_ctx full w1 e c) (insert_ctx sub w2 e c) /\
  oo_events (insert_ctx full w1 e c) = [] /\ oo_events (insert_ctx sub w2 e c) = [].
Proof.
  intros [Hinv HP] (Sh & Sr & St).
  assert (HI : Inv (oo_world (insert_ctx full w1 e c))).
  { split; [apply insert_ctx_inv; exact Hinv|]. unfold insert_ctx. destruct (holds_of e (w_holds w1)) as [cs|]; [|exact HP].
    destruct (memz c cs || negb (memz c (s_menu full))); [exact HP|]. cbn [oo_world w_reg]. apply reg_add_Pg; [exact HP | apply HPmk]. }
  split; [exact HI|]. unfold insert_ctx. rewrite Sh, holds_of_hmap.
  destruct (holds_of e (w_holds w1)) as [cs|] eqn:He; cbn [option_map].
  2:{ split; [apply OSim_refl_on; repeat split; assumption|]. split; reflexivity. }
  destruct (keep c) eqn:Hk.
  - rewrite (memz_filter keep c cs Hk), (keep_menu c Hk).
    destruct (memz c cs || negb (memz c (s_menu full))) eqn:Ec.
    + split; [apply OSim_refl_on; repeat split; assumption|]. split; reflexivity.
    + apply orb_false_iff in Ec. destruct Ec as [_ Ec]. apply negb_false_iff in Ec. apply RegistryP.memz_in in Ec.
      cbn [oo_events]. split; [|split; reflexivity]. unfold OSim, Sim; cbn [oo_world oo_events oo_built w_holds w_reg w_time]. split; [|split; [reflexivity|]].
      * split; [|split; [|exact St]].
        -- rewrite <- set_holds_hmap, filter_app. cbn [filter]. rewrite Hk. reflexivity.
        -- rewrite Sr, (reg_add_ext (mk_inst sub c) (mk_inst full c) c e _ (Hmk c e Hk)).
           apply reg_add_keep; [exact Hk | destruct Hinv as (Hs & _); exact Hs | intros Hi; apply inv_prio_fresh; assumption].
      * rewrite Sr. pose proof (index_of_filter_some keep c (w_reg w1) Hk) as Hi.
        destruct (index_of c (filter kgK (w_reg w1))), (index_of c (w_reg w1)); try discriminate; reflexivity.
  - assert (Hs : memz c (s_menu sub) = false) by exact Hk. rewrite Hs, orb_true_r.
    destruct (memz c cs || negb (memz c (s_menu full))) eqn:Ec.
    + split; [apply OSim_refl_on; repeat split; assumption|]. split; reflexivity.
    + cbn [oo_events]. split; [|split; reflexivity]. unfold OSim, Sim; cbn [oo_world oo_events oo_built w_holds w_reg w_time]. split; [|split; [reflexivity|]].
      * split; [|split; [|exact St]].
        -- rewrite <- set_holds_hmap, filter_app. cbn [filter]. rewrite Hk, app_nil_r, Sh. symmetry. apply set_holds_same.
           rewrite holds_of_hmap, He. reflexivity.
        -- rewrite Sr. symmetry. apply reg_add_drop. exact Hk.
      * cbn [filter]. symmetry. apply filter_nothing. intros p Hp. unfold inC.
        destruct (index_of c (w_reg w1)); [destruct (ctx_shared c)|]; cbn [In] in Hp; try contradiction;
          destruct Hp as [<-|[]]; exact Hk.
Qed.

Ltac fin3 := split; [reflexivity|]; split; [reflexivity|]; intros Hf; first [reflexivity | congruence].
Lemma remove_ctx_sim w1 w2 e c o1 : Inv w1 -> Sim w1 w2 -> remove_ctx w1 e c = Some o1 ->
  exists o2, remove_ctx w2 e c = Some o2 /\ Inv (oo_world o1) /\ OSim o1 o2 /\ oo_built o1 = [] /\ oo_built o2 = [] /\
  (keep c = false -> o2 = mkOpOut w2 [] []).
Proof.
  intros [Hinv HP] (Sh & Sr & St) H1.
  assert (HI : Inv (oo_world o1)).
  { destruct (remove_ctx_spec full w1 e c Hinv) as (o & Ho & Hinv' & _). rewrite H1 in Ho. injection Ho as <-. split; [exact Hinv'|].
    unfold remove_ctx in H1. destruct (holds_of e (w_holds w1)) as [cs|]; [|injection H1 as <-; exact HP].
    destruct (negb (memz c cs)); [injection H1 as <-; exact HP|].
    destruct (reg_remove (w_time w1) c e (w_reg w1)) as [[r' [evs|]]|] eqn:Er; try discriminate. injection H1 as <-. cbn [oo_world w_reg].
    eapply reg_remove_Pg; eassumption. }
  unfold remove_ctx in *. rewrite Sh, holds_of_hmap.
  destruct (holds_of e (w_holds w1)) as [cs|] eqn:He; cbn [option_map].
  2:{ injection H1 as <-. eexists. split; [reflexivity|]. split; [exact HI|]. split; [apply OSim_refl_on; repeat split; assumption|]. fin3. }
  destruct (keep c) eqn:Hk.
  - rewrite (memz_filter keep c cs Hk). destruct (negb (memz c cs)).
    + injection H1 as <-. eexists. split; [reflexivity|]. split; [exact HI|]. split; [apply OSim_refl_on; repeat split; assumption|]. fin3.
    + rewrite Sr, St, (reg_remove_keep keep (w_time w1) c e (w_reg w1) Hk).
      destruct (reg_remove (w_time w1) c e (w_reg w1)) as [[r' [evs|]]|] eqn:Er; try discriminate. injection H1 as <-.
      cbn [option_map fst snd]. eexists. split; [reflexivity|]. split; [exact HI|]. split; [|fin3].
      unfold OSim, Sim; cbn [oo_world oo_events oo_built w_holds w_reg w_time]. split; [|split; reflexivity]. split; [|split; reflexivity].
      rewrite <- set_holds_hmap. f_equal. apply filter_filter.
  - assert (Hm : memz c (filter keep cs) = false).
    { apply memz_false_notin. intros Hin. apply filter_In in Hin. destruct Hin as [_ Hin]. congruence. }
    rewrite Hm. cbn [negb]. eexists. split; [reflexivity|]. split; [exact HI|]. split; [|split; [|split; [reflexivity | intros _; reflexivity]]].
    + destruct (negb (memz c cs)); [injection H1 as <-; apply OSim_refl_on; repeat split; assumption|].
      destruct (reg_remove (w_time w1) c e (w_reg w1)) as [[r' [evs|]]|] eqn:Er; try discriminate. injection H1 as <-.
      destruct (reg_remove_drop keep J A I _ _ _ _ _ _ Hk HP Er) as (F1 & F2).
      unfold OSim, Sim; cbn [oo_world oo_events oo_built w_holds w_reg w_time]. split; [|split; [|reflexivity]].
      * split; [|split; [rewrite F1; exact Sr | exact St]].
        rewrite <- set_holds_hmap, Sh. symmetry.
        replace (filter keep (filter (fun x => negb (Z.eqb x c)) cs)) with (filter keep cs).
        -- apply set_holds_same. rewrite holds_of_hmap, He. reflexivity.
        -- rewrite filter_filter. symmetry. apply filter_all. intros x Hx. apply filter_In in Hx. destruct Hx as [_ Hx].
           apply negb_true_iff. apply Z.eqb_neq. intros ->. congruence.
      * rewrite (F2 evs eq_refl). reflexivity.
    + destruct (negb (memz c cs)); [injection H1 as <-; reflexivity|].
      destruct (reg_remove (w_time w1) c e (w_reg w1)) as [[r' [evs|]]|]; try discriminate. injection H1 as <-. reflexivity.
Qed.

(* ---- composition of outputs ---- *)
Lemma OSim_step a1 a2 o1 o2 bl1 bl2 : OSim a1 a2 -> OSim o1 o2 -> filter inC bl2 = filter inC bl1 ->
  OSim (mkOpOut (oo_world o1) (oo_events a1 ++ oo_events o1) (oo_built a1 ++ bl1))
       (mkOpOut (oo_world o2) (oo_events a2 ++ oo_events o2) (oo_built a2 ++ bl2)).
Proof.
  intros (_ & E1 & B1) (S2 & E2 & _) B2. unfold OSim. cbn [oo_world oo_events oo_built].
  split; [exact S2|]. rewrite !filter_app, E1, E2, B1, B2. split; reflexivity.
Qed.
(* the sub-configuration does nothing *)
Lemma OSim_step_l a1 a2 o1 w2 bl1 : OSim a1 a2 -> OSim o1 (mkOpOut w2 [] []) -> filter inC bl1 = [] ->
  oo_world a2 = w2 ->
  OSim (mkOpOut (oo_world o1) (oo_events a1 ++ oo_events o1) (oo_built a1 ++ bl1)) a2.
Proof.
  intros (_ & E1 & B1) (S2 & E2 & _) B2 <-. unfold OSim in *. cbn [oo_world oo_events oo_built filter] in *.
  split; [exact S2|]. rewrite !filter_app, <- E1, <- E2, B1, B2, !app_nil_r. split; reflexivity.
Qed.

(* ---- OSpawn ---- *)
Definition sf (sc : scenario) (e : entity) := fun (acc : op_out) (c : ctx) =>
  let o := insert_ctx sc (oo_world acc) e c in
  mkOpOut (oo_world o) (oo_events acc ++ oo_events o) (oo_built acc ++ oo_built o).

Lemma insert_sub_dropped w e c : keep c = false -> insert_ctx sub w e c = mkOpOut w [] [].
Proof.
  intros Hk. unfold insert_ctx. destruct (holds_of e (w_holds w)) as [cs|]; [|reflexivity].
  assert (Hs : memz c (s_menu sub) = false) by exact Hk. rewrite Hs, orb_true_r. reflexivity.
Qed.
Lemma spawn_fold_sub e cs : forall a, fold_left (sf sub e) cs a = fold_left (sf sub e) (filter keep cs) a.
Proof.
  induction cs as [|c cs IH]; intros a; cbn [filter fold_left]; [reflexivity|]. destruct (keep c) eqn:Hk; cbn [fold_left]; [apply IH|].
  rewrite <- IH. f_equal. unfold sf. rewrite (insert_sub_dropped _ e c Hk). cbn [oo_world oo_events oo_built]. rewrite !app_nil_r.
  destruct a; reflexivity.
Qed.
Lemma spawn_fold_sim e cs : forall a1 a2, Inv (oo_world a1) -> OSim a1 a2 ->
  Inv (oo_world (fold_left (sf full e) cs a1)) /\ OSim (fold_left (sf full e) cs a1) (fold_left (sf sub e) (filter keep cs) a2).
Proof.
  induction cs as [|c cs IH]; intros a1 a2 HI HS; cbn [filter fold_left]; [split; assumption|].
  destruct (insert_ctx_sim (oo_world a1) (oo_world a2) e c HI (proj1 HS)) as (HI' & HS' & _ & _).
  destruct (keep c) eqn:Hk; cbn [fold_left].
  - apply IH; [exact HI'|]. unfold sf. cbv zeta. apply OSim_step; [exact HS | exact HS' | apply HS'].
  - apply IH; [exact HI'|]. unfold sf. cbv zeta. rewrite (insert_sub_dropped _ e c Hk) in HS'.
    apply (OSim_step_l a1 a2 _ (oo_world a2)); [exact HS | exact HS' | | reflexivity].
    destruct HS' as (_ & _ & B). cbn [oo_built filter] in B. symmetry. exact B.
Qed.

(* ---- ODespawn ---- *)
Lemma despawn_fold_sim e l : forall a1 a2 r1, Inv (oo_world a1) -> OSim a1 a2 -> oo_built a1 = [] -> oo_built a2 = [] ->
  fold_left (despawn_f e) l (Some a1) = Some r1 ->
  exists r2, fold_left (despawn_f e) (filter keep l) (Some a2) = Some r2 /\ Inv (oo_world r1) /\ OSim r1 r2.
Proof.
  induction l as [|c l IH]; intros a1 a2 r1 HI HS B1 B2 H; cbn [filter fold_left] in *.
  - injection H as <-. exists a2. split; [reflexivity|]. split; assumption.
  - cbn [despawn_f] in H. destruct (remove_ctx (oo_world a1) e c) as [o1|] eqn:Er; [|rewrite despawn_f_none in H; discriminate].
    destruct (remove_ctx_sim (oo_world a1) (oo_world a2) e c o1 HI (proj1 HS) Er) as (o2 & Eo2 & HI' & HS' & C1 & C2 & Hd).
    destruct (keep c) eqn:Hk; cbn [fold_left].
    + cbn [despawn_f]. rewrite Eo2.
      apply (IH (mkOpOut (oo_world o1) (oo_events a1 ++ oo_events o1) []) (mkOpOut (oo_world o2) (oo_events a2 ++ oo_events o2) []) r1 HI');
        [|reflexivity|reflexivity|exact H].
      pose proof (OSim_step a1 a2 o1 o2 [] [] HS HS' eq_refl) as G. rewrite B1, B2 in G. exact G.
    + apply (IH (mkOpOut (oo_world o1) (oo_events a1 ++ oo_events o1) []) a2 r1 HI'); [|reflexivity|exact B2|exact H]. rewrite (Hd eq_refl) in HS'.
      pose proof (OSim_step_l a1 a2 o1 (oo_world a2) [] HS HS' eq_refl eq_refl) as G. rewrite B1 in G. exact G.
Qed.

(* ---- ORebuild ---- *)
Lemma reg_rebuild_ext mk mk' tm c r : (forall e, mk e = mk' e) -> reg_rebuild mk tm c r = reg_rebuild mk' tm c r.
Proof.
  intros H. unfold reg_rebuild. destruct (index_of c r) as [n|]; [|reflexivity]. destruct (nth_error r n) as [[c0 p insts|c0 p ents i]|]; [| |reflexivity].
  - rewrite (map_ext _ (fun ei => (fst ei, mk' (fst ei)))); [reflexivity|]. intros ei. rewrite H. reflexivity.
  - destruct ents as [|e0 ents]; [reflexivity|]. rewrite H. reflexivity.
Qed.
Lemma rebuild_f_unfold sc a c :
  rebuild_f sc (Some a) c =
  match reg_rebuild (mk_inst sc c) (w_time (oo_world a)) c (w_reg (oo_world a)) with
  | Some (r', Some evs) => Some (mkOpOut (mkWorld (w_holds (oo_world a)) r' (w_time (oo_world a))) (oo_events a ++ evs)
                                         (oo_built a ++ built_expr c (w_reg (oo_world a))))
  | _ => None
  end.
Proof. reflexivity. Qed.

Lemma rebuild_inv w c r' evs : Inv w -> reg_rebuild (mk_inst full c) (w_time w) c (w_reg w) = Some (r', Some evs) ->
  Inv (mkWorld (w_holds w) r' (w_time w)).
Proof.
  intros [Hinv HP] Er. split; [|cbn [w_reg]; eapply reg_rebuild_Pg; [exact HP | intros e; apply HPmk | exact Er]].
  apply reg_inv_alt in Hinv. destruct Hinv as (Hwf & Hm & Hh).
  destruct (reg_rebuild_spec (mk_inst full c) (w_time w) c (w_reg w) Hwf (mk_inst_wf full c)) as (r2 & evs2 & E2 & Hshape & Hins).
  rewrite Er in E2. injection E2 as <- <-. apply reg_inv_alt. cbn [w_reg w_holds]. split; [eapply same_shape_wf; eassumption|]. split; [|exact Hh].
  intros c' e'. rewrite (same_shape_holds _ _ Hshape). apply Hm.
Qed.

Lemma rebuild_fold_sim l : forall a1 a2 r1, Inv (oo_world a1) -> OSim a1 a2 ->
  fold_left (rebuild_f full) l (Some a1) = Some r1 ->
  exists r2, fold_left (rebuild_f sub) (filter keep l) (Some a2) = Some r2 /\ Inv (oo_world r1) /\ OSim r1 r2.
Proof.
  induction l as [|c l IH]; intros a1 a2 r1 HI HS H; cbn [filter fold_left] in *.
  - injection H as <-. exists a2. split; [reflexivity|]. split; assumption.
  - rewrite rebuild_f_unfold in H.
    destruct (reg_rebuild (mk_inst full c) (w_time (oo_world a1)) c (w_reg (oo_world a1))) as [[r' [evs|]]|] eqn:Er;
      try (rewrite rebuild_f_none in H; discriminate).
    pose proof (rebuild_inv _ c r' evs HI Er) as HI'. destruct HS as (HSw & HSe & HSb). pose proof HSw as (Sh & Sr & St).
    destruct (keep c) eqn:Hk; cbn [fold_left].
    + rewrite rebuild_f_unfold, Sr, St, (reg_rebuild_ext (mk_inst sub c) (mk_inst full c) _ c _ (fun e => Hmk c e Hk)).
      destruct (reg_rebuild_keep keep (mk_inst full c) (w_time (oo_world a1)) c (w_reg (oo_world a1)) Hk) as (K1 & K2).
      rewrite K1, K2, Er. cbn [option_map fst snd].
      match type of H with fold_left _ _ (Some ?x1) = _ =>
        match goal with |- exists r2, fold_left _ _ (Some ?x2) = _ /\ _ => apply (IH x1 x2 r1 HI'); [|exact H] end end.
      unfold OSim, Sim. cbn [oo_world oo_events oo_built w_holds w_reg w_time]. split; [split; [exact Sh | split; reflexivity]|].
      rewrite !filter_app, HSe, HSb. split; reflexivity.
    + match type of H with fold_left _ _ (Some ?x1) = _ => apply (IH x1 a2 r1 HI'); [|exact H] end. destruct HI as [_ HP].
      destruct (reg_rebuild_drop keep J A I _ _ _ _ _ _ Hk HP Er) as (F1 & F2).
      unfold OSim, Sim. cbn [oo_world oo_events oo_built w_holds w_reg w_time]. split; [split; [exact Sh | split; [rewrite F1; exact Sr | exact St]]|].
      rewrite !filter_app, (F2 evs eq_refl), HSe, HSb, !app_nil_r. split; [reflexivity|].
      rewrite (filter_nothing inC (built_expr c _)); [rewrite app_nil_r; reflexivity|].
      intros p Hp. unfold inC. rewrite (built_expr_fst _ _ _ Hp). exact Hk.
Qed.

(* ---- one operation ---- *)
Definition op_agree (o1 o2 : op) : Prop :=
  match o1, o2 with
  | OSpawn e l1, OSpawn e' l2 => e = e' /\ filter keep l1 = filter keep l2
  | OInsert e c, OInsert e' c' => e = e' /\ c = c'
  | ORemove e c, ORemove e' c' => e = e' /\ c = c'
  | ODespawn e, ODespawn e' => e = e'
  | ORebuild, ORebuild => True
  | _, _ => False
  end.

Lemma apply_op_despawn sc w e :
  apply_op sc w (ODespawn e) =
  match holds_of e (w_holds w) with
  | None => Some (mkOpOut w [] [])
  | Some cs0 =>
      match fold_left (despawn_f e) (filter (fun c => memz c cs0) (s_menu sc)) (Some (mkOpOut w [] [])) with
      | Some a => Some (mkOpOut (mkWorld (del_ent e (w_holds (oo_world a))) (w_reg (oo_world a)) (w_time w)) (oo_events a) [])
      | None => None
      end
  end.
Proof. reflexivity. Qed.
Lemma apply_op_rebuild sc w : apply_op sc w ORebuild = fold_left (rebuild_f sc) (s_menu sc) (Some (mkOpOut w [] [])).
Proof. reflexivity. Qed.
Lemma apply_op_spawn sc w e cs :
  apply_op sc w (OSpawn e cs) =
  match holds_of e (w_holds w) with
  | Some _ => Some (mkOpOut w [] [])
  | None => Some (fold_left (sf sc e) cs (mkOpOut (mkWorld (w_holds w ++ [(e, [])]) (w_reg w) (w_time w)) [] []))
  end.
Proof. reflexivity. Qed.

Lemma apply_op_sim w1 w2 o1 o2 r1 : op_agree o1 o2 -> Inv w1 -> Sim w1 w2 -> apply_op full w1 o1 = Some r1 ->
  exists r2, apply_op sub w2 o2 = Some r2 /\ Inv (oo_world r1) /\ OSim r1 r2.
Proof.
  intros Ha HI HS H. pose proof HS as (Sh & Sr & St).
  destruct o1 as [e cs|e c|e c|e|], o2 as [e' cs'|e' c'|e' c'|e'|]; cbn [op_agree] in Ha; try contradiction.
  - destruct Ha as [<- Hcs]. rewrite apply_op_spawn in *. rewrite Sh, holds_of_hmap. destruct (holds_of e (w_holds w1)) as [old|] eqn:He; cbn [option_map].
    + injection H as <-. eexists. split; [reflexivity|]. split; [exact HI | apply OSim_refl_on; exact HS].
    + injection H as <-. eexists. split; [reflexivity|].
      rewrite (spawn_fold_sub e cs'), <- Hcs. apply spawn_fold_sim.
      * destruct HI as [Hinv HP]. split; [|exact HP]. cbn [oo_world].
        destruct (apply_op_inv full w1 (OSpawn e []) Hinv) as (r & Hr & Hinv'). rewrite apply_op_spawn, He in Hr. cbn [fold_left] in Hr.
        injection Hr as <-. exact Hinv'.
      * apply OSim_refl_on. unfold Sim. cbn [w_holds w_reg w_time]. split; [|split; assumption]. unfold hmap. rewrite map_app. reflexivity.
  - destruct Ha as [<- <-]. cbn [apply_op] in *. injection H as <-. eexists. split; [reflexivity|].
    destruct (insert_ctx_sim w1 w2 e c HI HS) as (G1 & G2 & _). split; assumption.
  - destruct Ha as [<- <-]. cbn [apply_op] in *. destruct (remove_ctx_sim w1 w2 e c r1 HI HS H) as (o2 & E2 & G1 & G2 & _).
    exists o2. split; [exact E2|]. split; assumption.
  - subst e'. rewrite apply_op_despawn in *. rewrite Sh, holds_of_hmap. destruct (holds_of e (w_holds w1)) as [cs0|] eqn:He; cbn [option_map].
    2:{ injection H as <-. eexists. split; [reflexivity|]. split; [exact HI | apply OSim_refl_on; exact HS]. }
    destruct (fold_left (despawn_f e) _ (Some (mkOpOut w1 [] []))) as [a1|] eqn:Ef; [|discriminate]. injection H as <-.
    destruct (despawn_fold_sim e _ (mkOpOut w1 [] []) (mkOpOut w2 [] []) a1 HI (OSim_refl_on w1 w2 [] [] HS) eq_refl eq_refl Ef) as (a2 & Ef2 & HI' & HS').
    assert (El : filter (fun c => memz c (filter keep cs0)) (s_menu sub) = filter keep (filter (fun c => memz c cs0) (s_menu full))).
    { rewrite Hmenu, (filter_ext_in' (fun c => memz c (filter keep cs0)) (fun c => memz c cs0) (filter keep (s_menu full))).
      - apply filter_filter.
      - intros x Hx. apply filter_In in Hx. apply memz_filter. tauto. }
    rewrite El, Ef2. eexists. split; [reflexivity|]. cbn [oo_world].
    destruct HS' as ((Sh' & Sr' & St') & E' & B'). split.
    + destruct HI' as [Hinv' HP']. split; [|exact HP']. destruct HI as [Hinv _].
      destruct (apply_op_inv full w1 (ODespawn e) Hinv) as (r & Hr & Hinv2). rewrite apply_op_despawn, He, Ef in Hr.
      injection Hr as <-. exact Hinv2.
    + unfold OSim, Sim. cbn [oo_world oo_events oo_built w_holds w_reg w_time]. split; [|split; [exact E' | reflexivity]].
      split; [rewrite Sh'; apply del_ent_hmap | split; assumption].
  - rewrite apply_op_rebuild in *. rewrite Hmenu.
    apply (rebuild_fold_sim _ (mkOpOut w1 [] []) (mkOpOut w2 [] []) r1 HI (OSim_refl_on w1 w2 [] [] HS) H).
Qed.

Lemma run_ops_sim ops1 : forall ops2 w1 w2 a1, Forall2 op_agree ops1 ops2 -> Inv w1 -> Sim w1 w2 -> run_ops full w1 ops1 = Some a1 ->
  exists a2, run_ops sub w2 ops2 = Some a2 /\ Inv (oo_world a1) /\ OSim a1 a2.
Proof.
  induction ops1 as [|o1 ops1 IH]; intros ops2 w1 w2 a1 Hag HI HS H; inversion Hag as [|? o2 ? ops2' Ho Hrest]; subst.
  - rewrite run_ops_nil in *. injection H as <-. eexists. split; [reflexivity|]. split; [exact HI | apply OSim_refl_on; exact HS].
  - rewrite run_ops_cons in *. destruct (apply_op full w1 o1) as [r1|] eqn:E1; [|discriminate].
    destruct (apply_op_sim w1 w2 o1 o2 r1 Ho HI HS E1) as (r2 & E2 & HI' & HS'). rewrite E2.
    destruct (run_ops full (oo_world r1) ops1) as [b1|] eqn:F1; [|discriminate]. injection H as <-.
    destruct (IH ops2' (oo_world r1) (oo_world r2) b1 Hrest HI' (proj1 HS') F1) as (b2 & F2 & HI2 & HS2). rewrite F2.
    eexists. split; [reflexivity|]. cbn [option_map prefix_out oo_world]. split; [exact HI2|].
    destruct HS' as (_ & E' & B'). destruct HS2 as (S2 & E2' & B2'). unfold OSim, prefix_out. cbn [oo_world oo_events oo_built].
    split; [exact S2|]. rewrite !filter_app, E', B', E2', B2'. split; reflexivity.
Qed.

(* ================================================================================================ *)
(* 7. frames, steps, polled data                                                                    *)
(* ================================================================================================ *)
Definition frame_agree (f1 f2 : frame_in) : Prop :=
  frame_time f1 = frame_time f2 /\ update_state (f_raw f1) = update_state (f_raw f2) /\
  (forall d j, In (d, j) J -> forall c, reader_value (f_raw f1) c d j = reader_value (f_raw f2) c d j) /\
  Forall2 op_agree (f_ops f1) (f_ops f2).

Lemma frame_sim w1 w2 f1 f2 fo1 : frame_agree f1 f2 -> Inv w1 -> Sim w1 w2 -> frame full w1 f1 = Some fo1 ->
  exists fo2, frame sub w2 f2 = Some fo2 /\ Inv (fo_world fo1) /\ Sim (fo_world fo1) (fo_world fo2) /\
    filter inAK (fo_main fo2) = filter inAK (fo_main fo1) /\ filter inAK (fo_post fo2) = filter inAK (fo_post fo1) /\
    filter (inI I) (fo_log fo2) = filter (inI I) (fo_log fo1) /\ filter inC (fo_built fo2) = filter inC (fo_built fo1).
Proof.
  intros (Ht & Hu & Hr & Hops) [Hinv HP] (Sh & Sr & St) H. unfold frame in *. rewrite Sr, <- Ht, <- Hu.
  set (tm := frame_time f1) in *. set (c0 := update_state (f_raw f1)) in *.
  assert (Hs : forall c, sees (f_raw f1) (f_raw f2) J c c) by (intros c d j Hj; apply Hr; exact Hj).
  destruct (reg_update_sim keep J A I tm (f_raw f1) (f_raw f2) (w_reg w1) c0 c0 HP (Hs c0) (Hs consumed_reset)) as (R1 & R2 & R3 & R4 & _).
  destruct (reg_update_spec tm (f_raw f2) (filter kgK (w_reg w1)) c0) as (_ & _ & Hev2).
  destruct (ro_events (reg_update tm (f_raw f1) c0 (w_reg w1))) as [main1|] eqn:E1; [|discriminate].
  destruct (ro_events (reg_update tm (f_raw f2) c0 (filter kgK (w_reg w1)))) as [main2|] eqn:E2; [|congruence].
  destruct (run_ops full (mkWorld (w_holds w1) (ro_reg (reg_update tm (f_raw f1) c0 (w_reg w1))) tm) (f_ops f1)) as [a1|] eqn:Eo; [|discriminate].
  injection H as <-.
  destruct (run_ops_sim (f_ops f1) (f_ops f2) (mkWorld (w_holds w1) (ro_reg (reg_update tm (f_raw f1) c0 (w_reg w1))) tm) (mkWorld (w_holds w2) (ro_reg (reg_update tm (f_raw f2) c0 (filter kgK (w_reg w1)))) tm) a1 Hops) as (a2 & Eo2 & HI' & HS');
    [split; [apply reg_update_inv; exact Hinv | exact R2] | unfold Sim; cbn [w_holds w_reg w_time]; split; [exact Sh | split; [exact R1 | reflexivity]] | exact Eo |].
  rewrite Eo2. eexists. split; [reflexivity|]. cbn [fo_world fo_main fo_post fo_log fo_built].
  destruct HS' as (S' & E' & B'). split; [exact HI'|]. split; [exact S'|]. split; [exact (R3 main1 main2 eq_refl eq_refl)|].
  split; [exact E'|]. split; [exact R4 | exact B'].
Qed.

Hypothesis Hents : s_ents sub = s_ents full.
Hypothesis Hcfg : forall c e, keep c = true -> cfg_lookup sub c e = cfg_lookup full c e /\ has_cfg sub c e = has_cfg full c e.

Definition snapC (s : snap_entry) : bool := match s with sn c _ _ _ => memz c (s_menu sub) end.
Definition mirC (m : mirror_entry) : bool := match m with mi c _ _ _ => memz c (s_menu sub) end.

Lemma menu_kept : filter keep (s_menu sub) = filter keep (s_menu full).
Proof. rewrite Hmenu. apply filter_idem. Qed.

Lemma snaps_sim w1 w2 : Sim w1 w2 -> filter snapC (model_snaps sub w2) = filter snapC (model_snaps full w1).
Proof.
  intros (Sh & Sr & St).
  assert (E : forall l, filter snapC l = filter (fun x => keep (match x with sn c _ _ _ => c end)) l).
  { intros l. apply filter_ext. intros [c e a s]. reflexivity. }
  rewrite !E. unfold model_snaps.
  rewrite !(filter_flat_map_tag (fun x => match x with sn c _ _ _ => c end) keep).
  - rewrite menu_kept. apply flat_map_ext_in'. intros c Hc. apply filter_In in Hc. destruct Hc as [_ Hk]. rewrite Hents.
    apply flat_map_ext. intros e. destruct (Hcfg c e Hk) as [L1 L2]. rewrite L1, L2, Sr, (reg_get_filter keep c e (w_reg w1) Hk). reflexivity.
  - intros c x Hx. apply in_flat_map in Hx. destruct Hx as (e & _ & Hx). destruct (has_cfg full c e); [|destruct Hx].
    apply in_map_iff in Hx. destruct Hx as (a & <- & _). reflexivity.
  - intros c x Hx. apply in_flat_map in Hx. destruct Hx as (e & _ & Hx). destruct (has_cfg sub c e); [|destruct Hx].
    apply in_map_iff in Hx. destruct Hx as (a & <- & _). reflexivity.
Qed.
Lemma mirror_sim w1 w2 : Sim w1 w2 -> filter mirC (model_mirror sub w2) = filter mirC (model_mirror full w1).
Proof.
  intros (Sh & Sr & St).
  assert (E : forall l, filter mirC l = filter (fun x => keep (match x with mi c _ _ _ => c end)) l).
  { intros l. apply filter_ext. intros [c e g h]. reflexivity. }
  rewrite !E. unfold model_mirror.
  rewrite !(filter_flat_map_tag (fun x => match x with mi c _ _ _ => c end) keep).
  - rewrite menu_kept. apply flat_map_ext_in'. intros c Hc. apply filter_In in Hc. destruct Hc as [_ Hk]. rewrite Hents.
    apply map_ext. intros e. rewrite Sr, (reg_get_filter keep c e (w_reg w1) Hk), Sh, holds_of_hmap.
    destruct (holds_of e (w_holds w1)) as [cs|]; cbn [option_map]; [|reflexivity]. rewrite (memz_filter keep c cs Hk). reflexivity.
  - intros c x Hx. apply in_map_iff in Hx. destruct Hx as (e & <- & _). reflexivity.
  - intros c x Hx. apply in_map_iff in Hx. destruct Hx as (e & <- & _). reflexivity.
Qed.

Definition step_agree (s1 s2 : step) : Prop :=
  match s1, s2 with
  | SOp o1, SOp o2 => op_agree o1 o2
  | SFrame f1, SFrame f2 => frame_agree f1 f2
  | _, _ => False
  end.

Lemma project_eq o1 o2 :
  filter inAK (x_pre o2) = filter inAK (x_pre o1) -> filter inAK (x_main o2) = filter inAK (x_main o1) ->
  filter inAK (x_post o2) = filter inAK (x_post o1) -> filter (inI I) (x_log o2) = filter (inI I) (x_log o1) ->
  filter snapC (x_snaps o2) = filter snapC (x_snaps o1) -> filter mirC (x_mirror o2) = filter mirC (x_mirror o1) ->
  filter inC (x_built o2) = filter inC (x_built o1) -> x_panicked o2 = x_panicked o1 ->
  project A I (s_menu sub) o1 = project A I (s_menu sub) o2.
Proof.
  intros H1 H2 H3 H4 H5 H6 H7 H8. unfold project. rewrite H8.
  f_equal; first [symmetry; first [exact H1 | exact H2 | exact H4 | exact H5 | exact H6]
                 | apply f_equal; symmetry; first [exact H3 | exact H7]].
Qed.

Theorem steps_sim steps1 : forall steps2 w1 w2, Forall2 step_agree steps1 steps2 -> Inv w1 -> Sim w1 w2 ->
  map (project A I (s_menu sub)) (run_steps full w1 steps1) = map (project A I (s_menu sub)) (run_steps sub w2 steps2).
Proof.
  induction steps1 as [|s1 steps1 IH]; intros steps2 w1 w2 Hag HI HS; inversion Hag as [|? s2 ? steps2' Hs Hrest]; subst; [reflexivity|].
  destruct s1 as [o1|f1], s2 as [o2|f2]; cbn [step_agree] in Hs; try contradiction; cbn [run_steps].
  - destruct (apply_op_inv full w1 o1 (proj1 HI)) as (r1 & E1 & _). rewrite E1.
    destruct (apply_op_sim w1 w2 o1 o2 r1 Hs HI HS E1) as (r2 & E2 & HI' & HS'). rewrite E2. cbn [map]. f_equal.
    + destruct HS' as (S' & E' & B'). apply project_eq; cbn [x_pre x_main x_post x_log x_snaps x_mirror x_built x_panicked]; try reflexivity; try assumption.
      * apply snaps_sim; exact S'.
      * apply mirror_sim; exact S'.
    + apply IH; [exact Hrest | exact HI' | exact (proj1 HS')].
  - destruct (frame_inv full w1 f1 (proj1 HI)) as (fo1 & E1 & _). rewrite E1.
    destruct (frame_sim w1 w2 f1 f2 fo1 Hs HI HS E1) as (fo2 & E2 & HI' & HS' & M & P & L & B). rewrite E2. cbn [map]. f_equal.
    + apply project_eq; cbn [x_pre x_main x_post x_log x_snaps x_mirror x_built x_panicked]; try reflexivity; try assumption.
      * apply snaps_sim; exact HS'.
      * apply mirror_sim; exact HS'.
    + apply IH; [exact Hrest | exact HI' | exact HS'].
Qed.
End WorldSim.

(* ================================================================================================ *)
(* 8. decidable equality of scenarios (the two full runs are runs of the SAME configuration)        *)
(* ================================================================================================ *)
Create HintDb deqdb.
Ltac deq := intros; first [ apply Z.eq_dec | apply Pos.eq_dec | apply N.eq_dec | apply Bool.bool_dec | apply Q_eq_dec
                          | solve [auto with deqdb] | (apply list_eq_dec; deq) | (decide equality; deq) ].
Definition input_eq_dec (a b : input) : {a = b} + {a <> b}. Proof. deq. Defined.
#[export] Hint Resolve input_eq_dec : deqdb.
#[export] Hint Resolve value_eq_dec : deqdb.
Definition pad_eq_dec (a b : pad) : {a = b} + {a <> b}. Proof. deq. Defined.
#[export] Hint Resolve pad_eq_dec : deqdb.
Definition raw_eq_dec (a b : raw) : {a = b} + {a <> b}. Proof. deq. Defined.
#[export] Hint Resolve raw_eq_dec : deqdb.
Definition op_eq_dec (a b : op) : {a = b} + {a <> b}. Proof. deq. Defined.
#[export] Hint Resolve op_eq_dec : deqdb.
Definition frame_in_eq_dec (a b : frame_in) : {a = b} + {a <> b}. Proof. deq. Defined.
#[export] Hint Resolve frame_in_eq_dec : deqdb.
Definition step_eq_dec (a b : step) : {a = b} + {a <> b}. Proof. deq. Defined.
#[export] Hint Resolve step_eq_dec : deqdb.
Definition state_eq_dec (a b : state) : {a = b} + {a <> b}. Proof. deq. Defined.
#[export] Hint Resolve state_eq_dec : deqdb.
Definition ckind_eq_dec (a b : ckind) : {a = b} + {a <> b}. Proof. deq. Defined.
#[export] Hint Resolve ckind_eq_dec : deqdb.
Definition timer_eq_dec (a b : timer) : {a = b} + {a <> b}. Proof. deq. Defined.
#[export] Hint Resolve timer_eq_dec : deqdb.
Definition cond_eq_dec (a b : cond) : {a = b} + {a <> b}. Proof. deq. Defined.
#[export] Hint Resolve cond_eq_dec : deqdb.
Definition mout_eq_dec (a b : mout) : {a = b} + {a <> b}. Proof. deq. Defined.
#[export] Hint Resolve mout_eq_dec : deqdb.
Definition modif_eq_dec (a b : modif) : {a = b} + {a <> b}. Proof. deq. Defined.
#[export] Hint Resolve modif_eq_dec : deqdb.
Definition bind_spec_eq_dec (a b : bind_spec) : {a = b} + {a <> b}. Proof. deq. Defined.
#[export] Hint Resolve bind_spec_eq_dec : deqdb.
Definition action_spec_eq_dec (a b : action_spec) : {a = b} + {a <> b}. Proof. deq. Defined.
#[export] Hint Resolve action_spec_eq_dec : deqdb.
Definition inst_spec_eq_dec (a b : inst_spec) : {a = b} + {a <> b}. Proof. deq. Defined.
#[export] Hint Resolve inst_spec_eq_dec : deqdb.
Definition cfg_eq_dec (a b : list (ctx * entity * inst_spec)) : {a = b} + {a <> b}. Proof. deq. Defined.
#[export] Hint Resolve cfg_eq_dec : deqdb.
Definition scenario_eq_dec (a b : scenario) : {a = b} + {a <> b}. Proof. deq. Defined.

(* ================================================================================================ *)
(* 9. the profile of the generator (gen/C17.py, generators gen_pair and gen_gamepad_pair) and soundness *)
(* ================================================================================================ *)
Fixpoint forall2b {X Y} (f : X -> Y -> bool) (l1 : list X) (l2 : list Y) : bool :=
  match l1, l2 with
  | [], [] => true
  | x :: r, y :: s => f x y && forall2b f r s
  | _, _ => false
  end.
Lemma forall2b_Forall2 {X Y} (f : X -> Y -> bool) (R : X -> Y -> Prop) : (forall x y, f x y = true -> R x y) ->
  forall l1 l2, forall2b f l1 l2 = true -> Forall2 R l1 l2.
Proof.
  intros H. induction l1 as [|x l1 IH]; intros [|y l2] E; cbn [forall2b] in E; try discriminate; [constructor|].
  apply andb_true_iff in E. destruct E as [E1 E2]. constructor; [apply H; exact E1 | apply IH; exact E2].
Qed.
Lemma list_eqb_Z_eq l1 : forall l2, list_eqb Z.eqb l1 l2 = true -> l1 = l2.
Proof.
  induction l1 as [|x l1 IH]; intros [|y l2] E; cbn [list_eqb] in E; try discriminate; [reflexivity|].
  apply andb_true_iff in E. destruct E as [E1 E2]. apply Z.eqb_eq in E1. subst y. f_equal. apply IH. exact E2.
Qed.

Section Profile.
Variables full sub : scenario.
Definition keepb (c : Z) : bool := memz c (s_menu sub).
(* what the kept context types can read, emit and log *)
Definition kept_reads : list read :=
  flat_map (fun x => if keepb (fst (fst x)) then reads_of_inst (instantiate (snd x)) else []) (s_cfg full).
Definition kept_acts : list Z := actions_of full (s_menu sub).
Definition kept_ids : list Z := ids_of_ctxs full (s_menu sub).

(* an instance of a deleted type: its reads are unrelated (Spec/ReadSpec.related) to every kept read, its actions and
   its condition / modifier ids are not those of a kept type *)
Definition drb (i : inst) : bool :=
  forallb (fun p => forallb (fun q => negb (related (fst p) (fst q) (snd p) (snd q))) kept_reads) (reads_of_inst i) &&
  forallb (fun a => negb (memz a kept_acts)) (iacts i) && forallb (fun x => negb (memz x kept_ids)) (iids i).
Definition p_disj : bool := forallb (fun x => keepb (fst (fst x)) || drb (instantiate (snd x))) (s_cfg full).

Definition op_agreeb (o1 o2 : op) : bool :=
  match o1, o2 with
  | OSpawn e l1, OSpawn e' l2 => Z.eqb e e' && list_eqb Z.eqb (filter keepb l1) (filter keepb l2)
  | OInsert e c, OInsert e' c' => Z.eqb e e' && Z.eqb c c'
  | ORemove e c, ORemove e' c' => Z.eqb e e' && Z.eqb c c'
  | ODespawn e, ODespawn e' => Z.eqb e e'
  | ORebuild, ORebuild => true
  | _, _ => false
  end.
Definition frame_agreeb (f1 f2 : frame_in) : bool :=
  (if Q_eq_dec (f_real f1) (f_real f2) then true else false) && (if Q_eq_dec (f_speed f1) (f_speed f2) then true else false) &&
  Bool.eqb (f_paused f1) (f_paused f2) &&
  Bool.eqb (c_ui_mouse (update_state (f_raw f1))) (c_ui_mouse (update_state (f_raw f2))) &&
  forallb (fun p => same_forb (fst p) (snd p) (f_raw f1) (f_raw f2)) kept_reads &&
  forall2b op_agreeb (f_ops f1) (f_ops f2).
Definition step_agreeb (s1 s2 : step) : bool :=
  match s1, s2 with
  | SOp o1, SOp o2 => op_agreeb o1 o2
  | SFrame f1, SFrame f2 => frame_agreeb f1 f2
  | _, _ => false
  end.

Definition p_menu : bool := list_eqb Z.eqb (s_menu sub) (filter keepb (s_menu full)).
Definition p_branch : bool := negb (list_eqb Z.eqb (s_menu full) (s_menu sub)).
Definition p_ents : bool := list_eqb Z.eqb (s_ents sub) (s_ents full).
Definition p_cfg : bool := if cfg_eq_dec (s_cfg sub) (filter (fun x => keepb (fst (fst x))) (s_cfg full)) then true else false.
Definition p_prio : bool := JudgeC12P.nodupz (map ctx_prio (s_menu full)).
Definition p_steps : bool := forall2b step_agreeb (s_steps full) (s_steps sub).
Definition profile_pair : bool := p_branch && p_menu && p_ents && p_cfg && p_prio && p_disj && p_steps.

Lemma op_agreeb_sound o1 o2 : op_agreeb o1 o2 = true -> op_agree sub o1 o2.
Proof.
  destruct o1, o2; cbn [op_agreeb op_agree]; try discriminate; try (intros _; exact Logic.I); intros H.
  - apply andb_true_iff in H. destruct H as [H1 H2]. apply Z.eqb_eq in H1. split; [exact H1 | apply list_eqb_Z_eq; exact H2].
  - apply andb_true_iff in H. destruct H as [H1 H2]. apply Z.eqb_eq in H1, H2. split; assumption.
  - apply andb_true_iff in H. destruct H as [H1 H2]. apply Z.eqb_eq in H1, H2. split; assumption.
  - apply Z.eqb_eq in H. exact H.
Qed.
Lemma frame_agreeb_sound f1 f2 : frame_agreeb f1 f2 = true -> frame_agree sub kept_reads f1 f2.
Proof.
  unfold frame_agreeb. intros H. repeat (apply andb_true_iff in H; destruct H as [H ?]).
  destruct (Q_eq_dec (f_real f1) (f_real f2)) as [Er|]; [|discriminate].
  destruct (Q_eq_dec (f_speed f1) (f_speed f2)) as [Es|]; [|discriminate].
  match goal with Hp : Bool.eqb (f_paused f1) _ = true |- _ => apply Bool.eqb_prop in Hp; rename Hp into Ep end.
  match goal with Hu : Bool.eqb (c_ui_mouse _) _ = true |- _ => apply Bool.eqb_prop in Hu; rename Hu into Eu end.
  split; [unfold frame_time; rewrite Er, Es, Ep; reflexivity|]. split.
  - unfold update_state in *. cbn [c_ui_mouse] in Eu. rewrite Eu. reflexivity.
  - split.
    + intros d j Hj. apply same_forb_sound.
      match goal with Hf : forallb _ kept_reads = true |- _ => rewrite forallb_forall in Hf; exact (Hf (d, j) Hj) end.
    + eapply forall2b_Forall2; [exact op_agreeb_sound | eassumption].
Qed.
Lemma step_agreeb_sound s1 s2 : step_agreeb s1 s2 = true -> step_agree sub kept_reads s1 s2.
Proof.
  destruct s1, s2; cbn [step_agreeb step_agree]; try discriminate; [apply op_agreeb_sound | apply frame_agreeb_sound].
Qed.

Lemma cfg_lookup_cases' sc c e :
  cfg_lookup sc c e = mkSpec None [] \/ exists x, In x (s_cfg sc) /\ fst (fst x) = c /\ cfg_lookup sc c e = snd x.
Proof.
  unfold cfg_lookup. match goal with |- context [find ?f ?l] => destruct (find f l) as [x|] eqn:E end; [|left; reflexivity]. right. exists x.
  apply find_some in E. destruct E as [E1 E2]. apply andb_true_iff in E2. destruct E2 as [E2 _]. apply Z.eqb_eq in E2.
  split; [exact E1|]. split; [exact E2 | reflexivity].
Qed.

Lemma drb_sound i : drb i = true -> Dr kept_reads kept_acts kept_ids i.
Proof.
  unfold drb. intros H. apply andb_true_iff in H. destruct H as [H H3]. apply andb_true_iff in H. destruct H as [H1 H2].
  rewrite forallb_forall in H1, H2, H3. split; [|split].
  - intros di i0 dj j Hi Hj. specialize (H1 (di, i0) Hi). cbn [fst snd] in H1. rewrite forallb_forall in H1.
    specialize (H1 (dj, j) Hj). cbn [fst snd] in H1. apply negb_true_iff in H1. exact H1.
  - intros a Ha Hin. specialize (H2 a Ha). apply negb_true_iff in H2. apply RegistryP.memz_in in Hin. congruence.
  - intros a Ha Hin. specialize (H3 a Ha). apply negb_true_iff in H3. apply RegistryP.memz_in in Hin. congruence.
Qed.

Lemma profile_Pmk : p_disj = true -> forall c e, Pi keepb kept_reads kept_acts kept_ids c (mk_inst full c e).
Proof.
  intros Hd c e. unfold mk_inst. destruct (cfg_lookup_cases' full c e) as [->|(x & Hx & Hc & ->)].
  - unfold Pi. destruct (keepb c); [intros y []|]. split; [intros di i dj j []|]. split; intros a [].
  - destruct x as [[cx ex] sx]. cbn [fst snd] in *. subst cx. unfold Pi. destruct (keepb c) eqn:Hk.
    + intros y Hy. unfold kept_reads. apply in_flat_map. exists (c, ex, sx). split; [exact Hx|]. cbn [fst snd]. rewrite Hk. exact Hy.
    + unfold p_disj in Hd. rewrite forallb_forall in Hd. specialize (Hd _ Hx). cbn [fst snd] in Hd. rewrite Hk in Hd. cbn [orb] in Hd.
      apply drb_sound. exact Hd.
Qed.

Lemma existsb_filter_keep (l : list (ctx * entity * inst_spec)) c e : keepb c = true ->
  existsb (fun x => Z.eqb (fst (fst x)) c && Z.eqb (snd (fst x)) e) (filter (fun x => keepb (fst (fst x))) l) =
  existsb (fun x => Z.eqb (fst (fst x)) c && Z.eqb (snd (fst x)) e) l.
Proof.
  intros Hk. induction l as [|[[cx ex] sx] l IH]; [reflexivity|]. cbn [filter fst snd]. destruct (keepb cx) eqn:Ex; cbn [existsb fst snd].
  - rewrite IH. reflexivity.
  - rewrite IH. destruct (Z.eqb cx c) eqn:Ec; [|reflexivity]. apply Z.eqb_eq in Ec. subst cx. congruence.
Qed.
Lemma profile_cfg : p_cfg = true -> forall c e, keepb c = true ->
  cfg_lookup sub c e = cfg_lookup full c e /\ has_cfg sub c e = has_cfg full c e.
Proof.
  unfold p_cfg. destruct (cfg_eq_dec _ _) as [E|]; [|discriminate]. intros _ c e Hk. unfold cfg_lookup, has_cfg. rewrite E. split.
  - rewrite JudgeC12P.find_filter_imp; [reflexivity|]. intros [[cx ex] sx] Hx. cbn [fst snd] in *. apply andb_true_iff in Hx. destruct Hx as [Hx _].
    apply Z.eqb_eq in Hx. subst cx. exact Hk.
  - apply existsb_filter_keep. exact Hk.
Qed.

Lemma profile_prio : p_prio = true -> forall c1 c2, In c1 (s_menu full) -> In c2 (s_menu full) -> ctx_prio c1 = ctx_prio c2 -> c1 = c2.
Proof. intros H c1 c2 H1 H2 E. apply JudgeC12P.nodupz_spec in H. exact (JudgeC12P.NoDup_map_inj ctx_prio _ c1 c2 H H1 H2 E). Qed.

Theorem pair_sound : profile_pair = true ->
  map (project kept_acts kept_ids (s_menu sub)) (run full) = map (project kept_acts kept_ids (s_menu sub)) (run sub).
Proof.
  unfold profile_pair. intros H. repeat (apply andb_true_iff in H; destruct H as [H ?]).
  match goal with Hm : p_menu = true |- _ => apply list_eqb_Z_eq in Hm; rename Hm into Hmenu end.
  match goal with Hm : p_ents = true |- _ => apply list_eqb_Z_eq in Hm; rename Hm into Hents end.
  match goal with Hm : p_cfg = true |- _ => pose proof (profile_cfg Hm) as Hcfg end.
  match goal with Hm : p_prio = true |- _ => pose proof (profile_prio Hm) as Hprio end.
  match goal with Hm : p_disj = true |- _ => pose proof (profile_Pmk Hm) as HPmk end.
  match goal with Hm : p_steps = true |- _ => pose proof (forall2b_Forall2 _ _ step_agreeb_sound _ _ Hm) as Hsteps end.
  unfold run. apply (steps_sim full sub kept_reads kept_acts kept_ids Hmenu); try assumption.
  - intros c e Hk. unfold mk_inst. destruct (Hcfg c e Hk) as [-> _]. reflexivity.
  - split; [apply reg_inv_init | constructor].
  - repeat split.
Qed.
End Profile.

Definition model_out (mc : mcase) : mtrace_t := match mc with multi scs => mtrace (map (fun sc => trace (run sc)) scs) end.

Definition profile_C17b (mc : mcase) : bool :=
  match mc with
  | multi [full; sub; full2] => (if scenario_eq_dec full full2 then true else false) && profile_pair full sub
  | _ => false
  end.
Definition profile_C17 (mc : mcase) : Prop := profile_C17b mc = true.

Theorem C17_app_judgement_sound : forall mc, profile_C17 mc -> C17c.ok (mc, model_out mc) = 0%Z.
Proof.
  intros [scs] H. unfold profile_C17, profile_C17b in H.
  destruct scs as [|full [|sub [|full2 [|x r]]]]; try discriminate.
  apply andb_true_iff in H. destruct H as [H1 H2]. destruct (scenario_eq_dec full full2) as [<-|]; [|discriminate].
  cbn [model_out map C17c.ok]. rewrite outs_eq_refl. cbn [Z.eqb negb].
  assert (Hb : list_eqb Z.eqb (s_menu full) (s_menu sub) = false).
  { unfold profile_pair in H2. repeat (apply andb_true_iff in H2; destruct H2 as [H2 ?]). unfold p_branch in H2. apply negb_true_iff in H2. exact H2. }
  rewrite Hb. change (actions_of full (s_menu sub)) with (kept_acts full sub). change (ids_of_ctxs full (s_menu sub)) with (kept_ids full sub).
  rewrite (pair_sound full sub H2). apply outs_eq_refl.
Qed.

(* ================================================================================================ *)
(* 10. the profile is satisfiable; every conjunct of it is needed; transfer                         *)
(* ================================================================================================ *)
Definition xkey (k : Z) (a : Z) : inst_spec := mkSpec None [mkAction a [] [] [mkBind (IKey k 0) [] []]].
Definition xraw (ks : list Z) : raw := mkRaw ks [] (0#1, 0#1)%Q (0#1, 0#1)%Q [] [].
Definition xfr (ks : list Z) : step := SFrame (mkFrame (1#64) (1#1) false 0 (xraw ks) []).
(* context type 0 (priority 30, a consuming action on key 1) is deleted, type 2 (key 2) is kept; the run without type 0
   also has activity on key 7 and on a Shift key that nobody binds; a rebuild in the middle *)
Definition xsteps (noise : list Z) : list step :=
  [SOp (OSpawn 0 [0; 2]); xfr noise; xfr ([1; 2] ++ noise); xfr ([2] ++ noise); SOp ORebuild; xfr noise; xfr ([1; 2] ++ noise); xfr noise].
Definition ex_full : scenario := mkScenario [0; 2] [0] [((0, 0), xkey 1 2); ((2, 0), xkey 2 4)] (xsteps []).
Definition ex_sub : scenario := mkScenario [2] [0] [((2, 0), xkey 2 4)] (xsteps [7; 101]).
Definition ex_case : mcase := multi [ex_full; ex_sub; ex_full].
Definition fired (sc : scenario) : bool :=
  existsb (fun o => existsb (fun s => match s with sn _ _ _ (Some d) => state_eqb (sn_state d) SFired | _ => false end) (x_snaps o)) (run sc).
Example C17_profile_satisfiable :
  profile_C17 ex_case /\ C17c.ok (ex_case, model_out ex_case) = 0 /\ fired ex_full = true /\ fired ex_sub = true.
Proof. vm_compute. repeat split. Qed.

Definition parts f s := (p_branch f s, p_menu f s, p_ents f s, p_cfg f s, p_prio f, p_disj f s, p_steps f s).
Definition okm (f s f2 : scenario) : Z := C17c.ok (multi [f; s; f2], model_out (multi [f; s; f2])).

(* the deleted type consumes the key the kept type binds *)
Definition nd_full : scenario := mkScenario [0; 2] [0] [((0, 0), xkey 2 2); ((2, 0), xkey 2 4)] (xsteps []).
Example C17_app_judgement_sound_needs_disjoint :
  parts nd_full ex_sub = (true, true, true, true, true, false, true) /\ okm nd_full ex_sub nd_full = 2.
Proof. vm_compute. split; reflexivity. Qed.
(* the third scenario is not the first one *)
Definition ns_full2 : scenario := mkScenario [0; 2] [0] [((0, 0), xkey 1 2); ((2, 0), xkey 2 4)] (xsteps [1]).
Example C17_app_judgement_sound_needs_same_configuration :
  profile_pair ex_full ex_sub = true /\ okm ex_full ex_sub ns_full2 = 22.
Proof. vm_compute. split; reflexivity. Qed.
(* the run without the deleted type presses a key the kept type binds *)
Definition nst_sub : scenario := mkScenario [2] [0] [((2, 0), xkey 2 4)] (xsteps [2; 7]).
Example C17_app_judgement_sound_needs_steps :
  parts ex_full nst_sub = (true, true, true, true, true, true, false) /\ okm ex_full nst_sub ex_full = 2.
Proof. vm_compute. split; reflexivity. Qed.
(* the kept type is configured differently *)
Definition nc_sub : scenario := mkScenario [2] [0] [((2, 0), xkey 1 4)] (xsteps [7]).
Example C17_app_judgement_sound_needs_cfg :
  parts ex_full nc_sub = (true, true, true, false, true, true, true) /\ okm ex_full nc_sub ex_full = 2.
Proof. vm_compute. split; reflexivity. Qed.
(* different entity slots *)
Definition ne_sub : scenario := mkScenario [2] [] [((2, 0), xkey 2 4)] (xsteps [7]).
Example C17_app_judgement_sound_needs_ents :
  parts ex_full ne_sub = (true, true, false, true, true, true, true) /\ okm ex_full ne_sub ex_full = 5.
Proof. vm_compute. split; reflexivity. Qed.
(* the menu of the sub-configuration has a type the full configuration does not register *)
Definition nm_steps : list step := [SOp (OSpawn 0 [0; 2; 4]); xfr []; xfr [1; 2]; xfr []].
Definition nm_full : scenario := mkScenario [0; 2] [0] [((0, 0), xkey 1 2); ((2, 0), xkey 2 4)] nm_steps.
Definition nm_sub : scenario := mkScenario [2; 4] [0] [((2, 0), xkey 2 4)] nm_steps.
Example C17_app_judgement_sound_needs_menu :
  parts nm_full nm_sub = (true, false, true, true, true, true, true) /\ okm nm_full nm_sub nm_full = 6.
Proof. vm_compute. split; reflexivity. Qed.
(* four types of EQUAL priority (types above 7 are outside the harness; the model gives them priority 5): the binary
   search inserts a new group before the last one, so deleting the type registered first changes the relative order
   of the others, here of 8 (consumes key 1) and 9 (binds key 1) *)
Definition np_steps : list step := [SOp (OSpawn 0 [7; 8; 9; 10]); xfr []; xfr [1; 2]; xfr [1]; xfr []].
Definition np_cfg := [((8, 0), xkey 1 2); ((9, 0), xkey 1 4); ((10, 0), xkey 3 8)].
Definition np_full : scenario := mkScenario [7; 8; 9; 10] [0] (((7, 0), xkey 2 12) :: np_cfg) np_steps.
Definition np_sub : scenario := mkScenario [8; 9; 10] [0] np_cfg np_steps.
Example C17_app_judgement_sound_needs_prio :
  parts np_full np_sub = (true, true, true, true, false, true, true) /\ okm np_full np_sub np_full = 2.
Proof. vm_compute. split; reflexivity. Qed.
(* same menu: the judgement takes its entity branch (not covered here), which drops the outputs of operations on
   entities outside s_ents from the full trace only *)
Definition nb : scenario := mkScenario [0] [0] [((0, 0), xkey 1 2)] [SOp (OSpawn 0 [0]); SOp (OInsert 5 0); xfr [1]].
Example C17_app_judgement_sound_needs_branch :
  parts nb nb = (false, true, true, true, true, true, true) /\ okm nb nb nb = 9.
Proof. vm_compute. split; reflexivity. Qed.

(* TRANSFER DOES NOT HOLD for the determinism clauses: [agree] compares the events of an operation step up to the order
   ACROSS context types (Check/App.v ctx_key), the judgement's clause 22 compares the two full runs in exact order.
   Below the third trace is the model's own trace with the two closing events of the rebuild step (one of type 0, one of
   type 2) swapped: it agrees with the model, and the judgement answers 22. *)
Definition tr_steps : list step := [SOp (OSpawn 0 [0; 2]); xfr []; xfr [1; 2]; SOp ORebuild; xfr []].
Definition tr_full : scenario := mkScenario [0; 2] [0] [((0, 0), xkey 1 2); ((2, 0), xkey 2 4)] tr_steps.
Definition tr_sub : scenario := mkScenario [2] [0] [((2, 0), xkey 2 4)] tr_steps.
Definition rev_main (o : out) : out :=
  mkOut (x_pre o) (rev (x_main o)) (x_post o) (x_log o) (x_snaps o) (x_mirror o) (x_built o) (x_probe o) (x_update o) (x_panicked o).
Definition tr_t3 : list out := match run tr_full with [a; b; c; d; e] => [a; b; c; rev_main d; e] | l => l end.
Definition tr_case := multi [tr_full; tr_sub; tr_full].
Definition tr_out := mtrace [trace (run tr_full); trace (run tr_sub); trace tr_t3].
Example C17_app_judgement_transfer_refuted :
  profile_C17 tr_case /\ C17c.agree (tr_case, tr_out) = true /\ C17c.ok (tr_case, tr_out) = 22.
Proof. vm_compute. repeat split. Qed.

Print Assumptions C17_app_judgement_sound.
Print Assumptions pair_sound.
Print Assumptions steps_sim.
Print Assumptions reg_update_sim.
