(* C02: well-formed activation episodes.  An acceptor over the chunks of event kinds that one
   (entity, action) receives: one chunk per frame, one closing chunk per deactivation. *)
From BEI Require Import Model.State Spec.Events.

Inductive acc := Idle | Open (s : state).
Definition acc_of (s : state) : acc := match s with SNone => Idle | _ => Open s end.

Definition frame_chunk (a : acc) (ks : list evkind) : option acc :=
  match a, ks with
  | Idle, [] => Some Idle
  | Idle, [EStarted; EOngoing] => Some (Open SOngoing)
  | Idle, [EStarted; EFired] => Some (Open SFired)
  | Open SOngoing, [EOngoing] | Open SFired, [EOngoing] => Some (Open SOngoing)
  | Open SOngoing, [EFired] | Open SFired, [EFired] => Some (Open SFired)
  | Open SOngoing, [ECanceled] => Some Idle
  | Open SFired, [ECompleted] => Some Idle
  | _, _ => None
  end.

(* deactivation: an open episode gets exactly its terminal event, an idle action nothing *)
Definition close_chunk (a : acc) (ks : list evkind) : bool :=
  match a, ks with
  | Idle, [] => true
  | Open SOngoing, [ECanceled] => true
  | Open SFired, [ECompleted] => true
  | _, _ => false
  end.

(* a whole history of frames: the chunks that ActionData::update produces *)
Fixpoint chunks_of (p : state) (h : list state) : list (list evkind) :=
  match h with [] => [] | c :: r => table p c :: chunks_of c r end.
Fixpoint accepts (a : acc) (cs : list (list evkind)) : option acc :=
  match cs with
  | [] => Some a
  | k :: r => match frame_chunk a k with Some a' => accepts a' r | None => None end
  end.
