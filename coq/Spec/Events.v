(* The documented transition table (doc comment of ActionEvents, src/input_context/events.rs),
   written independently of the match in Model/State.v.  [Started] comes first. *)
From BEI Require Import Model.State.

Definition table (previous current : state) : list evkind :=
  match previous with
  | SNone => match current with SNone => [] | SOngoing => [EStarted; EOngoing] | SFired => [EStarted; EFired] end
  | SOngoing => match current with SNone => [ECanceled] | SOngoing => [EOngoing] | SFired => [EFired] end
  | SFired => match current with SNone => [ECompleted] | SOngoing => [EOngoing] | SFired => [EFired] end
  end.

(* which durations each kind of event carries *)
Definition carries_elapsed (k : evkind) : bool := match k with EStarted => false | _ => true end.
Definition carries_fired (k : evkind) : bool := match k with EFired | ECompleted => true | _ => false end.

(* the declarative reading of "durations follow the state history": over the frames so far,
   most recent first, each with the state the action had BEFORE that frame and the frame's delta *)
Fixpoint sum_while (p : state -> bool) (l : list (state * Q)) : Q :=
  match l with
  | [] => 0
  | (s, dt) :: r => if p s then dt + sum_while p r else 0
  end.
Definition not_none (s : state) : bool := negb (state_eqb s SNone).
Definition is_fired (s : state) : bool := state_eqb s SFired.
Definition elapsed_spec (rprev : list (state * Q)) : Q := sum_while not_none rprev.
Definition fired_spec (rprev : list (state * Q)) : Q := sum_while is_fired rprev.

(* running ActionData::update over a history of (new state, delta, value); also returns the
   list of (previous state, delta), most recent first *)
Fixpoint run_data (d : data) (rprev : list (state * Q)) (h : list (state * Q * value)) : data * list (state * Q) :=
  match h with
  | [] => (d, rprev)
  | (s, dt, v) :: r => run_data (data_update dt d s v) ((d_state d, dt) :: rprev) r
  end.
