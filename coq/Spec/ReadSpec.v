(* C15 / C16 / C05: what a binding reads, stated from the raw input alone. *)
From BEI Require Import Model.Reader.
Open Scope Z_scope.

(* for every required modifier the left or the right key is down *)
Definition mods_down (keys : list Z) (mods : Z) : bool :=
  forallb (fun i => implb (Z.testbit mods i) (memz (100 + 2 * i) keys || memz (101 + 2 * i) keys)) [0; 1; 2; 3].

Definition axis_on (p : pad) (a : Z) : option Q :=
  match find (fun kv => Z.eqb (fst kv) a) (pad_axes p) with Some kv => Some (snd kv) | None => None end.
Definition pad_by_id (r : raw) (id : Z) : option pad := find (fun p => Z.eqb (pad_id p) id) (r_pads r).

(* the read with nothing consumed; [ui] says whether some UI element is hovered or pressed *)
Definition spec_read (r : raw) (ui : bool) (dev : device) (i : input) : value :=
  match i with
  | IKey k mods => VB (memz k (r_keys r) && mods_down (r_keys r) mods)
  | IMouseButton b mods => VB (negb ui && memz b (r_mbuttons r) && mods_down (r_keys r) mods)
  | IMotion mods => if negb ui && mods_down (r_keys r) mods then V2 (fst (r_motion r)) (snd (r_motion r)) else V2 0 0
  | IWheel mods => if negb ui && mods_down (r_keys r) mods then V2 (fst (r_wheel r)) (snd (r_wheel r)) else V2 0 0
  | IPadButton b =>
      match dev with
      | Some id => VB (match pad_by_id r id with Some p => memz b (pad_buttons p) | None => false end)
      | None => VB (existsb (fun p => memz b (pad_buttons p)) (r_pads r))
      end
  | IPadAxis a =>
      match dev with
      | Some id => V1 (match pad_by_id r id with Some p => match axis_on p a with Some x => x | None => 0%Q end | None => 0%Q end)
      | None => V1 (match find (fun p => match axis_on p a with Some x => qnz x | None => false end) (r_pads r) with
                    | Some p => match axis_on p a with Some x => x | None => 0%Q end
                    | None => 0%Q end)
      end
  end.

Definition ui_any (r : raw) : bool := existsb (fun i => negb (Z.eqb i 0)) (r_ui r).
Definition is_mouse (i : input) : bool :=
  match i with IMouseButton _ _ | IMotion _ | IWheel _ => true | _ => false end.
Definition zero_of (i : input) : value :=
  match i with IKey _ _ | IMouseButton _ _ | IPadButton _ => VB false | IMotion _ | IWheel _ => V2 0 0 | IPadAxis _ => V1 0 end.

(* C05: consuming input i (by a context using device di) can change what j reads (under device dj) *)
Definition mods_of (i : input) : Z :=
  match i with IKey _ m | IMouseButton _ m | IMotion m | IWheel m => m | _ => 0 end.
Definition takes_mods (j : input) : bool :=
  match j with IKey _ _ | IMouseButton _ _ | IMotion _ | IWheel _ => true | _ => false end.
Definition related (di dj : device) (i j : input) : bool :=
  (takes_mods j && negb (Z.eqb (Z.land (mods_of i) (mods_of j)) 0)) ||
  match i, j with
  | IKey k _, IKey k' _ => Z.eqb k k'
  | IMouseButton b _, IMouseButton b' _ => Z.eqb b b'
  | IMotion _, IMotion _ => true
  | IWheel _, IWheel _ => true
  | IPadButton b, IPadButton b' => Z.eqb b b' && device_eqb dj di
  | IPadAxis a, IPadAxis a' => Z.eqb a a' && device_eqb dj di
  | _, _ => false
  end.
