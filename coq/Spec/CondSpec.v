(* C11: history-based (stateless) meaning of the built-in conditions.  A history is the list of
   (actuated?, tick) of the evaluations so far, MOST RECENT FIRST, where tick is the amount the
   condition's timer advances for that evaluation. *)
From BEI Require Import Model.Cond.

Definition hist := list (bool * Q).
Definition act_now (rh : hist) : bool := match rh with (a, _) :: _ => a | [] => false end.
Definition tick_now (rh : hist) : Q := match rh with (_, t) :: _ => t | [] => 0 end.
Definition act_prev (rh : hist) : bool := act_now (tl rh).
(* time the input has been actuated continuously up to and including the current evaluation *)
Fixpoint held (rh : hist) : Q :=
  match rh with [] => 0 | (a, t) :: r => if a then t + held r else 0 end.

Definition spec_press (rh : hist) : state := if act_now rh then SFired else SNone.
Definition spec_just_press (rh : hist) : state :=
  if act_now rh && negb (act_prev rh) then SFired else SNone.
Definition spec_release (rh : hist) : state :=
  if act_now rh then SOngoing else if act_prev rh then SFired else SNone.
(* Hold: ready once the continuous actuation has lasted T *)
Definition ready (T : Q) (rh : hist) : bool := qleb T (held rh).
Definition spec_hold (T : Q) (one_shot : bool) (rh : hist) : state :=
  if ready T rh then (if one_shot && ready T (tl rh) then SNone else SFired)
  else if act_now rh then SOngoing else SNone.
(* HoldAndRelease: fires on the release frame iff the actuation that just ended, counted up to
   the release frame, lasted at least T *)
Definition spec_hold_and_release (T : Q) (rh : hist) : state :=
  if act_now rh then SOngoing
  else if act_prev rh && qleb T (held (tl rh) + tick_now rh) then SFired else SNone.
(* Tap: fires on the release frame iff the actuation that just ended lasted at most T *)
Definition spec_tap (T : Q) (rh : hist) : state :=
  if act_prev rh && negb (act_now rh) && qleb (held (tl rh)) T then SFired
  else if act_now rh && qltb (held rh) T then SOngoing else SNone.
(* Pulse: number of fires inside the current actuation run *)
Definition pulse_due (iv : Q) (lim : Z) (os : bool) (c : Z) (h : Q) : bool :=
  (Z.eqb lim 0 || Z.ltb c lim) && qleb (iv * inject_Z (if os then c else (c + 1)%Z)) h.
Fixpoint pulse_count (iv : Q) (lim : Z) (os : bool) (rh : hist) : Z :=
  match rh with
  | [] => 0%Z
  | (a, t) :: r =>
      if a then let c := pulse_count iv lim os r in
                if pulse_due iv lim os c (held rh) then (c + 1)%Z else c
      else 0%Z
  end.
Definition spec_pulse (iv : Q) (lim : Z) (os : bool) (rh : hist) : state :=
  if act_now rh then
    let c := pulse_count iv lim os (tl rh) in
    if pulse_due iv lim os c (held rh) then SFired
    else if Z.eqb lim 0 || Z.ltb c lim then SOngoing else SNone
  else SNone.

(* how much a condition's timer advances in one evaluation *)
Definition tick (tm : time) (rel : bool) : Q :=
  if rel then vdelta tm else if qeqb (speed tm) 0 then 0 else vdelta tm / speed tm.
Definition obs (act : Q) (rel : bool) (v : value) (tm : time) : bool * Q :=
  (is_actuated v act, tick tm rel).

(* every output of the condition over the script h equals the specification of the history *)
Fixpoint conforms (spec : hist -> state) (ob : value -> time -> bool * Q) (look : aid -> option state)
         (c : cond) (rh : hist) (h : list (value * time)) : Prop :=
  match h with
  | [] => True
  | (v, tm) :: r =>
      let rh' := ob v tm :: rh in
      snd (cond_eval look tm v c) = spec rh' /\ conforms spec ob look (fst (cond_eval look tm v c)) rh' r
  end.
