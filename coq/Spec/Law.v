(* C03: the explicit / implicit / blocker law, as a function of the list of (kind, result) of all
   conditions that apply to an evaluation, written from the property statement. *)
From BEI Require Import Model.Tracker.

Definition res := (ckind * state)%type.
Definition is_expl (r : res) : bool := match fst r with KExplicit => true | _ => false end.
Definition is_impl (r : res) : bool := match fst r with KImplicit => true | _ => false end.
Definition blocker_failed (r : res) : bool :=
  match fst r with KBlocker false => state_eqb (snd r) SNone | _ => false end.
Definition evblocker_failed (r : res) : bool :=
  match fst r with KBlocker true => state_eqb (snd r) SNone | _ => false end.
Definition fired (r : res) : bool := state_eqb (snd r) SFired.
Definition active (r : res) : bool := negb (state_eqb (snd r) SNone).

Definition law (rs : list res) (v : value) : state :=
  if existsb blocker_failed rs then SNone
  else if negb (existsb is_expl rs) && negb (existsb is_impl rs)
       then (if as_bool v then SFired else SNone)
       else if forallb (fun r => implb (is_impl r) (fired r)) rs
               && (negb (existsb is_expl rs) || existsb (fun r => is_expl r && fired r) rs)
            then SFired
            else if existsb (fun r => (is_expl r || is_impl r) && active r) rs then SOngoing
                 else SNone.

Definition suppressed (rs : list res) : bool := existsb evblocker_failed rs.

(* folding the results of a list of conditions into a tracker, as apply_conditions does *)
Definition law_step (t : tracker) (r : res) : tracker := apply_result t (fst r) (snd r).
Definition run_results (rs : list res) (t : tracker) : tracker := fold_left law_step rs t.
