(* src/input_context/context_instance/trigger_tracker.rs *)
From BEI Require Export Model.State.

Inductive ckind := KExplicit | KImplicit | KBlocker (events_only : bool).
Inductive accumulation := Cumulative | MaxAbs.

Record tracker := mkTracker {
  t_value : value;
  found_explicit : bool; any_explicit_fired : bool; found_active : bool;
  found_implicit : bool; all_implicits_fired : bool;
  blocked : bool; events_blocked : bool }.

Definition tracker_new (v : value) : tracker :=
  mkTracker v false false false false true false false.

Definition is_s (a b : state) : bool := state_eqb a b.

(* one iteration of the loop in apply_conditions *)
Definition apply_result (t : tracker) (k : ckind) (s : state) : tracker :=
  match k with
  | KExplicit =>
      mkTracker (t_value t) true (any_explicit_fired t || is_s s SFired) (found_active t || negb (is_s s SNone))
                (found_implicit t) (all_implicits_fired t) (blocked t) (events_blocked t)
  | KImplicit =>
      mkTracker (t_value t) (found_explicit t) (any_explicit_fired t) (found_active t || negb (is_s s SNone))
                true (all_implicits_fired t && is_s s SFired) (blocked t) (events_blocked t)
  | KBlocker eo =>
      let b := is_s s SNone in
      if eo
      then mkTracker (t_value t) (found_explicit t) (any_explicit_fired t) (found_active t)
                     (found_implicit t) (all_implicits_fired t) (blocked t) (events_blocked t || b)
      else mkTracker (t_value t) (found_explicit t) (any_explicit_fired t) (found_active t)
                     (found_implicit t) (all_implicits_fired t) (blocked t || b) (events_blocked t)
  end.

Definition with_value (t : tracker) (v : value) : tracker :=
  mkTracker v (found_explicit t) (any_explicit_fired t) (found_active t) (found_implicit t)
            (all_implicits_fired t) (blocked t) (events_blocked t).

Definition tracker_state (t : tracker) : state :=
  if blocked t then SNone
  else if negb (found_explicit t) && negb (found_implicit t)
       then (if as_bool (t_value t) then SFired else SNone)
       else if (negb (found_explicit t) || any_explicit_fired t) && all_implicits_fired t then SFired
            else if found_active t then SOngoing else SNone.

(* overwrite: take the other tracker, keep own dimension *)
Definition tr_overwrite (t other : tracker) : tracker :=
  with_value other (convert (vdim (t_value t)) (t_value other)).

Definition v3maxabs (a b : vec3) : vec3 :=
  let '(ax, ay, az) := a in let '(bx, by_, bz) := b in
  let pick (x y : Q) := if qltb (qabs x) (qabs y) then y else x in
  (pick ax bx, pick ay by_, pick az bz).

Definition tr_combine (t other : tracker) (acc : accumulation) : tracker :=
  let accumulated :=
    match acc with
    | MaxAbs => v3maxabs (as3 (t_value t)) (as3 (t_value other))
    | Cumulative => v3add (as3 (t_value t)) (as3 (t_value other))
    end in
  mkTracker (convert (vdim (t_value t)) (of3 accumulated))
            (found_explicit t || found_explicit other)
            (any_explicit_fired t || any_explicit_fired other)
            (found_active t || found_active other)
            (found_implicit t || found_implicit other)
            (all_implicits_fired t && all_implicits_fired other)
            (blocked t || blocked other)
            (events_blocked t || events_blocked other).
