(* src/input_context/input_condition/*.rs *)
From BEI Require Export Model.Tracker.

(* Time<Virtual> as conditions and modifiers see it *)
Record time := mkTime { vdelta : Q; speed : Q }.

(* condition_timer.rs *)
Record timer := mkTimer { t_rel : bool; t_dur : Q }.
Definition timer_new (rel : bool) : timer := mkTimer rel 0.
Definition timer_update (tm : time) (t : timer) : timer :=
  let scale := if t_rel t then 1 else speed tm in
  if qeqb scale 0 then t                       (* guard added by the D3 fix *)
  else mkTimer (t_rel t) (Qred (t_dur t + vdelta tm / scale)).
Definition timer_reset (t : timer) : timer := mkTimer (t_rel t) 0.

Inductive cond :=
| CPress (act : Q)
| CJustPress (act : Q) (actuated : bool)
| CRelease (act : Q) (actuated : bool)
| CHold (hold_time : Q) (one_shot : bool) (act : Q) (tm : timer) (fired : bool)
| CHoldAndRelease (hold_time act : Q) (tm : timer) (actuated : bool)
| CTap (release_time act : Q) (tm : timer) (actuated : bool)
| CPulse (interval : Q) (limit : Z) (on_start : bool) (act : Q) (tm : timer) (count : Z)
| CChord (a : aid)
| CBlockBy (a : aid) (events_only : bool)
| CScript (k : ckind) (results : list state).

(* configuration-time constructors (names shared with the scenario syntax) *)
Definition c_press act := CPress act.
Definition c_just_press act := CJustPress act false.
Definition c_release act := CRelease act false.
Definition c_hold t os act rel := CHold t os act (timer_new rel) false.
Definition c_hold_and_release t act rel := CHoldAndRelease t act (timer_new rel) false.
Definition c_tap t act rel := CTap t act (timer_new rel) false.
Definition c_pulse i lim os act rel := CPulse i lim os act (timer_new rel) 0%Z.
Definition c_chord a := CChord a.
Definition c_block_by a eo := CBlockBy a eo.
Definition c_script k rs := CScript k rs.

Definition cond_kind (c : cond) : ckind :=
  match c with
  | CChord _ => KImplicit
  | CBlockBy _ eo => KBlocker eo
  | CScript k _ => k
  | _ => KExplicit
  end.

(* evaluate(); [look a] is the state ActionsData currently holds for action a, if present *)
Definition cond_eval (look : aid -> option state) (tm : time) (v : value) (c : cond) : cond * state :=
  match c with
  | CPress act => (c, if is_actuated v act then SFired else SNone)
  | CJustPress act prev =>
      let now := is_actuated v act in
      (CJustPress act now, if now && negb prev then SFired else SNone)
  | CRelease act prev =>
      let now := is_actuated v act in
      (CRelease act now, if now then SOngoing else if prev then SFired else SNone)
  | CHold ht os act t f =>
      let actuated := is_actuated v act in
      let t' := if actuated then timer_update tm t else timer_reset t in
      let first := negb f in
      let f' := qleb ht (t_dur t') in
      (CHold ht os act t' f',
       if f' then (if first || negb os then SFired else SNone)
       else if actuated then SOngoing else SNone)
  | CHoldAndRelease ht act t prev =>
      let t1 := timer_update tm t in
      let held := t_dur t1 in
      if is_actuated v act then (CHoldAndRelease ht act t1 true, SOngoing)
      else (CHoldAndRelease ht act (timer_reset t1) false,
            if prev && qleb ht held then SFired else SNone)
  | CTap rt act t prev =>
      let last_held := t_dur t in
      let now := is_actuated v act in
      let t' := if now then timer_update tm t else timer_reset t in
      (CTap rt act t' now,
       if prev && negb now && qleb last_held rt then SFired
       else if qleb rt (t_dur t') then SNone
       else if now then SOngoing else SNone)
  | CPulse iv lim os act t n =>
      if is_actuated v act then
        let t' := timer_update tm t in
        if Z.eqb lim 0 || Z.ltb n lim then
          let tc := if os then n else (n + 1)%Z in
          if qleb (iv * inject_Z tc) (t_dur t')
          then (CPulse iv lim os act t' (n + 1)%Z, SFired)
          else (CPulse iv lim os act t' n, SOngoing)
        else (CPulse iv lim os act t' n, SNone)
      else (CPulse iv lim os act (timer_reset t) 0%Z, SNone)
  | CChord a => (c, match look a with Some s => s | None => SNone end)
  | CBlockBy a _ => (c, match look a with Some SFired => SNone | _ => SFired end)
  | CScript k rs => (CScript k (tl rs), match rs with s :: _ => s | [] => SNone end)
  end.
