(* The world around the registry: which entity holds which context component, the observers of
   src/input_context.rs:38-81, the schedule of src/lib.rs:103-121.  Operational model of the Bevy
   side (OnAdd / OnRemove triggering, command flushing) as measured on Bevy 0.15.3. *)
From BEI Require Export Model.Registry.
Open Scope Z_scope.

Inductive op :=
| OSpawn (e : entity) (cs : list ctx)     (* spawn, then insert the components one by one *)
| OInsert (e : entity) (c : ctx)
| ORemove (e : entity) (c : ctx)
| ODespawn (e : entity)
| ORebuild.

Record frame_in := mkFrame {
  f_real : Q; f_speed : Q; f_paused : bool;
  f_how : Z;                       (* how the raw input is injected: 0 resources, 1 window events, 2 system in First *)
  f_raw : raw;
  f_ops : list op }.                (* issued through Commands from a system in Update *)
Inductive step := SOp (o : op) | SFrame (f : frame_in).

Record scenario := mkScenario {
  s_menu : list ctx;               (* registered context types, ascending *)
  s_ents : list entity;            (* entity slots used *)
  s_cfg : list (ctx * entity * inst_spec);
  s_steps : list step }.

Record world := mkWorld {
  w_holds : list (entity * list ctx);   (* live entities and the context components they hold, in insertion order *)
  w_reg : registry;
  w_time : time }.                       (* Time<Virtual> as left by the last frame *)
Definition world_init : world := mkWorld [] [] (mkTime 0 1).

Definition cfg_lookup (sc : scenario) (c : ctx) (e : entity) : inst_spec :=
  match find (fun x => Z.eqb (fst (fst x)) c && Z.eqb (snd (fst x)) e) (s_cfg sc) with
  | Some x => snd x
  | None => mkSpec None []
  end.
Definition mk_inst (sc : scenario) (c : ctx) (e : entity) : inst := instantiate (cfg_lookup sc c e).

Fixpoint holds_of (e : entity) (h : list (entity * list ctx)) : option (list ctx) :=
  match h with [] => None | (x, cs) :: r => if Z.eqb x e then Some cs else holds_of e r end.
Fixpoint set_holds (e : entity) (cs : list ctx) (h : list (entity * list ctx)) : list (entity * list ctx) :=
  match h with
  | [] => [(e, cs)]
  | (x, old) :: r => if Z.eqb x e then (x, cs) :: r else (x, old) :: set_holds e cs r
  end.
Definition del_ent (e : entity) (h : list (entity * list ctx)) : list (entity * list ctx) :=
  filter (fun p => negb (Z.eqb (fst p) e)) h.

(* result of an op: new world, events delivered, instances built; None = panic *)
Record op_out := mkOpOut { oo_world : world; oo_events : list event; oo_built : list (ctx * entity) }.

Definition insert_ctx (sc : scenario) (w : world) (e : entity) (c : ctx) : op_out :=
  match holds_of e (w_holds w) with
  | None => mkOpOut w [] []                                     (* no such entity: the command is dropped *)
  | Some cs =>
      if memz c cs || negb (memz c (s_menu sc)) then mkOpOut w [] []     (* replacing a component: no OnAdd *)
      else
        let built := match index_of c (w_reg w) with
                     | Some _ => if ctx_shared c then [] else [(c, e)]
                     | None => [(c, e)]
                     end in
        mkOpOut (mkWorld (set_holds e (cs ++ [c]) (w_holds w)) (reg_add (mk_inst sc c) c e (w_reg w)) (w_time w)) [] built
  end.

Definition remove_ctx (w : world) (e : entity) (c : ctx) : option op_out :=
  match holds_of e (w_holds w) with
  | None => Some (mkOpOut w [] [])
  | Some cs =>
      if negb (memz c cs) then Some (mkOpOut w [] [])
      else match reg_remove (w_time w) c e (w_reg w) with
           | Some (r', Some evs) =>
               Some (mkOpOut (mkWorld (set_holds e (filter (fun x => negb (Z.eqb x c)) cs) (w_holds w)) r' (w_time w)) evs [])
           | _ => None
           end
  end.

Definition apply_op (sc : scenario) (w : world) (o : op) : option op_out :=
  match o with
  | OSpawn e cs =>
      match holds_of e (w_holds w) with
      | Some _ => Some (mkOpOut w [] [])
      | None =>
          let w0 := mkWorld (w_holds w ++ [(e, [])]) (w_reg w) (w_time w) in
          Some (fold_left (fun acc c => let o := insert_ctx sc (oo_world acc) e c in
                                        mkOpOut (oo_world o) (oo_events acc ++ oo_events o) (oo_built acc ++ oo_built o))
                          cs (mkOpOut w0 [] []))
      end
  | OInsert e c => Some (insert_ctx sc w e c)
  | ORemove e c => remove_ctx w e c
  | ODespawn e =>
      match holds_of e (w_holds w) with
      | None => Some (mkOpOut w [] [])
      | Some cs0 =>
          (* OnRemove observers run in archetype (component id = registration) order *)
          let cs := filter (fun c => memz c cs0) (s_menu sc) in
          match fold_left (fun acc c => match acc with
                                        | Some a => match remove_ctx (oo_world a) e c with
                                                    | Some o => Some (mkOpOut (oo_world o) (oo_events a ++ oo_events o) [])
                                                    | None => None
                                                    end
                                        | None => None
                                        end) cs (Some (mkOpOut w [] [])) with
          | Some a => Some (mkOpOut (mkWorld (del_ent e (w_holds (oo_world a))) (w_reg (oo_world a)) (w_time w)) (oo_events a) [])
          | None => None
          end
      end
  | ORebuild =>
      (* one rebuild_instance::<C> observer per registered type, in registration order *)
      fold_left (fun acc c =>
        match acc with
        | None => None
        | Some a =>
            let w1 := oo_world a in
            let built := match index_of c (w_reg w1), nth_error (w_reg w1) (match index_of c (w_reg w1) with Some n => n | None => O end) with
                         | Some _, Some (GExcl _ _ insts) => map (fun ei => (c, fst ei)) insts
                         | Some _, Some (GShared _ _ (e0 :: _) _) => [(c, e0)]
                         | _, _ => []
                         end in
            match reg_rebuild (mk_inst sc c) (w_time w1) c (w_reg w1) with
            | Some (r', Some evs) => Some (mkOpOut (mkWorld (w_holds w1) r' (w_time w1)) (oo_events a ++ evs) (oo_built a ++ built))
            | _ => None
            end
        end) (s_menu sc) (Some (mkOpOut w [] []))
  end.

Definition max_delta : Q := 1 # 4.
Definition frame_time (f : frame_in) : time :=
  mkTime (if f_paused f then 0 else qmin (f_real f) max_delta * f_speed f)%Q (f_speed f).

Record frame_out := mkFrameOut {
  fo_world : world; fo_main : list event; fo_post : list event; fo_log : list logitem; fo_built : list (ctx * entity) }.

Definition run_ops (sc : scenario) (w : world) (ops : list op) : option op_out :=
  fold_left (fun acc o => match acc with
                          | None => None
                          | Some a => match apply_op sc (oo_world a) o with
                                      | Some r => Some (mkOpOut (oo_world r) (oo_events a ++ oo_events r) (oo_built a ++ oo_built r))
                                      | None => None
                                      end
                          end) ops (Some (mkOpOut w [] [])).

(* one App::update(): time, InputSystem, EnhancedInputSystem (reset, UI flag, registry update),
   command flush (events delivered), later sets, Update (ops through commands), flush *)
Definition frame (sc : scenario) (w : world) (f : frame_in) : option frame_out :=
  let tm := frame_time f in
  let o := reg_update tm (f_raw f) (update_state (f_raw f)) (w_reg w) in
  match ro_events o with
  | None => None
  | Some main =>
      let w1 := mkWorld (w_holds w) (ro_reg o) tm in
      match run_ops sc w1 (f_ops f) with
      | Some a => Some (mkFrameOut (oo_world a) main (oo_events a) (ro_log o) (oo_built a))
      | None => None
      end
  end.
