(* Operations requested from inside an observer of an action event (the pattern every example of the
   crate uses to switch contexts).  Delivery discipline measured on Bevy 0.15.3: events leave the crate's
   system as queued commands; a command issued by an observer runs right after the triggering command,
   depth-first, so the closing events of a deactivation requested by an observer are delivered before
   the rest of the frame's events. *)
From BEI Require Export Model.Frame.
Open Scope Z_scope.

(* fires once, when an event of action r_action and kind r_kind is delivered (to entity r_entity, or to
   anybody if that is -1): the observer issues r_op through its Commands *)
Record reaction := mkReact { r_action : aid; r_kind : evkind; r_entity : Z; r_op : op }.

Definition matches (r : reaction) (ev : event) : bool :=
  Z.eqb (r_action r) (e_action ev) && evkind_eqb (r_kind r) (e_kind ev) &&
  (Z.eqb (r_entity r) (-1) || Z.eqb (r_entity r) (e_target ev)).
Fixpoint take_match (ev : event) (armed : list reaction) : option (reaction * list reaction) :=
  match armed with
  | [] => None
  | r :: rest => if matches r ev then Some (r, rest)
                 else match take_match ev rest with Some (x, rest') => Some (x, r :: rest') | None => None end
  end.

Record deliv := mkDeliv { dv_events : list event; dv_armed : list reaction; dv_world : world; dv_built : list (ctx * entity) }.

(* deliver a queue of events; every firing consumes one unit of fuel and one armed reaction, so
   fuel = number of armed reactions always suffices; None = an operation panicked *)
Fixpoint deliver (sc : scenario) (fuel : nat) : list event -> list reaction -> world -> option deliv :=
  fix go (evs : list event) (armed : list reaction) (w : world) : option deliv :=
    match evs with
    | [] => Some (mkDeliv [] armed w [])
    | ev :: rest =>
        match take_match ev armed with
        | None => match go rest armed w with
                  | Some d => Some (mkDeliv (ev :: dv_events d) (dv_armed d) (dv_world d) (dv_built d))
                  | None => None
                  end
        | Some (r, armed') =>
            match fuel with
            | O => None
            | S fuel' =>
                match apply_op sc w (r_op r) with
                | None => None
                | Some oo =>
                    match deliver sc fuel' (oo_events oo) armed' (oo_world oo) with
                    | None => None
                    | Some d1 =>
                        match deliver sc fuel' rest (dv_armed d1) (dv_world d1) with
                        | None => None
                        | Some d2 => Some (mkDeliv (ev :: dv_events d1 ++ dv_events d2) (dv_armed d2) (dv_world d2)
                                                   (oo_built oo ++ dv_built d1 ++ dv_built d2))
                        end
                    end
                end
            end
        end
    end.

(* an operation issued by the harness (between frames or through Commands from Update), its events delivered *)
Definition op_r (sc : scenario) (armed : list reaction) (w : world) (o : op) : option deliv :=
  match apply_op sc w o with
  | None => None
  | Some oo => match deliver sc (length armed) (oo_events oo) armed (oo_world oo) with
               | Some d => Some (mkDeliv (dv_events d) (dv_armed d) (dv_world d) (oo_built oo ++ dv_built d))
               | None => None
               end
  end.
Fixpoint ops_r (sc : scenario) (armed : list reaction) (w : world) (ops : list op) : option deliv :=
  match ops with
  | [] => Some (mkDeliv [] armed w [])
  | o :: rest =>
      match op_r sc armed w o with
      | None => None
      | Some d1 => match ops_r sc (dv_armed d1) (dv_world d1) rest with
                   | Some d2 => Some (mkDeliv (dv_events d1 ++ dv_events d2) (dv_armed d2) (dv_world d2) (dv_built d1 ++ dv_built d2))
                   | None => None
                   end
      end
  end.

Record frame_r_out := mkFrameR { fr_world : world; fr_main : list event; fr_post : list event; fr_log : list logitem;
                                 fr_built : list (ctx * entity); fr_armed : list reaction }.
Definition frame_r (sc : scenario) (armed : list reaction) (w : world) (f : frame_in) : option frame_r_out :=
  let tm := frame_time f in
  let o := reg_update tm (f_raw f) (update_state (f_raw f)) (w_reg w) in
  match ro_events o with
  | None => None
  | Some evs =>
      match deliver sc (length armed) evs armed (mkWorld (w_holds w) (ro_reg o) tm) with
      | None => None
      | Some d1 =>
          match ops_r sc (dv_armed d1) (dv_world d1) (f_ops f) with
          | None => None
          | Some d2 => Some (mkFrameR (dv_world d2) (dv_events d1) (dv_events d2) (ro_log o) (dv_built d1 ++ dv_built d2) (dv_armed d2))
          end
      end
  end.
