(* src/input_context/input_bind.rs:69-205 and preset.rs:62-196: the binding DSL as an AST of
   construction routes and its denotation as a sequence of (input, modifiers, conditions). *)
From BEI Require Export Model.Action.
Open Scope Z_scope.

Inductive iset :=
| RSingle (b : bind_spec)                        (* an InputBind: input.with_modifiers(..).with_conditions(..) *)
| RRaw (i : input)                               (* anything Into<InputBind> *)
| RTuple (l : list iset)                         (* (A, B, ..) of InputBindSets *)
| RSlice (kind : Z) (l : list input)             (* &[I] (0), &Vec<I> (1), &[I; N] (2) *)
| RModsEach (s : iset) (ms : list (Z * modif))   (* set.with_modifiers_each(ms) *)
| RCondsEach (s : iset) (cs : list (Z * cond))   (* set.with_conditions_each(cs) *)
| RCardinal (north east south west : iset)
| RBidirectional (positive negative : iset)
| RStick (is_left : bool)
| RWasd | RArrows | RDpad.

(* modifiers attached by the presets are not instrumented: they carry the id -1 *)
Definition anon (m : modif) : Z * modif := (-1, m).
Definition add_mods (ms : list (Z * modif)) (b : bind_spec) : bind_spec := mkBind (b_input b) (b_mods b ++ ms) (b_conds b).
Definition add_conds (cs : list (Z * cond)) (b : bind_spec) : bind_spec := mkBind (b_input b) (b_mods b) (b_conds b ++ cs).
Definition raw_bind (i : input) : bind_spec := mkBind i [] [].

Definition negate_all := MNegate true true true.
Definition cardinal (n e s w : list bind_spec) : list bind_spec :=
  map (add_mods [anon (MSwizzle YXZ)]) n ++                              (* north: +Y *)
  e ++                                                                     (* east: +X *)
  map (add_mods [anon negate_all; anon (MSwizzle YXZ)]) s ++               (* south: -Y *)
  map (add_mods [anon negate_all]) w.                                      (* west: -X *)

Fixpoint denote (s : iset) : list bind_spec :=
  match s with
  | RSingle b => [b]
  | RRaw i => [raw_bind i]
  | RTuple l => flat_map denote l
  | RSlice _ l => map raw_bind l
  | RModsEach s ms => map (add_mods ms) (denote s)
  | RCondsEach s cs => map (add_conds cs) (denote s)
  | RCardinal n e s w => cardinal (denote n) (denote e) (denote s) (denote w)
  | RBidirectional p n => denote p ++ map (add_mods [anon negate_all]) (denote n)
  | RStick is_left =>
      let '(x, y) := if is_left then (0, 1) else (2, 3) in
      [raw_bind (IPadAxis x); add_mods [anon (MSwizzle YXZ)] (raw_bind (IPadAxis y))]
  (* built-in key sets; key ids of the harness: W=10 A=11 S=12 D=13, arrows up=14 left=15 down=16 right=17;
     d-pad buttons up=4 left=5 down=6 right=7 *)
  | RWasd => cardinal [raw_bind (IKey 10 0)] [raw_bind (IKey 13 0)] [raw_bind (IKey 12 0)] [raw_bind (IKey 11 0)]
  | RArrows => cardinal [raw_bind (IKey 14 0)] [raw_bind (IKey 17 0)] [raw_bind (IKey 16 0)] [raw_bind (IKey 15 0)]
  | RDpad => cardinal [raw_bind (IPadButton 4)] [raw_bind (IPadButton 7)] [raw_bind (IPadButton 6)] [raw_bind (IPadButton 5)]
  end.

(* repeated `to` calls append *)
Definition denote_routes (rs : list iset) : list bind_spec := flat_map denote rs.
