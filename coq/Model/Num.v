(* Numbers of the model: exact rationals.  See DESIGN.md section 3. *)
From Coq Require Export QArith ZArith NArith List Bool Lia Lqa.
Export ListNotations.
Open Scope Q_scope.

(* keep [simpl] from unfolding rational arithmetic *)
Arguments Qred : simpl never.
Arguments Qplus : simpl never.
Arguments Qmult : simpl never.
Arguments Qminus : simpl never.
Arguments Qopp : simpl never.
Arguments Qdiv : simpl never.
Arguments Qinv : simpl never.
Arguments Qle_bool : simpl never.
Arguments Qeq_bool : simpl never.

Definition qeqb (a b : Q) : bool := Qeq_bool a b.
Definition qleb (a b : Q) : bool := Qle_bool a b.
Definition qltb (a b : Q) : bool := negb (Qle_bool b a).
Definition qnz (a : Q) : bool := negb (Qeq_bool a 0).
Definition qabs (a : Q) : Q := if Qle_bool 0 a then a else - a.
Definition qmin (a b : Q) : Q := if Qle_bool a b then a else b.
Definition qmax (a b : Q) : Q := if Qle_bool a b then b else a.
Definition b2q (b : bool) : Q := if b then 1 else 0.

(* sign of a number as -1 / 0 / 1 *)
Definition qsign (a : Q) : Q := if qltb 0 a then 1 else if qltb a 0 then -1 else 0.

Definition vec3 : Type := (Q * Q * Q)%type.
Definition v3zero : vec3 := (0, 0, 0).
Definition v3add (a b : vec3) : vec3 :=
  let '(ax, ay, az) := a in let '(bx, by_, bz) := b in (Qred (ax + bx), Qred (ay + by_), Qred (az + bz)).
Definition v3eqb (a b : vec3) : bool :=
  let '(ax, ay, az) := a in let '(bx, by_, bz) := b in qeqb ax bx && qeqb ay by_ && qeqb az bz.
Definition v3len2 (a : vec3) : Q := let '(x, y, z) := a in x * x + y * y + z * z.

(* exact integer square root on positives, by Newton iteration on N; used only to run the
   radial dead zone on inputs whose length is rational *)
Definition nsqrt (n : N) : N := N.sqrt n.
Definition qsqrt_exact (a : Q) : option Q :=
  let a := Qred a in
  match Qnum a with
  | Z0 => Some 0
  | Zpos p =>
      let rn := N.sqrt (Npos p) in let rd := N.sqrt (Npos (Qden a)) in
      if (N.eqb (rn * rn) (Npos p) && N.eqb (rd * rd) (Npos (Qden a)))%bool
      then match rd with Npos d => Some (Qmake (Z.of_N rn) d) | N0 => None end
      else None
  | Zneg _ => None
  end.

Fixpoint qsum (l : list Q) : Q := match l with [] => 0 | x :: r => x + qsum r end.
