(* src/action_value.rs, line by line. *)
From BEI Require Export Model.Num.

Inductive dim := DBool | D1 | D2 | D3.
Inductive value := VB (b : bool) | V1 (x : Q) | V2 (x y : Q) | V3 (x y z : Q).

Definition dim_eqb (a b : dim) : bool :=
  match a, b with DBool, DBool | D1, D1 | D2, D2 | D3, D3 => true | _, _ => false end.
Definition ndim (d : dim) : nat := match d with DBool => 0 | D1 => 1 | D2 => 2 | D3 => 3 end.
Definition dim_leb (a b : dim) : bool := Nat.leb (ndim a) (ndim b).

Definition vzero (d : dim) : value :=
  match d with DBool => VB false | D1 => V1 0 | D2 => V2 0 0 | D3 => V3 0 0 0 end.
Definition vdim (v : value) : dim :=
  match v with VB _ => DBool | V1 _ => D1 | V2 _ _ => D2 | V3 _ _ _ => D3 end.

Definition as_bool (v : value) : bool :=
  match v with
  | VB b => b
  | V1 x => qnz x
  | V2 x y => qnz x || qnz y
  | V3 x y z => qnz x || qnz y || qnz z
  end.
Definition as1 (v : value) : Q :=
  match v with VB b => b2q b | V1 x => x | V2 x _ => x | V3 x _ _ => x end.
Definition as2 (v : value) : Q * Q :=
  match v with VB b => (b2q b, 0) | V1 x => (x, 0) | V2 x y => (x, y) | V3 x y _ => (x, y) end.
Definition as3 (v : value) : vec3 :=
  match v with VB b => (b2q b, 0, 0) | V1 x => (x, 0, 0) | V2 x y => (x, y, 0) | V3 x y z => (x, y, z) end.
Definition of3 (a : vec3) : value := let '(x, y, z) := a in V3 x y z.

Definition convert (d : dim) (v : value) : value :=
  match d with
  | DBool => VB (as_bool v)
  | D1 => V1 (as1 v)
  | D2 => let '(x, y) := as2 v in V2 x y
  | D3 => let '(x, y, z) := as3 v in V3 x y z
  end.

Definition is_actuated (v : value) (t : Q) : bool := qleb (t * t) (v3len2 (as3 v)).

(* observational equality of values: same variant, equal components *)
Definition veqb (a b : value) : bool :=
  match a, b with
  | VB x, VB y => Bool.eqb x y
  | V1 x, V1 y => qeqb x y
  | V2 x1 y1, V2 x2 y2 => qeqb x1 x2 && qeqb y1 y2
  | V3 x1 y1 z1, V3 x2 y2 z2 => qeqb x1 x2 && qeqb y1 y2 && qeqb z1 z2
  | _, _ => false
  end.
Definition veq (a b : value) : Prop :=
  match a, b with
  | VB x, VB y => x = y
  | V1 x, V1 y => x == y
  | V2 x1 y1, V2 x2 y2 => x1 == x2 /\ y1 == y2
  | V3 x1 y1 z1, V3 x2 y2 z2 => x1 == x2 /\ y1 == y2 /\ z1 == z2
  | _, _ => False
  end.

(* the components of a value, X first; a bool counts as 0/1 on X *)
Definition axes (v : value) : list Q :=
  match v with VB b => [b2q b] | V1 x => [x] | V2 x y => [x; y] | V3 x y z => [x; y; z] end.
Definition vred (v : value) : value :=
  match v with
  | VB b => VB b | V1 x => V1 (Qred x) | V2 x y => V2 (Qred x) (Qred y)
  | V3 x y z => V3 (Qred x) (Qred y) (Qred z)
  end.
