(* src/input/input_reader.rs and src/input.rs: raw input, the per-frame consumed set, reads. *)
From BEI Require Export Model.Modif.
Open Scope Z_scope.

(* ModKeys bit i (ALT=1, CONTROL=2, SHIFT=4, SUPER=8) is satisfied by key 100+2i or 101+2i *)
Inductive input :=
| IKey (k : Z) (mods : Z)
| IMouseButton (b : Z) (mods : Z)
| IMotion (mods : Z)
| IWheel (mods : Z)
| IPadButton (b : Z)
| IPadAxis (a : Z).

Record pad := mkPad { pad_id : Z; pad_buttons : list Z; pad_axes : list (Z * Q) }.
Record raw := mkRaw {
  r_keys : list Z; r_mbuttons : list Z; r_motion : Q * Q; r_wheel : Q * Q;
  r_pads : list pad; r_ui : list Z (* Interaction of each UI entity: 0 none, 1 hovered, 2 pressed *) }.
Definition raw_empty : raw := mkRaw [] [] (0%Q, 0%Q) (0%Q, 0%Q) [] [].

Definition device := option Z.   (* GamepadDevice: None = Any, Some id = Single *)
Definition device_eqb (a b : device) : bool :=
  match a, b with None, None => true | Some x, Some y => Z.eqb x y | _, _ => false end.

Record consumed := mkConsumed {
  c_ui_mouse : bool;
  c_keys : list Z; c_mods : Z; c_mbuttons : list Z; c_motion : bool; c_wheel : bool;
  c_pbuttons : list (device * Z); c_paxes : list (device * Z) }.
Definition consumed_reset : consumed := mkConsumed false [] 0 [] false false [] [].

Definition memz (x : Z) (l : list Z) : bool := existsb (Z.eqb x) l.
Definition memdz (d : device) (x : Z) (l : list (device * Z)) : bool :=
  existsb (fun p => device_eqb d (fst p) && Z.eqb x (snd p)) l.

(* update_state: reset, then the UI flag from the Interaction components of this frame *)
Definition update_state (r : raw) : consumed :=
  mkConsumed (existsb (fun i => negb (Z.eqb i 0)) (r_ui r)) [] 0 [] false false [] [].

Definition mod_bits : list Z := [0; 1; 2; 3].
(* mod_keys_pressed; ui_wants_keyboard is never set without egui *)
Definition mod_keys_pressed (r : raw) (c : consumed) (mods : Z) : bool :=
  if negb (Z.eqb (Z.land (c_mods c) mods) 0) then false
  else forallb (fun i => if Z.testbit mods i then memz (100 + 2 * i) (r_keys r) || memz (101 + 2 * i) (r_keys r) else true) mod_bits.

Definition bval (b : bool) : value := VB b.

Definition reader_value (r : raw) (c : consumed) (dev : device) (i : input) : value :=
  match i with
  | IKey k mods => bval (memz k (r_keys r) && negb (memz k (c_keys c)) && mod_keys_pressed r c mods)
  | IMouseButton b mods =>
      bval (negb (c_ui_mouse c) && memz b (r_mbuttons r) && negb (memz b (c_mbuttons c)) && mod_keys_pressed r c mods)
  | IMotion mods =>
      if c_ui_mouse c || negb (mod_keys_pressed r c mods) || c_motion c then V2 0 0
      else V2 (fst (r_motion r)) (snd (r_motion r))
  | IWheel mods =>
      if c_ui_mouse c || negb (mod_keys_pressed r c mods) || c_wheel c then V2 0 0
      else V2 (fst (r_wheel r)) (snd (r_wheel r))
  | IPadButton b =>
      if memdz dev b (c_pbuttons c) then bval false
      else match dev with
           | None => bval (existsb (fun p => memz b (pad_buttons p)) (r_pads r))
           | Some id => bval (match find (fun p => Z.eqb (pad_id p) id) (r_pads r) with
                              | Some p => memz b (pad_buttons p) | None => false end)
           end
  | IPadAxis a =>
      if memdz dev a (c_paxes c) then V1 0
      else
        let axis_of (p : pad) : option Q :=
          match find (fun kv => Z.eqb (fst kv) a) (pad_axes p) with Some kv => Some (snd kv) | None => None end in
        match dev with
        | None =>
            (* find_map over the gamepads: first one that reports a non-zero value *)
            let fix go (ps : list pad) : Q :=
              match ps with
              | [] => 0%Q
              | p :: rest => match axis_of p with
                             | Some x => if qnz x then x else go rest
                             | None => go rest
                             end
              end in
            V1 (go (r_pads r))
        | Some id =>
            match find (fun p => Z.eqb (pad_id p) id) (r_pads r) with
            | Some p => V1 (match axis_of p with Some x => x | None => 0%Q end)
            | None => V1 0
            end
        end
  end.

Definition consume (c : consumed) (dev : device) (i : input) : consumed :=
  match i with
  | IKey k mods =>
      mkConsumed (c_ui_mouse c) (k :: c_keys c) (Z.lor (c_mods c) mods) (c_mbuttons c) (c_motion c) (c_wheel c) (c_pbuttons c) (c_paxes c)
  | IMouseButton b mods =>
      mkConsumed (c_ui_mouse c) (c_keys c) (Z.lor (c_mods c) mods) (b :: c_mbuttons c) (c_motion c) (c_wheel c) (c_pbuttons c) (c_paxes c)
  | IMotion mods =>
      mkConsumed (c_ui_mouse c) (c_keys c) (Z.lor (c_mods c) mods) (c_mbuttons c) true (c_wheel c) (c_pbuttons c) (c_paxes c)
  | IWheel mods =>
      mkConsumed (c_ui_mouse c) (c_keys c) (Z.lor (c_mods c) mods) (c_mbuttons c) (c_motion c) true (c_pbuttons c) (c_paxes c)
  | IPadButton b =>
      mkConsumed (c_ui_mouse c) (c_keys c) (c_mods c) (c_mbuttons c) (c_motion c) (c_wheel c) ((dev, b) :: c_pbuttons c) (c_paxes c)
  | IPadAxis a =>
      mkConsumed (c_ui_mouse c) (c_keys c) (c_mods c) (c_mbuttons c) (c_motion c) (c_wheel c) (c_pbuttons c) ((dev, a) :: c_paxes c)
  end.
