(* src/input_context.rs: ContextInstances = Vec<InstanceGroup> sorted by descending priority *)
From BEI Require Export Model.Action.
Open Scope Z_scope.

Definition ctx := Z.
(* the context types of the harness (harness/src/app.rs): mode and priority are type-level constants *)
Definition ctx_shared (c : ctx) : bool := Z.odd c.
Definition ctx_prio (c : ctx) : Z :=
  (* 5 and 6 carry isize::MIN and isize::MAX (64-bit target): legal priorities, "always last" / "always first" *)
  match c with 0 => 30 | 1 => 20 | 2 => -10 | 3 => 0 | 4 => 10 | 5 => -9223372036854775808 | 6 => 9223372036854775807 | _ => 5 end.

Inductive group :=
| GExcl (c : ctx) (prio : Z) (insts : list (entity * inst))
| GShared (c : ctx) (prio : Z) (ents : list entity) (i : inst).
Definition g_ctx (g : group) : ctx := match g with GExcl c _ _ | GShared c _ _ _ => c end.
Definition g_prio (g : group) : Z := match g with GExcl _ p _ | GShared _ p _ _ => p end.
Definition registry := list group.

(* index::<C>() *)
Fixpoint index_of (c : ctx) (r : registry) : option nat :=
  match r with
  | [] => None
  | g :: rest => if Z.eqb (g_ctx g) c then Some O else option_map S (index_of c rest)
  end.

(* core::slice::binary_search_by as shipped with the toolchain of this image:
     let mut size = self.len(); if size == 0 { return Err(0) } let mut base = 0;
     while size > 1 { let half = size/2; let mid = base+half;
                      let cmp = f(mid); base = if cmp == Greater { base } else { mid }; size -= half; }
     let cmp = f(base); if cmp == Equal { Ok(base) } else { Err(base + (cmp == Less) as usize) }
   called through binary_search_by_key(&Reverse(p), |g| Reverse(g.priority())), i.e.
   f(i) = Reverse(prio_i).cmp(&Reverse(p)) = p.cmp(prio_i). *)
Definition rev_cmp (p : Z) (g : group) : comparison := Z.compare p (g_prio g).
Fixpoint bsearch_loop (fuel : nat) (p : Z) (r : registry) (base size : nat) : nat :=
  match fuel with
  | O => base
  | S fuel' =>
      if Nat.leb size 1 then base
      else let half := Nat.div2 size in
           let mid := (base + half)%nat in
           let base' := match nth_error r mid with
                        | Some g => match rev_cmp p g with Gt => base | _ => mid end
                        | None => base
                        end in
           bsearch_loop fuel' p r base' (size - half)%nat
  end.
Definition bsearch (p : Z) (r : registry) : nat :=       (* unwrap_or_else(|e| e) *)
  match r with
  | [] => O
  | _ => let base := bsearch_loop (length r) p r O (length r) in
         match nth_error r base with
         | Some g => match rev_cmp p g with Eq => base | Lt => S base | Gt => base end
         | None => base
         end
  end.

Fixpoint insert_at {A} (n : nat) (x : A) (l : list A) : list A :=
  match n, l with
  | O, _ => x :: l
  | S n', y :: r => y :: insert_at n' x r
  | S _, [] => [x]
  end.
Fixpoint update_at {A} (n : nat) (f : A -> A) (l : list A) : list A :=
  match n, l with
  | O, y :: r => f y :: r
  | S n', y :: r => y :: update_at n' f r
  | _, [] => []
  end.
Fixpoint remove_at {A} (n : nat) (l : list A) : list A :=
  match n, l with
  | O, _ :: r => r
  | S n', y :: r => y :: remove_at n' r
  | _, [] => []
  end.
(* Vec::swap_remove *)
Definition swap_remove {A} (n : nat) (l : list A) : list A :=
  match nth_error l n with
  | None => l
  | Some _ =>
      match rev l with
      | [] => l
      | lastx :: _ => if Nat.eqb (S n) (length l) then removelast l
                      else removelast (update_at n (fun _ => lastx) l)
      end
  end.
Fixpoint position {A} (f : A -> bool) (l : list A) : option nat :=
  match l with [] => None | x :: r => if f x then Some O else option_map S (position f r) end.

Definition new_group (c : ctx) (e : entity) (i : inst) : group :=
  if ctx_shared c then GShared c (ctx_prio c) [e] i else GExcl c (ctx_prio c) [(e, i)].

(* ContextInstances::add; [mk e] is C::context_instance(world, e) *)
Definition reg_add (mk : entity -> inst) (c : ctx) (e : entity) (r : registry) : registry :=
  match index_of c r with
  | Some n => update_at n (fun g => match g with
                                    | GExcl c p insts => GExcl c p (insts ++ [(e, mk e)])
                                    | GShared c p ents i => GShared c p (ents ++ [e]) i
                                    end) r
  | None => insert_at (bsearch (ctx_prio c) r) (new_group c e (mk e)) r
  end.

(* ContextInstances::remove; None = one of the expect()s fails (panic) *)
Definition reg_remove (tm : time) (c : ctx) (e : entity) (r : registry) : option (registry * option (list event)) :=
  match index_of c r with
  | None => None
  | Some n =>
      match nth_error r n with
      | Some (GExcl c' p insts) =>
          match position (fun ei => Z.eqb (fst ei) e) insts with
          | None => None
          | Some k =>
              match nth_error insts k with
              | Some (_, i) =>
                  let insts' := swap_remove k insts in
                  let evs := trigger_removed tm [e] i in
                  Some (match insts' with [] => remove_at n r | _ => update_at n (fun _ => GExcl c' p insts') r end, evs)
              | None => None
              end
          end
      | Some (GShared c' p ents i) =>
          match position (Z.eqb e) ents with
          | None => None
          | Some k =>
              let ents' := swap_remove k ents in
              let evs := trigger_removed tm [e] i in
              Some (match ents' with [] => remove_at n r | _ => update_at n (fun _ => GShared c' p ents' i) r end, evs)
          end
      | None => None
      end
  end.

(* ContextInstances::rebuild for one context type *)
Definition cat_ev (a b : option (list event)) : option (list event) :=
  match a, b with Some x, Some y => Some (x ++ y) | _, _ => None end.
Definition reg_rebuild (mk : entity -> inst) (tm : time) (c : ctx) (r : registry) : option (registry * option (list event)) :=
  match index_of c r with
  | None => Some (r, Some [])
  | Some n =>
      match nth_error r n with
      | Some (GExcl c' p insts) =>
          let evs := fold_left (fun acc ei => cat_ev acc (trigger_removed tm [fst ei] (snd ei))) insts (Some []) in
          Some (update_at n (fun _ => GExcl c' p (map (fun ei => (fst ei, mk (fst ei))) insts)) r, evs)
      | Some (GShared c' p ents i) =>
          match ents with
          | [] => None                                  (* expect("groups should be immediately removed when empty") *)
          | e0 :: _ => Some (update_at n (fun _ => GShared c' p ents (mk e0)) r, trigger_removed tm ents i)
          end
      | None => None
      end
  end.

(* ContextInstances::get *)
Definition reg_get (c : ctx) (e : entity) (r : registry) : option inst :=
  match index_of c r with
  | None => None
  | Some n =>
      match nth_error r n with
      | Some (GExcl _ _ insts) => option_map snd (find (fun ei => Z.eqb (fst ei) e) insts)
      | Some (GShared _ _ ents i) => if existsb (Z.eqb e) ents then Some i else None
      | None => None
      end
  end.

(* ContextInstances::update: groups in vector order; exclusive instances in vector order *)
Record reg_out := mkRegOut { ro_reg : registry; ro_consumed : consumed; ro_events : option (list event); ro_log : list logitem }.

Fixpoint excl_update (tm : time) (r : raw) (c : consumed) (insts : list (entity * inst))
  : list (entity * inst) * consumed * option (list event) * list logitem :=
  match insts with
  | [] => ([], c, Some [], [])
  | (e, i) :: rest =>
      let o := inst_update tm r c [e] i in
      let '(rest', c', ev, lg) := excl_update tm r (io_consumed o) rest in
      ((e, io_inst o) :: rest', c', cat_ev (io_events o) ev, io_log o ++ lg)
  end.

Fixpoint reg_update (tm : time) (r : raw) (c : consumed) (gs : registry) : reg_out :=
  match gs with
  | [] => mkRegOut [] c (Some []) []
  | GExcl cx p insts :: rest =>
      let '(insts', c', ev, lg) := excl_update tm r c insts in
      let o := reg_update tm r c' rest in
      mkRegOut (GExcl cx p insts' :: ro_reg o) (ro_consumed o) (cat_ev ev (ro_events o)) (lg ++ ro_log o)
  | GShared cx p ents i :: rest =>
      let io := inst_update tm r c ents i in
      let o := reg_update tm r (io_consumed io) rest in
      mkRegOut (GShared cx p ents (io_inst io) :: ro_reg o) (ro_consumed o) (cat_ev (io_events io) (ro_events o)) (io_log io ++ ro_log o)
  end.
