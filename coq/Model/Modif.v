(* src/input_context/input_modifier/*.rs *)
From BEI Require Export Model.Cond.

Inductive swz := YXZ | ZYX | XZY | YZX | ZXY.
Inductive dzkind := Radial | Axial.
Inductive mout := MPass | MSet (v : value).

Inductive modif :=
| MNegate (x y z : bool)
| MScale (fx fy fz : Q)
| MSwizzle (k : swz)
| MDeadZone (kind : dzkind) (lo hi : Q)
| MExp (ex ey ez : positive)                 (* integer exponents only; see DESIGN.md section 3 *)
| MDeltaScale
| MDeltaLerp (spd : Q) (prev : vec3)
| MAccumulate (a : aid) (acc : vec3)
| MScript (outs : list mout).

Definition m_negate x y z := MNegate x y z.
Definition m_scale x y z := MScale x y z.
Definition m_swizzle k := MSwizzle k.
Definition m_deadzone k lo hi := MDeadZone k lo hi.
Definition m_exp (x y z : Z) := MExp (Z.to_pos x) (Z.to_pos y) (Z.to_pos z).
Definition m_delta_scale := MDeltaScale.
Definition m_delta_lerp s := MDeltaLerp s v3zero.
Definition m_accumulate a := MAccumulate a v3zero.
Definition m_script outs := MScript outs.

(* Bool inputs are first turned into 0.0 / 1.0 by most modifiers *)
Definition numeric (v : value) : value := match v with VB b => V1 (b2q b) | _ => v end.

Definition neg (f : bool) (x : Q) : Q := if f then - x else x.
Definition negate_apply (fx fy fz : bool) (v : value) : value :=
  match numeric v with
  | V1 x => V1 (neg fx x)
  | V2 x y => V2 (neg fx x) (neg fy y)
  | V3 x y z => V3 (neg fx x) (neg fy y) (neg fz z)
  | VB b => VB b
  end.

Definition scale_apply (fx fy fz : Q) (v : value) : value :=
  match numeric v with
  | V1 x => V1 (x * fx)
  | V2 x y => V2 (x * fx) (y * fy)
  | V3 x y z => V3 (x * fx) (y * fy) (z * fz)
  | VB b => VB b
  end.

Definition swizzle_apply (k : swz) (v : value) : value :=
  match numeric v with
  | V1 x => match k with
            | YXZ | ZXY => V2 0 x
            | ZYX | YZX => V3 0 0 x
            | XZY => V1 x
            end
  | V2 x y => match k with
              | YXZ => V2 y x
              | ZYX => V2 0 y
              | XZY => V2 x 0
              | YZX => V2 y 0
              | ZXY => V2 0 x
              end
  | V3 x y z => match k with
                | YXZ => V3 y x z
                | ZYX => V3 z y x
                | XZY => V3 x z y
                | YZX => V3 y z x
                | ZXY => V3 z x y
                end
  | VB b => VB b
  end.

(* f32::signum: 1.0 for +0.0 and positives, -1.0 for negatives *)
Definition signum (x : Q) : Q := if qltb x 0 then -1 else 1.
(* DeadZone::dead_zone *)
Definition dz (lo hi x : Q) : Q :=
  let lower_bound := qmax (qabs x - lo) 0 in
  let scaled := lower_bound / (hi - lo) in
  qmin scaled 1 * signum x.

(* square root: exact when the argument is the square of a rational, otherwise an approximation
   from below to 2^-30 (used only to run the model; theorems assume exactness explicitly) *)
Definition qsqrt (a : Q) : Q :=
  match qsqrt_exact a with
  | Some r => r
  | None =>
      let a := Qred a in
      match Qnum a with
      | Zpos n => let d := Qden a in
                  let s := N.sqrt (Npos n * Npos d * N.pow 4 30) in
                  Qred (Qmake (Z.of_N s) (d * Pos.pow 2 30))
      | _ => 0
      end
  end.

(* glam normalize_or_zero(v) * dz(length(v)) *)
Definition radial (lo hi : Q) (a : vec3) : vec3 :=
  let '(x, y, z) := a in
  let len := qsqrt (v3len2 a) in
  if qeqb len 0 then v3zero
  else let k := dz lo hi len in (x / len * k, y / len * k, z / len * k).

Definition deadzone_apply (kind : dzkind) (lo hi : Q) (v : value) : value :=
  match numeric v with
  | V1 x => V1 (dz lo hi x)
  | V2 x y => match kind with
              | Axial => V2 (dz lo hi x) (dz lo hi y)
              | Radial => let '(a, b, _) := radial lo hi (x, y, 0) in V2 a b
              end
  | V3 x y z => match kind with
                | Axial => V3 (dz lo hi x) (dz lo hi y) (dz lo hi z)
                | Radial => let '(a, b, c) := radial lo hi (x, y, z) in V3 a b c
                end
  | VB b => VB b
  end.

(* value.abs().powf(exp).copysign(value) *)
Definition apply_exp (x : Q) (e : positive) : Q := Qpower_positive (qabs x) e * signum x.
Definition exp_apply (ex ey ez : positive) (v : value) : value :=
  match numeric v with
  | V1 x => V1 (apply_exp x ex)
  | V2 x y => V2 (apply_exp x ex) (apply_exp y ey)
  | V3 x y z => V3 (apply_exp x ex) (apply_exp y ey) (apply_exp z ez)
  | VB b => VB b
  end.

Definition delta_scale_apply (dt : Q) (v : value) : value :=
  match numeric v with
  | V1 x => V1 (x * dt)
  | V2 x y => V2 (x * dt) (y * dt)
  | V3 x y z => V3 (x * dt) (y * dt) (z * dt)
  | VB b => VB b
  end.

(* the f32 nearest to 1e-4 *)
Definition snap_threshold : Q := 13743895 # 137438953472.
Definition v3dist2 (a b : vec3) : Q :=
  let '(ax, ay, az) := a in let '(bx, by_, bz) := b in
  (ax - bx) * (ax - bx) + (ay - by_) * (ay - by_) + (az - bz) * (az - bz).
(* glam lerp: self * (1 - s) + rhs * s *)
Definition lerp1 (p t s : Q) : Q := Qred (p * (1 - s) + t * s).
Definition delta_lerp_apply (spd : Q) (prev : vec3) (dt : Q) (v : value) : vec3 * value :=
  let v := numeric v in
  let target := as3 v in
  if qltb (v3dist2 prev target) snap_threshold then (target, v)
  else
    let alpha := qmin (dt * spd) 1 in            (* .min(1.0): the D4 fix *)
    let '(px, py, pz) := prev in let '(tx, ty, tz) := target in
    let sm := (lerp1 px tx alpha, lerp1 py ty alpha, lerp1 pz tz alpha) in
    (sm, convert (vdim v) (of3 sm)).

Definition accumulate_apply (look : aid -> option state) (a : aid) (acc : vec3) (v : value) : vec3 * value :=
  match look a with
  | Some s =>
      let acc' := if state_eqb s SFired then v3add acc (as3 v) else as3 v in
      (acc', convert (vdim v) (of3 acc'))
  | None => (acc, v)
  end.

Definition modif_apply (look : aid -> option state) (tm : time) (v : value) (m : modif) : modif * value :=
  match m with
  | MNegate x y z => (m, negate_apply x y z v)
  | MScale x y z => (m, scale_apply x y z v)
  | MSwizzle k => (m, swizzle_apply k v)
  | MDeadZone k lo hi => (m, deadzone_apply k lo hi v)
  | MExp x y z => (m, exp_apply x y z v)
  | MDeltaScale => (m, delta_scale_apply (vdelta tm) v)
  | MDeltaLerp s prev => let '(p, o) := delta_lerp_apply s prev (vdelta tm) v in (MDeltaLerp s p, o)
  | MAccumulate a acc => let '(c, o) := accumulate_apply look a acc v in (MAccumulate a c, o)
  | MScript outs => (MScript (tl outs), match outs with MSet x :: _ => x | _ => v end)
  end.
