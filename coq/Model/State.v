(* src/input_context/events.rs:46-63 and context_instance.rs:447-613:
   ActionState, ActionEvents, ActionData::{new,update,trigger_events_typed}. *)
From BEI Require Export Model.Value.

Inductive state := SNone | SOngoing | SFired.
Definition state_rank (s : state) : nat := match s with SNone => 0 | SOngoing => 1 | SFired => 2 end.
Definition state_eqb (a b : state) : bool := Nat.eqb (state_rank a) (state_rank b).
Definition state_cmp (a b : state) : comparison := Nat.compare (state_rank a) (state_rank b).

Inductive evkind := EStarted | EOngoing | EFired | ECanceled | ECompleted.
Definition evkind_eqb (a b : evkind) : bool :=
  match a, b with
  | EStarted, EStarted | EOngoing, EOngoing | EFired, EFired
  | ECanceled, ECanceled | ECompleted, ECompleted => true
  | _, _ => false
  end.

(* bitflags! ActionEvents: u8 *)
Definition events := N.
Definition ev_bit (k : evkind) : N :=
  match k with EStarted => 1 | EOngoing => 2 | EFired => 4 | ECanceled => 8 | ECompleted => 16 end%N.
Definition ev_empty : events := 0%N.
Definition ev_or (a b : events) : events := N.lor a b.
Definition ev_has (m : events) (k : evkind) : bool := negb (N.eqb (N.land m (ev_bit k)) 0).
(* bitflags' iter_names yields the named flags in declaration (ascending bit) order *)
Definition all_kinds : list evkind := [EStarted; EOngoing; EFired; ECanceled; ECompleted].
Definition iter_names (m : events) : list evkind := filter (ev_has m) all_kinds.

(* ActionEvents::new *)
Definition events_new (previous current : state) : events :=
  match previous, current with
  | SNone, SNone => ev_empty
  | SNone, SOngoing => ev_or (ev_bit EStarted) (ev_bit EOngoing)
  | SNone, SFired => ev_or (ev_bit EStarted) (ev_bit EFired)
  | SOngoing, SNone => ev_bit ECanceled
  | SOngoing, SOngoing => ev_bit EOngoing
  | SOngoing, SFired => ev_bit EFired
  | SFired, SNone => ev_bit ECompleted
  | SFired, SOngoing => ev_bit EOngoing
  | SFired, SFired => ev_bit EFired
  end.

(* ActionData *)
Record data := mkData {
  d_state : state; d_events : events; d_value : value; d_elapsed : Q; d_fired : Q }.

Definition data_new (d : dim) : data := mkData SNone ev_empty (vzero d) 0 0.

(* ActionData::update: durations from the OLD state, events from (old, new), then overwrite *)
Definition data_update (dt : Q) (d : data) (s : state) (v : value) : data :=
  let '(el, fi) :=
    match d_state d with
    | SNone => (0, 0)
    | SOngoing => (Qred (d_elapsed d + dt), 0)
    | SFired => (Qred (d_elapsed d + dt), Qred (d_fired d + dt))
    end in
  mkData s (events_new (d_state d) s) v el fi.

(* Events as observers see them *)
Definition entity := Z.
Definition aid := Z.
Record event := mkEv {
  e_target : entity; e_action : aid; e_kind : evkind;
  e_value : value; e_state : state; e_elapsed : option Q; e_fired : option Q }.

(* the payload trigger_events_typed builds for flag k *)
Definition mk_event (a : aid) (d : data) (k : evkind) (e : entity) : event :=
  match k with
  | EStarted => mkEv e a k (d_value d) (d_state d) None None
  | EOngoing | ECanceled => mkEv e a k (d_value d) (d_state d) (Some (d_elapsed d)) None
  | EFired | ECompleted => mkEv e a k (d_value d) (d_state d) (Some (d_elapsed d)) (Some (d_fired d))
  end.

(* trigger_events_typed: for each flag in bit order, for each entity; A::Output::as_output panics
   (None) if the stored value does not have the action's dimension *)
Definition emit (adim : dim) (a : aid) (d : data) (recipients : list entity) : option (list event) :=
  match iter_names (d_events d) with
  | [] => Some []
  | ks => if dim_eqb (vdim (d_value d)) adim
          then Some (flat_map (fun k => map (mk_event a d k) recipients) ks)
          else None
  end.
