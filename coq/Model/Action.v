(* src/input_context/context_instance.rs: ActionBind::update, ContextInstance::{bind,update,trigger_removed} *)
From BEI Require Export Model.Reader.
Open Scope Z_scope.

(* action ids carry the static properties of the action type (see harness/src/types.rs):
   aid = dim*16 + slot*4 + consume*2 + maxabs *)
Definition aid_dim (a : aid) : dim := match a / 16 with 0 => DBool | 1 => D1 | 2 => D2 | _ => D3 end.
Definition aid_consume (a : aid) : bool := Z.testbit a 1.
Definition aid_accum (a : aid) : accumulation := if Z.testbit a 0 then MaxAbs else Cumulative.

(* what the instrumented conditions and modifiers record *)
Inductive logitem :=
| LCond (id : Z) (vin : value) (res : state) (seen : list (Z * state))
| LMod (id : Z) (vin vout : value) (seen : list (Z * state)).

Record ibind := mkIbind { ib_input : input; ib_mods : list (Z * modif); ib_conds : list (Z * cond); ib_ignored : bool }.
Record abind := mkAbind { ab_id : aid; ab_mods : list (Z * modif); ab_conds : list (Z * cond); ab_inputs : list ibind }.
Definition actions := list (aid * data).      (* ActionsData: a map, never iterated by the crate *)

Fixpoint lookup (a : aid) (m : actions) : option data :=
  match m with [] => None | (k, d) :: r => if Z.eqb k a then Some d else lookup a r end.
Fixpoint store (a : aid) (d : data) (m : actions) : actions :=
  match m with [] => [(a, d)] | (k, x) :: r => if Z.eqb k a then (k, d) :: r else (k, x) :: store a d r end.
Definition look_of (m : actions) : aid -> option state := fun a => option_map d_state (lookup a m).

(* what a wrapper sees: the state of every action of the instance, sorted by id *)
Fixpoint insert_sorted (p : Z * state) (l : list (Z * state)) : list (Z * state) :=
  match l with [] => [p] | q :: r => if Z.leb (fst p) (fst q) then p :: l else q :: insert_sorted p r end.
Definition seen_of (m : actions) : list (Z * state) :=
  fold_right (fun kd acc => insert_sorted (fst kd, d_state (snd kd)) acc) [] m.

(* TriggerTracker::apply_modifiers / apply_conditions: every entry, in order, no early out *)
Fixpoint apply_mods (m : actions) (tm : time) (v : value) (ms : list (Z * modif))
  : list (Z * modif) * value * list logitem :=
  match ms with
  | [] => ([], v, [])
  | (id, x) :: r =>
      let '(x', v') := modif_apply (look_of m) tm v x in
      let '(r', v'', lg) := apply_mods m tm v' r in
      ((id, x') :: r', v'', LMod id v v' (seen_of m) :: lg)
  end.
Fixpoint apply_conds (m : actions) (tm : time) (t : tracker) (cs : list (Z * cond))
  : list (Z * cond) * tracker * list logitem :=
  match cs with
  | [] => ([], t, [])
  | (id, c) :: r =>
      let '(c', s) := cond_eval (look_of m) tm (t_value t) c in
      let '(r', t', lg) := apply_conds m tm (apply_result t (cond_kind c) s) r in
      ((id, c') :: r', t', LCond id (t_value t) s (seen_of m) :: lg)
  end.

Record loop_state := mkLoop { l_tracker : tracker; l_buffer : list input; l_log : list logitem }.

(* one iteration of the loop over self.bindings *)
Definition input_step (m : actions) (tm : time) (r : raw) (c : consumed) (dev : device) (a : aid)
           (st : loop_state) (b : ibind) : loop_state * ibind :=
  let v := reader_value r c dev (ib_input b) in
  (* held-input suppression looks at the raw device state (InputReader::raw_value: nothing consumed, no UI flag) *)
  if ib_ignored b && as_bool (reader_value r consumed_reset dev (ib_input b)) then (st, b)
  else
    let '(ms', v', lg1) := apply_mods m tm v (ib_mods b) in
    let '(cs', cur, lg2) := apply_conds m tm (tracker_new v') (ib_conds b) in
    let b' := mkIbind (ib_input b) ms' cs' false in
    let lg := l_log st ++ lg1 ++ lg2 in
    let cur_state := tracker_state cur in
    if state_eqb cur_state SNone then (mkLoop (l_tracker st) (l_buffer st) lg, b')
    else
      match state_cmp cur_state (tracker_state (l_tracker st)) with
      | Lt => (mkLoop (l_tracker st) (l_buffer st) lg, b')
      | Eq => (mkLoop (tr_combine (l_tracker st) cur (aid_accum a))
                      (if aid_consume a then l_buffer st ++ [ib_input b] else l_buffer st) lg, b')
      | Gt => (mkLoop (tr_overwrite (l_tracker st) cur)
                      (if aid_consume a then [ib_input b] else l_buffer st) lg, b')
      end.

Fixpoint input_loop (m : actions) (tm : time) (r : raw) (c : consumed) (dev : device) (a : aid)
         (st : loop_state) (bs : list ibind) : loop_state * list ibind :=
  match bs with
  | [] => (st, [])
  | b :: rest =>
      let '(st', b') := input_step m tm r c dev a st b in
      let '(st'', rest') := input_loop m tm r c dev a st' rest in
      (st'', b' :: rest')
  end.

Record action_out := mkActionOut {
  o_bind : abind; o_actions : actions; o_consumed : consumed;
  o_events : option (list event);      (* None: A::Output::as_output would panic *)
  o_log : list logitem }.

(* ActionBind::update *)
Definition action_update (m : actions) (tm : time) (r : raw) (c : consumed) (dev : device)
           (recipients : list entity) (ab : abind) : action_out :=
  let a := ab_id ab in
  let '(st, inputs') := input_loop m tm r c dev a (mkLoop (tracker_new (vzero (aid_dim a))) [] []) (ab_inputs ab) in
  let '(ms', v1, lg1) := apply_mods m tm (t_value (l_tracker st)) (ab_mods ab) in
  let '(cs', tr, lg2) := apply_conds m tm (with_value (l_tracker st) v1) (ab_conds ab) in
  let s := tracker_state tr in
  let v := convert (aid_dim a) (t_value tr) in
  let c' := if aid_consume a && negb (state_eqb s SNone) then fold_left (fun acc i => consume acc dev i) (l_buffer st) c else c in
  let d := match lookup a m with Some d => d | None => data_new (aid_dim a) end in
  let d' := data_update (vdelta tm) d s v in
  mkActionOut (mkAbind a ms' cs' inputs') (store a d' m) c'
              (if events_blocked tr then Some [] else emit (aid_dim a) a d' recipients)
              (l_log st ++ lg1 ++ lg2).

(* ContextInstance *)
Record inst := mkInst { in_pad : device; in_binds : list abind; in_actions : actions }.

Record inst_out := mkInstOut { io_inst : inst; io_consumed : consumed; io_events : option (list event); io_log : list logitem }.

Fixpoint binds_update (m : actions) (tm : time) (r : raw) (c : consumed) (dev : device) (recipients : list entity)
         (bs : list abind) : list abind * actions * consumed * option (list event) * list logitem :=
  match bs with
  | [] => ([], m, c, Some [], [])
  | b :: rest =>
      let o := action_update m tm r c dev recipients b in
      let '(rest', m', c', ev, lg) := binds_update (o_actions o) tm r (o_consumed o) dev recipients rest in
      (o_bind o :: rest', m', c',
       match o_events o, ev with Some e1, Some e2 => Some (e1 ++ e2) | _, _ => None end,
       o_log o ++ lg)
  end.

Definition inst_update (tm : time) (r : raw) (c : consumed) (recipients : list entity) (i : inst) : inst_out :=
  let '(bs, m, c', ev, lg) := binds_update (in_actions i) tm r c (in_pad i) recipients (in_binds i) in
  mkInstOut (mkInst (in_pad i) bs m) c' ev lg.

(* trigger_removed: a COPY of each action's data goes to None with the zero of the binding's
   dimension and its events are triggered; the instance is untouched *)
Definition trigger_removed (tm : time) (recipients : list entity) (i : inst) : option (list event) :=
  fold_left (fun acc b =>
    match acc, lookup (ab_id b) (in_actions i) with
    | Some evs, Some d =>
        let d' := data_update (vdelta tm) d SNone (vzero (aid_dim (ab_id b))) in
        match emit (aid_dim (ab_id b)) (ab_id b) d' recipients with Some e => Some (evs ++ e) | None => None end
    | _, _ => None
    end) (in_binds i) (Some []).

(* configuration of an instance, as context_instance() builds it *)
Record bind_spec := mkBind { b_input : input; b_mods : list (Z * modif); b_conds : list (Z * cond) }.
Record action_spec := mkAction { a_id : aid; a_mods : list (Z * modif); a_conds : list (Z * cond); a_binds : list bind_spec }.
Record inst_spec := mkSpec { i_pad : device; i_actions : list action_spec }.

(* ContextInstance::bind: a new action is appended; binding it again extends the existing entry *)
Definition ibind_of (b : bind_spec) : ibind := mkIbind (b_input b) (b_mods b) (b_conds b) true.
Fixpoint extend (s : action_spec) (bs : list abind) : option (list abind) :=
  match bs with
  | [] => None
  | b :: r =>
      if Z.eqb (ab_id b) (a_id s)
      then Some (mkAbind (ab_id b) (ab_mods b ++ a_mods s) (ab_conds b ++ a_conds s) (ab_inputs b ++ map ibind_of (a_binds s)) :: r)
      else option_map (cons b) (extend s r)
  end.
Definition bind_action (i : inst) (s : action_spec) : inst :=
  match extend s (in_binds i) with
  | Some bs => mkInst (in_pad i) bs (in_actions i)
  | None => mkInst (in_pad i)
                   (in_binds i ++ [mkAbind (a_id s) (a_mods s) (a_conds s) (map ibind_of (a_binds s))])
                   (store (a_id s) (data_new (aid_dim (a_id s))) (in_actions i))
  end.
Definition instantiate (s : inst_spec) : inst :=
  fold_left bind_action (i_actions s) (mkInst (i_pad s) [] []).
