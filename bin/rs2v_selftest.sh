#!/bin/bash
# Self-test of bin/rs2v.py: single-token edits of the Rust sources must (a) change the generated Gallina and
# (b) make Proofs/SrcTieP.v stop compiling; an edit outside the subset must make rs2v.py exit with status 2.
# usage: [ONLY='regex'] bin/rs2v_selftest.sh [repo]   (default repo: /repo; it is only read; ONLY = regex selecting edits by name)
set -u
HERE="$(cd "$(dirname "$0")/.." && pwd)"
REPO="${1:-/repo}"
COQ="$HERE/coq"
RS2V="$HERE/bin/rs2v.py"
TMP="$(mktemp -d /tmp/rs2v_selftest.XXXXXX)"
trap 'rm -rf "$TMP"' EXIT

FILES="src/action_value.rs src/input_context/events.rs src/input_context/context_instance.rs src/input_context/context_instance/trigger_tracker.rs"
FILES="$FILES src/input.rs src/input/input_reader.rs src/input_context/input_bind.rs src/input_context.rs"
for f in "$REPO"/src/input_context/input_condition/*.rs "$REPO"/src/input_context/input_modifier/*.rs; do
  FILES="$FILES ${f#$REPO/}"
done

# the compiled model files the tie needs
MODEL="Model/Num Model/Value Model/State Model/Tracker Model/Cond Model/Modif Model/Reader Model/Action Model/Registry Proofs/ValueP"
# compile order of the regenerated files and the tie files
CHAIN="Generated/GlamTbl Generated/ValueSrc Generated/EventsSrc Generated/TrackerSrc Proofs/SrcTieP Generated/DataSrc Generated/CondSrc Generated/GlamTbl2 Generated/ModifSrc Proofs/SrcTie2P Generated/BevyTbl Generated/ReaderSrc Proofs/SrcTie3P Generated/ActionSrc Proofs/SrcTie4P Generated/RegTbl Generated/RegistrySrc Proofs/SrcTie5P Proofs/SrcTie6P Proofs/SrcTie7P"
( cd "$COQ" && [ -f Makefile ] || coq_makefile -f _CoqProject -o Makefile >/dev/null 2>&1
  cd "$COQ" && timeout 1500 make Model/Reader.vo Proofs/ValueP.vo Proofs/SrcTie2P.vo Proofs/SrcTie3P.vo Proofs/SrcTie4P.vo Proofs/SrcTie5P.vo Proofs/SrcTie6P.vo Proofs/SrcTie7P.vo Model/Registry.vo >/dev/null 2>&1 )
for f in $MODEL; do
  [ -f "$COQ/$f.vo" ] || { echo "missing $COQ/$f.vo (build the development first)"; exit 1; }
done

fresh_src() {   # $1 = directory to fill with a pristine copy of the four files
  rm -rf "$1"; for f in $FILES; do mkdir -p "$1/$(dirname "$f")"; cp "$REPO/$f" "$1/$f"; done
}

# edit FILE OLD NEW : replace the single occurrence of OLD (must occur exactly once) by NEW
edit() {
  python3 - "$1" "$2" "$3" <<'EOF'
import sys
path, old, new = sys.argv[1], sys.argv[2].replace('\\n', '\n'), sys.argv[3].replace('\\n', '\n')
s = open(path).read()
if s.count(old) != 1:
    sys.stderr.write("selftest: %r occurs %d times in %s\n" % (old, s.count(old), path)); sys.exit(1)
open(path, 'w').write(s.replace(old, new))
EOF
}

# tie_compiles GENDIR : 0 if the generated files and the tie files compile together.
# Files of the chain are recompiled from the first one whose text differs from coq/ (or has no .vo there).
tie_compiles() {
  local W="$TMP/coqwork" dirty=no
  rm -rf "$W"; mkdir -p "$W/Model" "$W/Proofs" "$W/Generated"
  for f in $MODEL; do cp "$COQ/$f.vo" "$W/$f.vo"; done
  cp "$COQ/Proofs/SrcTieP.v" "$COQ/Proofs/SrcTie2P.v" "$COQ/Proofs/SrcTie3P.v" "$COQ/Proofs/SrcTie4P.v" "$COQ/Proofs/SrcTie5P.v" "$COQ/Proofs/SrcTie6P.v" "$COQ/Proofs/SrcTie7P.v" "$W/Proofs/"
  cp "$1"/*.v "$W/Generated/"
  for f in $CHAIN; do
    [ -f "$W/$f.v" ] || continue
    if [ "$dirty" = no ] && [ -f "$COQ/$f.vo" ] && cmp -s "$W/$f.v" "$COQ/$f.v"; then cp "$COQ/$f.vo" "$W/$f.vo"; continue; fi
    dirty=yes
    ( cd "$W" && timeout 300 coqc -q -Q . BEI -w -notation-overridden "$f.v" >"$W/log" 2>&1 ) || { echo "$f" >"$W/stage"; return 1; }
  done
}

# ---- baseline
if [ -d "$REPO/.git" ] && ! git -C "$REPO" diff --quiet HEAD -- src 2>/dev/null; then
  echo "note: the working tree of $REPO differs from its HEAD under src/ (somebody is editing it); to test the committed sources:"
  echo "      mkdir /tmp/repo_head && git -C $REPO archive HEAD src | tar -x -C /tmp/repo_head && $0 /tmp/repo_head"
fi
fresh_src "$TMP/base"
python3 "$RS2V" --repo "$TMP/base" --out "$TMP/gen_base" 2>"$TMP/err" || { echo "baseline: rs2v.py failed: $(cat "$TMP/err")"; exit 1; }
if tie_compiles "$TMP/gen_base"; then echo "baseline: translated=yes tie-compiles=yes"; else
  echo "baseline: tie does NOT compile ($(cat "$TMP/coqwork/stage")): $(grep -v '^Closed' "$TMP/coqwork/log" | head -5)"; exit 1; fi
if [ -d "$COQ/Generated" ] && diff -rq "$TMP/gen_base" "$COQ/Generated" --exclude='*.vo*' --exclude='*.glob' --exclude='.*.aux' >/dev/null 2>&1; then
  echo "baseline: coq/Generated is up to date with $REPO"; else echo "baseline: coq/Generated differs from a fresh translation of $REPO"; fi

FAIL=0
# run_edit NAME FILE OLD NEW [OLD2 NEW2]
run_edit() {
  local name="$1" file="$2"
  if [ -n "${ONLY:-}" ] && ! [[ "$name" =~ $ONLY ]]; then return; fi
  fresh_src "$TMP/src"
  edit "$TMP/src/$file" "$3" "$4" || { echo "edit $name: COULD NOT APPLY"; FAIL=1; return; }
  if [ $# -ge 6 ]; then edit "$TMP/src/$file" "$5" "$6" || { echo "edit $name: COULD NOT APPLY"; FAIL=1; return; }; fi
  rm -rf "$TMP/gen"
  if ! python3 "$RS2V" --repo "$TMP/src" --out "$TMP/gen" 2>"$TMP/err"; then
    echo "edit $name: rs2v.py failed: $(grep -v conda "$TMP/err")"; FAIL=1; return; fi
  local differs=no breaks=no where=""
  diff -rq "$TMP/gen_base" "$TMP/gen" >/dev/null 2>&1 || differs=yes
  if ! tie_compiles "$TMP/gen"; then breaks=yes; where=" ($(cat "$TMP/coqwork/stage").v: $(grep -A3 '^Error' "$TMP/coqwork/log" | tr '\n' ' ' | cut -c1-110))"; fi
  echo "edit $name: generated-differs=$differs tie-breaks=$breaks$where"
  [ "$differs" = yes ] && [ "$breaks" = yes ] || FAIL=1
}

AV=src/action_value.rs
EV=src/input_context/events.rs
CI=src/input_context/context_instance.rs
TT=src/input_context/context_instance/trigger_tracker.rs

run_edit swap-arms-of-events-new "$EV" \
  '(ActionState::Ongoing, ActionState::None) => ActionEvents::CANCELED,\n            (ActionState::Ongoing, ActionState::Ongoing) => ActionEvents::ONGOING,\n            (ActionState::Ongoing, ActionState::Fired) => ActionEvents::FIRED,\n            (ActionState::Fired, ActionState::None) => ActionEvents::COMPLETED,' \
  '(ActionState::Ongoing, ActionState::None) => ActionEvents::COMPLETED,\n            (ActionState::Ongoing, ActionState::Ongoing) => ActionEvents::ONGOING,\n            (ActionState::Ongoing, ActionState::Fired) => ActionEvents::FIRED,\n            (ActionState::Fired, ActionState::None) => ActionEvents::CANCELED,'
run_edit started-bit-constant "$EV" 'const STARTED = 0b00000001;' 'const STARTED = 0b00100000;'
run_edit as_axis1d-x-to-y "$AV" 'Self::Axis2D(value) => value.x,' 'Self::Axis2D(value) => value.y,'
run_edit is_actuated-ge-to-gt "$AV" '.length_squared() >= actuation' '.length_squared() > actuation'
run_edit blocked-oreq-to-eq "$TT" 'self.blocked |= blocked;' 'self.blocked = blocked;'
run_edit implicits-andeq-to-oreq "$TT" 'self.all_implicits_fired &= state ==' 'self.all_implicits_fired |= state =='
run_edit state-drop-negation "$TT" 'if !self.found_explicit && !self.found_implicit {' 'if self.found_explicit && !self.found_implicit {'
run_edit overwrite-drop-convert "$TT" 'self.value = self.value.convert(dim);' 'self.value = self.value;'
run_edit action-state-order "$CI" '    Ongoing,\n    /// The condition has been met.\n    Fired,' '    Fired,\n    /// The condition has been met.\n    Ongoing,'
run_edit as_axis2d-X-to-Y "$AV" 'Self::Axis1D(value) => Vec2::X * value,' 'Self::Axis1D(value) => Vec2::Y * value,'
run_edit new-implicits-true-to-false "$TT" 'all_implicits_fired: true,' 'all_implicits_fired: false,'
run_edit maxabs-lt-to-gt "$TT" 'if axis.abs() < other_axis.abs() {' 'if axis.abs() > other_axis.abs() {'
run_edit state-or-to-and "$TT" '(!self.found_explicit || self.any_explicit_fired)' '(!self.found_explicit && self.any_explicit_fired)'
run_edit as_bool-zero-constant "$AV" 'Self::Axis1D(value) => value != 0.0,' 'Self::Axis1D(value) => value != 1.0,'
run_edit evaluate-argument "$TT" 'condition.evaluate(actions, time, self.value);' 'condition.evaluate(actions, time, self.value.convert(ActionValueDim::Bool));'

# ---- second wave: ActionData::update, condition timer, built-in conditions
CD=src/input_context/input_condition
run_edit data-elapsed-reset "$CI" 'self.elapsed_secs = 0.0;' 'self.elapsed_secs += 0.0;'
run_edit data-events-from-new-state "$CI" 'ActionEvents::new(self.state, state);' 'ActionEvents::new(state, state);'
run_edit data-fired-minus "$CI" 'self.fired_secs += time.delta_secs();' 'self.fired_secs -= time.delta_secs();'
run_edit timer-guard "$CD/condition_timer.rs" 'if scale != 0.0 {' 'if scale == 0.0 {'
run_edit timer-div-to-mul "$CD/condition_timer.rs" 'timer.delta_secs() / scale' 'timer.delta_secs() * scale'
run_edit timer-relative-negated "$CD/condition_timer.rs" 'let scale = if self.relative_speed {' 'let scale = if !self.relative_speed {'
run_edit press-state "$CD/press.rs" 'ActionState::Fired\n        } else {' 'ActionState::Ongoing\n        } else {'
run_edit press-negated "$CD/press.rs" 'if value.is_actuated(self.actuation) {' 'if !value.is_actuated(self.actuation) {'
run_edit just_press-drop-negation "$CD/just_press.rs" 'self.actuated && !previously_actuated' 'self.actuated && previously_actuated'
run_edit just_press-memory "$CD/just_press.rs" 'self.actuated = value.is_actuated(self.actuation);' 'self.actuated = !value.is_actuated(self.actuation);'
run_edit release-negated "$CD/release.rs" '} else if previously_actuated {' '} else if !previously_actuated {'
run_edit release-state "$CD/release.rs" '// Ongoing on hold.\n            ActionState::Ongoing' '// Ongoing on hold.\n            ActionState::Fired'
run_edit hold-ge-to-gt "$CD/hold.rs" 'self.timer.duration() >= self.hold_time' 'self.timer.duration() > self.hold_time'
run_edit hold-or-to-and "$CD/hold.rs" 'is_first_trigger || !self.one_shot' 'is_first_trigger && !self.one_shot'
run_edit hold_and_release-and-to-or "$CD/hold_and_release.rs" 'previously_actuated && held_duration >= self.hold_time' 'previously_actuated || held_duration >= self.hold_time'
run_edit hold_and_release-drop-reset "$CD/hold_and_release.rs" 'self.timer.reset();\n            // Trigger' '// Trigger'
run_edit tap-le-to-lt "$CD/tap.rs" 'last_held_duration <= self.release_time' 'last_held_duration < self.release_time'
run_edit tap-ge-to-gt "$CD/tap.rs" 'self.timer.duration() >= self.release_time' 'self.timer.duration() > self.release_time'
run_edit pulse-count-constant "$CD/pulse.rs" 'self.trigger_count + 1' 'self.trigger_count + 2'
run_edit pulse-limit-test "$CD/pulse.rs" 'self.trigger_limit == 0 ||' 'self.trigger_limit != 0 ||'
run_edit chord-kind "$CD/chord.rs" 'ConditionKind::Implicit\n' 'ConditionKind::Explicit\n'
run_edit chord-missing-state "$CD/chord.rs" 'ActionState::None\n        }\n    }\n\n    fn kind' 'ActionState::Fired\n        }\n    }\n\n    fn kind'
run_edit block_by-eq-to-ne "$CD/block_by.rs" 'if action.state() == ActionState::Fired {' 'if action.state() != ActionState::Fired {'
run_edit block_by-kind-negated "$CD/block_by.rs" 'events_only: self.events_only,' 'events_only: !self.events_only,'

# ---- second wave: modifiers
MD=src/input_context/input_modifier
run_edit scale-x-to-y "$MD/scale.rs" 'ActionValue::Axis1D(value) => (value * self.factor.x).into(),' 'ActionValue::Axis1D(value) => (value * self.factor.y).into(),'
run_edit scale-mul-to-add "$MD/scale.rs" '(value * self.factor.xy()).into()' '(value + self.factor.xy()).into()'
run_edit delta_scale-mul-to-div "$MD/delta_scale.rs" 'ActionValue::Axis1D(value) => (value * time.delta_secs()).into(),' 'ActionValue::Axis1D(value) => (value / time.delta_secs()).into(),'
run_edit delta_scale-bool-negated "$MD/delta_scale.rs" 'let value = if value { 1.0 } else { 0.0 };' 'let value = if !value { 1.0 } else { 0.0 };'
run_edit accumulate-eq-to-ne "$MD/accumulate_by.rs" 'if action.state() == ActionState::Fired {' 'if action.state() != ActionState::Fired {'
run_edit accumulate-pluseq-to-eq "$MD/accumulate_by.rs" 'self.value += value.as_axis3d();' 'self.value = value.as_axis3d();'
run_edit dead_zone-max-to-min "$MD/dead_zone.rs" '.max(0.0);' '.min(0.0);'
run_edit dead_zone-axis "$MD/dead_zone.rs" 'value.y = self.dead_zone(value.y);\n                    value.into()' 'value.y = self.dead_zone(value.x);\n                    value.into()'
run_edit dead_zone-kind-order "$MD/dead_zone.rs" '    #[default]\n    Radial,' '    #[default]\n    Axial,' '    Axial,\n}' '    Radial,\n}'
run_edit dead_zone-snap-literal "$MD/dead_zone.rs" 'scaled_value.min(1.0)' 'scaled_value.min(0.5)'

# ---- third wave: negate, swizzle_axis
run_edit negate-axis "$MD/negate.rs" 'if self.y {\n                    value.y = -value.y;\n                }\n                value.into()' 'if self.x {\n                    value.y = -value.y;\n                }\n                value.into()'
run_edit negate-drop-minus "$MD/negate.rs" '(-value).into()' '(value).into()'
run_edit swizzle-arm "$MD/swizzle_axis.rs" 'SwizzleAxis::ZYX => (0.0, value.y).into(),' 'SwizzleAxis::ZYX => (0.0, value.x).into(),'
run_edit swizzle-or-pattern "$MD/swizzle_axis.rs" 'SwizzleAxis::YXZ | SwizzleAxis::ZXY => (Vec2::Y * value).into(),\n                SwizzleAxis::ZYX | SwizzleAxis::YZX' 'SwizzleAxis::YXZ | SwizzleAxis::ZYX => (Vec2::Y * value).into(),\n                SwizzleAxis::ZXY | SwizzleAxis::YZX'
run_edit swizzle-method "$MD/swizzle_axis.rs" 'SwizzleAxis::YZX => value.yzx().into(),' 'SwizzleAxis::YZX => value.zxy().into(),'
# ---- third wave: input reader
IR=src/input/input_reader.rs
run_edit reader-key-consumed-negation "$IR" '&& !self.consumed.keys.contains(&key)' '&& self.consumed.keys.contains(&key)'
run_edit reader-motion-or-to-and "$IR" '|| self.consumed.mouse_motion' '&& self.consumed.mouse_motion'
run_edit reader-axis-filter "$IR" '.filter(|&value| value != 0.0)' '.filter(|&value| value == 0.0)'
run_edit reader-button-ui-flag "$IR" 'let pressed = !self.consumed.ui_wants_mouse' 'let pressed = self.consumed.ui_wants_mouse'
run_edit reader-mods-intersects "$IR" 'if self.consumed.mod_keys.intersects(mod_keys) {' 'if !self.consumed.mod_keys.intersects(mod_keys) {'
run_edit reader-any-pressed "$IR" 'if !self.keys.any_pressed(keys) {' 'if self.keys.any_pressed(keys) {'
run_edit reader-consume-wheel "$IR" 'self.consumed.mouse_wheel = true;' 'self.consumed.mouse_wheel = false;'
run_edit reader-consume-key-mods "$IR" 'self.consumed.keys.insert(key);\n                self.consumed.mod_keys.insert(mod_keys);' 'self.consumed.keys.insert(key);'
run_edit reader-consume-axis-set "$IR" 'self.consumed.gamepad_axes.insert(input);' 'self.consumed.gamepad_axes.clear();'
run_edit reader-reset-motion "$IR" 'self.mouse_motion = false;' 'self.mouse_motion = true;'
run_edit input-shift-bit "src/input.rs" 'const SHIFT = 0b00000100;' 'const SHIFT = 0b00010000;'
run_edit input-variant-order "src/input.rs" '[`ActionValue::Axis2D`](crate::action_value::ActionValue::Axis2D).\n    MouseMotion { mod_keys: ModKeys },' '[`ActionValue::Axis2D`](crate::action_value::ActionValue::Axis2D).\n    MouseWheel { mod_keys: ModKeys },' '[`ActionValue::Axis1D`](crate::action_value::ActionValue::Axis1D).\n    MouseWheel { mod_keys: ModKeys },' '[`ActionValue::Axis1D`](crate::action_value::ActionValue::Axis1D).\n    MouseMotion { mod_keys: ModKeys },'

# ---- fourth wave: ActionBind::update
run_edit action-combine-to-overwrite "$CI" 'tracker.combine(current_tracker, self.accumulation);' 'tracker.overwrite(current_tracker);'
run_edit action-drop-buffer-clear "$CI" 'self.consume_buffer.clear();\n                        self.consume_buffer.push(binding.input);' 'self.consume_buffer.push(binding.input);'
run_edit action-consume-on-none "$CI" 'if state != ActionState::None {\n                for &input' 'if state == ActionState::None {\n                for &input'
run_edit action-events-gate "$CI" 'if !tracker.events_blocked() {' 'if tracker.events_blocked() {'
run_edit action-skip-none "$CI" 'if current_state == ActionState::None {' 'if current_state != ActionState::None {'
run_edit action-ignored-stays "$CI" 'binding.ignored = false;' 'binding.ignored = true;'
run_edit action-less-greater "$CI" 'Ordering::Less => (),' 'Ordering::Greater => (),' 'Ordering::Greater => {' 'Ordering::Less => {'
run_edit action-drop-continue "$CI" 'if reader.raw_value(binding.input).as_bool() {\n                    continue;' 'if reader.raw_value(binding.input).as_bool() {'
run_edit action-drop-convert "$CI" 'let value = tracker.value().convert(self.dim);' 'let value = tracker.value();'
run_edit action-conditions-before-modifiers "$CI" 'tracker.apply_modifiers(actions, time, &mut self.modifiers);\n        tracker.apply_conditions(actions, time, &mut self.conditions);' 'tracker.apply_conditions(actions, time, &mut self.conditions);\n        tracker.apply_modifiers(actions, time, &mut self.modifiers);'
run_edit action-early-continue "$CI" 'let mut current_tracker = TriggerTracker::new(value);' 'if value.as_bool() { continue; }\n            let mut current_tracker = TriggerTracker::new(value);'

# ---- fifth wave: ContextInstances
IC=src/input_context.rs
run_edit registry-shared-push "$IC" 'entities.push(entity);' 'entities.clear();'
run_edit registry-insert-to-push "$IC" 'self.0.insert(index, group);' 'self.0.push(group);'
run_edit registry-mode-swap "$IC" 'ContextMode::Exclusive => Self::Exclusive {' 'ContextMode::Shared => Self::Exclusive {' 'ContextMode::Shared => Self::Shared {' 'ContextMode::Exclusive => Self::Shared {'
run_edit registry-new-entities "$IC" 'entities: vec![entity],' 'entities: vec![entity, entity],'
run_edit registry-search-key "$IC" '|group| Reverse(group.priority())' '|group| Reverse(C::PRIORITY)'

# ---- sixth wave: ContextInstances::get
run_edit registry-get-entity-test "$IC" 'if *entity == instance_entity {' 'if *entity == *entity {'
run_edit registry-get-shared-contains "$IC" 'entities.contains(&instance_entity).then_some(ctx)' '(!entities.contains(&instance_entity)).then_some(ctx)'
run_edit registry-get-swap-branches "$IC" 'if *entity == instance_entity {\n                        Some(ctx)\n                    } else {\n                        None' 'if *entity == instance_entity {\n                        None\n                    } else {\n                        Some(ctx)'

# ---- sixth wave: ContextInstances::remove
run_edit registry-remove-swap-to-remove "$IC" 'entities.swap_remove(entity_index);' 'entities.remove(entity_index);'
run_edit registry-remove-empty-test "$IC" 'if empty {' 'if !empty {'
run_edit registry-remove-position "$IC" '.position(|&mapped_entity| mapped_entity == entity)' '.position(|&mapped_entity| mapped_entity == mapped_entity)'
run_edit registry-remove-instances-empty "$IC" 'instances.is_empty()' '!instances.is_empty()'
run_edit registry-remove-trigger-entity "$IC" 'instance.trigger_removed(commands, time, &[entity]);' 'instance.trigger_removed(commands, time, &[entity, entity]);'

# ---- seventh wave: ContextInstances::update
run_edit registry-update-exclusive-entities "$IC" 'ctx.update(commands, reader, time, &[*entity]);' 'ctx.update(commands, reader, time, &[*entity, *entity]);'
run_edit registry-update-swap-arms "$IC" 'ctx.update(commands, reader, time, entities);' 'ctx.update(commands, reader, time, entities);\n                    ctx.update(commands, reader, time, entities);'

# ---- outside the subset: must be reported, not guessed
run_unsupported() {
  local name="$1" file="$2"
  if [ -n "${ONLY:-}" ] && ! [[ "$name" =~ $ONLY ]]; then return; fi
  fresh_src "$TMP/src"
  edit "$TMP/src/$file" "$3" "$4" || { echo "edit $name: COULD NOT APPLY"; FAIL=1; return; }
  rm -rf "$TMP/gen"
  python3 "$RS2V" --repo "$TMP/src" --out "$TMP/gen" 2>"$TMP/err"; local st=$?
  local wrote=no; [ -d "$TMP/gen" ] && wrote=yes
  echo "edit $name: exit-status=$st output-written=$wrote message=$(grep '^unsupported' "$TMP/err")"
  [ "$st" = 2 ] && [ "$wrote" = no ] || FAIL=1
}
run_unsupported unsupported-if-let "$TT" 'if self.blocked {' 'if let true = self.blocked {'
run_unsupported unsupported-closure "$AV" 'Self::Axis3D(value) => value.xy(),' 'Self::Axis3D(value) => (|v: Vec3| v.xy())(value),'
run_unsupported unsupported-unknown-method "$AV" 'Self::Axis1D(value) => value != 0.0,' 'Self::Axis1D(value) => value.is_normal(),'
run_unsupported unsupported-new-variant "$CI" '    Fired,\n}' '    Fired,\n    Paused,\n}'
run_unsupported unsupported-while-loop "$CD/pulse.rs" 'self.timer.reset();\n\n            self.trigger_count = 0;' 'self.timer.reset();\n            while self.trigger_count > 0 { self.trigger_count = 0; }'
run_unsupported unsupported-lost-mutation "$CD/hold.rs" 'let is_first_trigger = !self.fired;' 'let is_first_trigger = if self.fired { self.fired = false; false } else { true };'
run_unsupported unsupported-closure-capture "$IR" '.is_ok_and(|gamepad| gamepad.pressed(button)),' '.is_ok_and(move |gamepad| gamepad.pressed(button)),'
run_unsupported unsupported-bevy-call "$IR" '&& self.keys.pressed(key)' '&& self.keys.just_pressed(key)'
run_unsupported unsupported-action-early-return "$CI" 'let state = tracker.state();\n        let value = tracker.value()' 'let state = tracker.state();\n        if state == ActionState::None { return; }\n        let value = tracker.value()'
run_unsupported unsupported-registry-ne "$IC" 'group.type_id() == TypeId::of::<C>()' 'group.type_id() != TypeId::of::<C>()'
run_unsupported unsupported-registry-truncate "$IC" 'self.0.remove(group_index);' 'self.0.truncate(group_index);'
run_unsupported unsupported-registry-update-shared-first-entity "$IC" 'ctx.update(commands, reader, time, entities);' 'ctx.update(commands, reader, time, &entities[..1]);'
run_unsupported unsupported-extra-loop-statement "$TT" '        for condition in conditions {' '        self.blocked = false;\n        for condition in conditions {'

if [ "$FAIL" = 0 ]; then echo "selftest: PASS"; else echo "selftest: FAIL"; exit 1; fi
