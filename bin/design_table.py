#!/usr/bin/env python3
"""Regenerate the table of seeded changes at the end of DESIGN.md (section 11.8) from seeded/*/meta.json."""
import json, glob, os, re
ROOT = os.path.dirname(os.path.dirname(os.path.abspath(__file__)))
p = os.path.join(ROOT, 'DESIGN.md'); s = open(p).read()
j = s.index("| change | written against |")
rows = ["| change | written against | what it does | reported by |", "|---|---|---|---|"]
def key(d):
    n = os.path.basename(d); m = re.match(r'(C\d\d)_(r\d)?m(\d)', n); return (m.group(2) or '', m.group(1), m.group(3))
for d in sorted(glob.glob(os.path.join(ROOT, 'seeded/*')), key=key):
    m = json.load(open(d + '/meta.json'))
    rows.append("| %s | %s | %s | %s |" % (os.path.basename(d), m['breaks_property'], m['change'].replace('|', '/'), '; '.join(m['caught_by']).replace('|', '/')))
open(p, 'w').write(s[:j] + '\n'.join(rows) + '\n')
print(len(rows) - 2, 'rows')
