#!/usr/bin/env python3
"""rs2v.py - regenerate Gallina definitions from the Rust SOURCE TEXT of the pure core of bevy_enhanced_input.

usage:  python3 bin/rs2v.py --repo /repo --out coq/Generated

Writes  <out>/GlamTbl.v    fixed text: the TRUSTED table of glam / core meanings (see below)
        <out>/ValueSrc.v   src/action_value.rs: enum ActionValue / ActionValueDim (declaration order),
                           ActionValue::{zero, dim, convert, is_actuated, as_bool, as_axis1d, as_axis2d, as_axis3d}
                           and the `impl From<..> for ActionValue` blocks that `.into()` resolves to
        <out>/EventsSrc.v  src/input_context/events.rs: the bitflags! block of ActionEvents, ActionEvents::new;
                           src/input_context/context_instance.rs: enum ActionState (declaration order, PartialEq)
        <out>/TrackerSrc.v src/input_context/context_instance/trigger_tracker.rs: struct TriggerTracker (fields,
                           one setter per field), TriggerTracker::{new, state, value, events_blocked, overwrite,
                           combine} and the body of the `for condition in conditions` loop of apply_conditions
                           as the step function apply_cond_src (kind, evaluated state, tracker) -> tracker
The theorems that these definitions coincide with the hand-written model are in coq/Proofs/SrcTieP.v.
On anything outside the subset below the script prints `unsupported: <file>:<line>: <what>` to stderr, writes
NOTHING and exits with status 2.  It never guesses.

HOW IT WORKS.  A tokenizer for full Rust lexical syntax (comments, strings, raw strings, chars, lifetimes,
numbers with radix / suffix, all punctuation); an item-level scanner that finds `enum`, `struct`, `impl`, and
`name! {..}` items by name and skips everything else by bracket matching (so the rest of a file may use any
Rust); a recursive-descent parser producing an AST for the items asked for; a type checker / translator from the
typed AST to Gallina text.  Functions are found BY NAME, never by line number.  Every match arm, arm order,
operator, constant, field, constructor and call in the output comes from the AST.

SUPPORTED SUBSET
  items       enum (unit, tuple and struct variants, no generics / discriminants), struct with named fields,
              inherent `impl T { fn .. }`, `impl From<S> for T { fn from(..) }`, `bitflags! { struct T: uN { const A = <int literal>; .. } }`
  functions   no generics / where clauses; `self`, `&self`, `&mut self` (then the result must be (), and the
              Gallina function returns the new self); by-value or `&` parameters of the types below
  types       bool, f32, Vec2, Vec3, [f32; 3], ActionValue, ActionValueDim, ActionState, ActionEvents,
              TriggerTracker, Accumulation, ConditionKind, Self
  statements  `let [mut] x [: T] = e;`   `x = e;` `*x = e;` `x.f = e;` and the compound forms `|= &= ^= += -= *= /=`
              (x a `let mut` local, a `&mut self`, or the `&mut` variable of the zip loop)
              `if` / `match` / block statements that assign local state (become `let x := if .. then .. else ..`)
              `if c { .. return e; }` early returns at function level (the rest of the body becomes the else branch)
              `return e;`   `trace!(..)`, `debug!(..)`, `info!(..)` (skipped: logging only)
              `for (p, q) in x.iter_mut().zip(y) { .. *p = .. }` with x: `let mut` [f32; 3], y: [f32; 3]
              (the MaxAbs idiom of combine: the body becomes a function of one axis pair, applied per axis)
              `for c in <param of type &mut [Box<dyn InputCondition>]> { .. }` ONLY as the whole body of
              apply_conditions: the loop body becomes a step function; `c.kind()` and `c.evaluate(..)` (each at
              most once) become its parameters kind' and evaluated'; their argument texts are recorded in
              apply_cond_*_args_src so that a change there is visible too
  expressions literals (bool, float), variables, `T::CONST`, `T::Variant`, `T::Variant(e)`, `T::f(args)`,
              `e.f(args)`, `e.field`, `!e`, `-e`, `*p`, `a op b` for op in && || | & ^ == != < <= > >= + - * /
              (typed, see tables), `if c {..} else {..}`, `match e {..}` / `match (e1, e2) {..}`, blocks,
              `Self { f: e, g, .. all fields .. }`, `e.into()` (target type taken from the context)
  patterns    `_`, binding, true / false, `T::Variant`, `T::Variant(p..)`, `T::Variant { f, g: p }`, tuples of these
              in a `match (a, b)`; no guards, or-patterns, `..`, references, literals
  not supported (reported): generics, closures, `if let`, `while`, `loop`, general `for`, `?`, `as`, references
              (`&e`), indexing, tuples / arrays as values, ranges, struct update syntax, macros other than the
              logging ones, recursion, integer literals in expressions, shadowing a mutated variable by `let`, ..

TRUSTED TABLES (all in section 3 of this file; nothing else is assumed)
  1. Representation.  f32 is modelled by Q (exact rationals: no rounding, NaN, infinities, signed zero);
     Vec2 by Q*Q, Vec3 and [f32; 3] by Q*Q*Q; bool by bool; ActionEvents (bitflags over uN) by N with
     `|` = N.lor, `&` = N.land, `ActionEvents::empty()` = 0.
  2. Type correspondence (ENUM_MAP, RECORD_MAP): Rust enum variants / struct fields -> constructors / projections
     of the model's inductive types, imported from Model/*.v for TYPES only:
       ActionValue::{Bool(b), Axis1D(x), Axis2D(v), Axis3D(v)} -> VB b | V1 x | V2 x y | V3 x y z  (vector payloads
       are flattened: a pattern `Axis2D(value)` binds value' := (value'x, value'y)),
       ActionValueDim -> DBool D1 D2 D3, ActionState -> SNone SOngoing SFired,
       ConditionKind -> KExplicit KImplicit (KBlocker events_only), Accumulation -> Cumulative MaxAbs,
       TriggerTracker { value, found_explicit, .. } -> record tracker { t_value, found_explicit, .. }.
     The DECLARATIONS (variants, payloads, order, fields, derives) are parsed from the source and checked against
     this table; the order is emitted as <Enum>_index_src and tied to the model in SrcTieP.v.  ConditionKind and
     Accumulation are declared in files outside the four translated ones: their declaration is taken from
     EXTERNAL_ENUMS and re-checked against src/input_context/input_condition.rs / input_action.rs when present.
     `==` / `!=` on an enum requires derive(PartialEq) in the source (then: same variant), `<` etc. PartialOrd.
  3. Trait objects (TRAIT_METHODS): `dyn InputCondition` has `kind() -> ConditionKind`, `evaluate(..) -> ActionState`;
     both are opaque (the conditions themselves are not translated).
  4. glam / core meanings (GLAM_* tables, BINOP, text of GlamTbl.v):
       Vec2::{ZERO, ONE, X, Y} = (0,0) (1,1) (1,0) (0,1);  Vec3::{ZERO, ONE, X, Y, Z} likewise
       v.x v.y v.z  = components;   Vec * f32, f32 * Vec = component-wise product;   Vec + Vec = component-wise sum
       Vec == Vec / != = all components equal / not;   v.xy() = (x, y);   v.extend(z) = (x, y, z)
       v.length_squared() = x*x + y*y (+ z*z);   Vec3::to_array(), <[f32; 3] as Into<Vec3>>::into = identity on triples
       f32: + - * / = Qplus Qminus Qmult Qdiv;  == != < <= > >= = qeqb, negb qeqb, qltb, qleb (Model/Num.v), with
       a > b as qltb b a and a >= b as qleb b a;  abs() = qabs;   bool: && || | & ^ == != ! = andb orb orb andb xorb eqb negb
       x.iter_mut().zip(y) loop over [f32; 3] = the body applied to the three axis pairs in order
     `.into()` to ActionValue is NOT in the table: it is resolved to the `impl From<S> for ActionValue` found in the
     source, which is translated like any other function (from_bool_src, from_f32_src, from_Vec2_src, from_Vec3_src).
  5. Names: Rust local x -> x' ; T::f -> f_src (events_new_src, tracker_state_src, tracker_value_src for the
     three that would clash); flags -> ActionEvents_<NAME>_src.

SECOND WAVE (same rules).  Additional outputs:
        <out>/DataSrc.v    src/input_context/context_instance.rs: struct ActionData (mapped to the model record `data`;
                           the fn-pointer field is not modelled), ActionData::{update, state}
        <out>/CondSrc.v    src/input_context/input_condition/: condition_timer.rs (ConditionTimer::{update, reset,
                           duration}) and `evaluate` (+ `kind` where overridden) of press, just_press, release, hold,
                           hold_and_release, tap, pulse, chord, block_by
        <out>/GlamTbl2.v   fixed text: second part of the trusted glam table
        <out>/ModifSrc.v   src/input_context/input_modifier/: `apply` of scale, delta_scale, accumulate_by, dead_zone
                           (+ DeadZone::dead_zone, enum DeadZoneKind)
     NOT translated yet (rs2v.py reports them unsupported if asked): negate.rs, swizzle_axis.rs, delta_lerp.rs
     (self-recursive call on the converted Bool input; or-patterns; `if let` on an enum), exponential_curve.rs
     (free function, powf / copysign).
  Ties: coq/Proofs/SrcTie2P.v.
  Additions to the subset
     - structs WITHOUT a model record (ConditionTimer, Press, .., Scale, DeadZone, ..): a Gallina Record
       `<T>_src := mk_<T>_src { <T>_<field> : .. }` and one setter per field are GENERATED from the parsed declaration;
       generic structs `struct T<A: Bound>` and unit structs; fields of type PhantomData<..> / fn(..) are dropped
     - `impl [<A: Bound>] Trait for T[<A>]` for the traits InputCondition and InputModifier
     - `&mut self` methods WITH a result: the Gallina function returns (new self, result); every exit
       (tail expression, `return e`) is paired with the self of that program point
     - statements `place.m(args);` for a translated `&mut self` method m returning (); places `x`, `*x`, `place.field`
       (nested, e.g. self.timer.duration), `v.x = e` on a `mut` Vec2 / Vec3
     - `if let Some(x) = e { .. } else { .. }` on an Option (as statement, value, or with early `return`)
     - `T::Variant { f: e }` expressions; tuples of 2 / 3 f32 as arguments of `.into()`; `e as f32` from u32;
       u32 with literals, == != < <= > >= + * (typed from the context)
     - a block used as a VALUE in the middle of a function must not assign outer variables (reported), because the
       assignment would be lost in the functional form
  Additions to the trusted tables
     6. u32 is modelled by Z (no overflow / wrap-around); `n as f32` = inject_Z n.
     7. Float literals denote the nearest f32 (0.5, 1.0 exactly; 1e-4 = 13743895 / 137438953472), as a rational.
     8. Opaque parameters.  `&Time<Virtual>`: `delta_secs()` and `relative_speed()` become parameters dt' speed' : Q of
        the translated function, in the place of the time parameter (only those used; passed on in calls).
        `&ActionsData`: `actions.action::<A>()` with A a type parameter of the impl becomes the parameter
        lookup' : option data (the ActionData currently stored for A, if any); no other use is supported.
        Parameters of these types that are not used are dropped.  `impl Into<T>` parameters are modelled as the
        already converted T.  warn! / warn_once! are skipped like trace!.
     9. ActionData -> model record `data` (state, events, value, elapsed_secs, fired_secs -> d_state, d_events,
        d_value, d_elapsed, d_fired); DeadZoneKind -> dzkind (Radial, Axial); SwizzleAxis -> swz.
    10. glam, part 2 (text of GlamTbl2.v): Vec * Vec component-wise; f32::max / min = qmax / qmin (Model/Num.v);
        f32::signum x = if x < 0 then -1 else 1 (no -0.0 / NaN); swizzles yx, yxz, zyx, xzy, yzx, zxy;
        (f32, f32) -> Vec2 and (f32, f32, f32) -> Vec3 via into() = identity; `v.x = e` component update;
        length(v) = sqrt(length_squared v) and normalize_or_zero(v) = if length v == 0 then ZERO else v / length v,
        where sqrt is NOT defined by the table: a function using them gets an extra first parameter
        sqrt' : Q -> Q (the tie instantiates it with the model's qsqrt).

THIRD WAVE.  Additional outputs:
        <out>/BevyTbl.v    fixed text: the trusted table of Bevy / std meanings (below)
        <out>/ReaderSrc.v  src/input.rs: enum Input, enum GamepadDevice (declaration order, derived PartialEq), the
                           bitflags! block of ModKeys; src/input/input_reader.rs: struct ConsumedInput, struct
                           InputReader (feature-gated fields dropped), struct GamepadInput<T> (instantiated for
                           GamepadButton and GamepadAxis, with the derived PartialEq), ConsumedInput::reset,
                           InputReader::{mod_keys_pressed, value, consume}
        <out>/ModifSrc.v   now also `apply` of negate.rs and swizzle_axis.rs
     NOT translated: InputReader::update_state (cfg-gated statements), raw_value (mem::take), set_gamepad;
     ModKeys::iter_keys (a table entry instead); delta_lerp.rs, exponential_curve.rs; ActionData::trigger_events.
  Ties: coq/Proofs/SrcTie3P.v.
  Additions to the subset
     - closures `|x| e` / `|&x| e` with one parameter, ONLY as the argument of a table method (any, find_map,
       filter, is_ok_and, is_some_and, and_then); no assignments / `return` inside
     - `for x in ITER { if C { return E; } }` at function level = `match find (fun x => C) ITER with Some x => E | None => rest`
     - or-patterns `P | Q => e` in match arms (the arm is duplicated); `&p` patterns (Copy data)
     - lifetimes in generics (ignored); generic structs `struct S<T>` instantiated per type argument
       (record S_<Arg>_src); derive(PartialEq) on a generated record (all fields equal) and on an enum with
       integer payloads (same variant, equal payloads) as <T>_eqb_src
     - `*self.field` (copy out of a wrapper), `&x` arguments of table methods, `x.into()` on an
       `impl Into<T>` parameter without a type context (identity)
     - DIRECT SELF-RECURSION (negate, swizzle_axis: `self.apply(.., value.into())` on the converted Bool input):
       the function is emitted as the OPEN-RECURSION FUNCTIONAL  <f>_open_src (rec' : <type of f>) ..  in which
       the recursive call is rec'; the Rust function is a fixed point f = <f>_open_src f.  (Not inlined: the
       tie proves that the two-level unrolling does not depend on rec'.)  A tail call `self.m(..)` of a
       `&mut self` method with a result yields the callee's (self, result) pair.
  Additions to the trusted tables
    11. Representation of Bevy data (as in Model/Reader.v): KeyCode, MouseButton, GamepadButton, GamepadAxis, Entity:
        integers Z; ModKeys (bitflags over u8): a bit mask in Z with insert = Z.lor, empty() = 0; ButtonInput<T>: the
        list of pressed T; HashSet<T>: a list, insert(x) = x :: s, clear() = [], contains(&x) = existsb (eqb x) s with
        the eqb of T (Z.eqb, or the PartialEq derived in the source); AccumulatedMouseMotion / Scroll: the Vec2 `delta`;
        Query<&Gamepad>: list pad; Gamepad: the model record pad; Res<..> / Local<..> / ResMut<..>: transparent;
        Input -> model inductive input (Keyboard{key, mod_keys} -> IKey, MouseButton{..} -> IMouseButton,
        MouseMotion{..} -> IMotion, MouseWheel{..} -> IWheel, GamepadButton(b) -> IPadButton, GamepadAxis(a) -> IPadAxis);
        GamepadDevice -> device = option Z (Any -> None, Single(e) -> Some e).  The declarations are parsed and checked.
    12. Bevy / std calls (BEVY_* tables, text of BevyTbl.v), each a literal operation on that representation:
        ButtonInput::pressed(k) = set_mem k s;  any_pressed([a, b]) = existsb (fun k => set_mem k s) [a; b];
        Gamepad::pressed(b) = set_mem b (pad_buttons p);  Gamepad::get(a) = get_unclamped(a) = lookup of a in pad_axes p
        (clamping not modelled);  Query::iter() = the list;  Query::get(e) = find the pad with pad_id = e (Result as
        Option: is_ok_and = is_some_and, ok() = identity);  Iterator::any = existsb, find_map = first Some;
        Option::filter / and_then / unwrap_or_default (= 0.0 for f32);  ModKeys::is_empty(m) = (m =? 0),
        intersects(a, b) = (a land b <>? 0);  ModKeys::iter_keys(m) = for each set bit i of 0..3 in order the pair
        [100 + 2 i; 101 + 2 i] (the model's numbering of {Alt,Control,Shift,Super}{Left,Right}; iter_keys itself
        is NOT translated).

FOURTH WAVE.  <out>/ActionSrc.v: src/input_context/input_bind.rs struct InputBind, context_instance.rs struct ActionBind
  (generated records; `&str` field dropped) and ActionBind::update: the body of `for binding in &mut self.bindings`
  as the step function ActionBind_update_step_src over ((tracker, self), binding), the whole function as
  ActionBind_update_src returning (self, commands, reader, action).  Ties: coq/Proofs/SrcTie4P.v.
  Additions to the subset: `continue` (ends the step with the current state; `if .. { continue; }` makes the rest of
  the body the other branch); `for x in &mut PLACE { .. }` = for_mut (fixed text in ActionSrc.v) over a separate step
  Definition whose parameters are the live variables; `for x in &VEC { .. }` mutating one outer variable = fold_left;
  `&mut` parameters of a `&mut self` unit method are returned next to self; match-statement arms `=> ()`;
  Vec<T> = list T with push(x) = l ++ [x], clear() = []; ActionState::cmp (derive(Ord)) = Nat.compare of the
  declaration indices, Ordering -> comparison (Less Lt, Equal Eq, Greater Gt).
  OPAQUE PARAMETERS (Section variables of ActionSrc.v; ACTION_PRE, OPAQUE_PAIR_STMTS, EFFECT_STMTS,
  OPAQUE_VALUE_METHODS): Vec<Box<dyn InputModifier>> / Vec<Box<dyn InputCondition>> / Commands are abstract types
  Mods' Conds' Cmds'; t.apply_modifiers(actions, time, &mut ms) = let (t, ms) := apply_modifiers' t ms (likewise
  apply_conditions'; the `actions` / `time` arguments are fixed during the call and not passed);
  reader.raw_value(i) = raw_value' reader i; `let x = actions.get_mut(&k).expect(..)` binds x to entry' (the stored
  ActionData) and x is returned updated; action.trigger_events(commands, entities) = commands := trigger_events'
  action commands entities.  trace! is skipped.

FIFTH WAVE.  <out>/RegTbl.v (fixed text, trusted) and <out>/RegistrySrc.v: src/input_context.rs enum InstanceGroup, enum
  ContextMode (declaration order), InstanceGroup::{priority, type_id, new}, ContextInstances::{index, add}.
  NOT translated: ContextInstances::{remove, rebuild, get, update}.  Ties: coq/Proofs/SrcTie5P.v.
  Additions to the subset: generic functions `fn f<C: Bound>`; the constants / functions of the type parameter become
  parameters: TypeId::of::<C>() = type_id', C::PRIORITY = prio', C::MODE = shared' (ContextMode::Exclusive = false,
  Shared = true), C::context_instance(world, e) = context_instance' e (`&World` arguments are dropped); they are
  passed on in calls `self.f::<C>(..)` / `T::f::<C>(..)`; tuple struct with one field (newtype, `.0` = identity);
  `..` in struct patterns; `match *self`; `vec![a, b]`; tuples of arbitrary supported types; `Reverse(x)` (only its
  ordering matters: identity on isize); isize = Z, usize = nat;
  `match &mut VEC[i] { Variant { f, .. } => { mutate f } .. }` (a lens): the element is rebuilt from the updated
  fields and written back with Reg.set_at; OUT OF BOUNDS (a Rust panic) IS NOT MODELLED: the vector is unchanged.
  Table (text of RegTbl.v): Iterator::position; Vec::insert(i, x) = insert_at; Vec::iter() = the list;
  `v.binary_search_by_key(&Reverse(p), |g| Reverse(KEY g)).unwrap_or_else(|e| e)` = Reg.bsearch_rev_key KEY p v, a
  transcription of core::slice::binary_search_by identical to the model's `bsearch` in Model/Registry.v except that
  the key function is a parameter (the search itself is NOT translated from source).

SIXTH WAVE.  RegistrySrc.v now also has ContextInstances::{get, remove} (ties: coq/Proofs/SrcTie6P.v).  NOT translated:
  rebuild, update; ActionData::trigger_events; ContextInstance::{update, trigger_removed}; delta_lerp, exponential_curve.
  Additions to the subset: `let x = e?;` in an Option-valued function; `Some(e)`, `None`, `b.then_some(e)`;
  closures with tuple patterns `|(a, b)|`, `|&(a, _)|`; `*x` on a reference to Copy data; `&[a, b]` slices (lists);
  `match &VEC[i] {..}` in an Option-valued function (out of bounds, a panic, is rendered as None);
  EXPECT MODE: a `&mut self` unit function containing `.expect(..)` returns option (new state): `let x = E.expect(..)`
  = match E with Some x => .. | None => None; `let (a, b) = v.swap_remove(i)` = the element at i (None if out of
  bounds) then v := swap_remove i v; `let x = match &mut VEC[i] { Variant { f, .. } => { stmts; value } }` is
  continued inside each arm (x := value; the rebuilt element is written back with Reg.set_at; then the rest of the
  function), out of bounds = None.
  Table additions (RegTbl.v): Vec::remove(i) = remove_at, Vec::swap_remove(i) (transcribed as in Model/Registry.v),
  Vec::is_empty, Vec::contains = existsb eqb.  Opaque parameters of RegistrySrc.v (Section variables): Cmds' and
  trigger_removed' : inst -> Cmds' -> list Z -> Cmds' for ctx.trigger_removed(commands, time, entities) (the `time`
  argument is fixed and not passed).
"""
import sys, os, argparse
from fractions import Fraction


class Unsupported(Exception):
    def __init__(self, file, line, what):
        Exception.__init__(self, "%s:%s: %s" % (file, line, what))
        self.file, self.line, self.what = file, line, what


# =====================================================================================
# 1. Tokenizer
# =====================================================================================

PUNCT3 = ['<<=', '>>=', '...', '..=']
PUNCT2 = ['::', '->', '=>', '==', '!=', '<=', '>=', '&&', '||', '+=', '-=', '*=', '/=', '%=', '^=',
          '&=', '|=', '<<', '>>', '..']
PUNCT1 = set('+-*/%^!&|=<>@.,;:#$?~()[]{}')


class Tok(object):
    __slots__ = ('kind', 'text', 'line')

    def __init__(self, kind, text, line):
        self.kind, self.text, self.line = kind, text, line

    def __repr__(self):
        return "%s(%r)@%d" % (self.kind, self.text, self.line)


def is_id_start(c):
    return c.isalpha() or c == '_'


def is_id_char(c):
    return c.isalnum() or c == '_'


def tokenize(src, file):
    toks = []
    i, n, line = 0, len(src), 1
    while i < n:
        c = src[i]
        if c == '\n':
            line += 1
            i += 1
            continue
        if c in ' \t\r':
            i += 1
            continue
        if src.startswith('//', i):
            while i < n and src[i] != '\n':
                i += 1
            continue
        if src.startswith('/*', i):
            depth, i = 1, i + 2
            while i < n and depth > 0:
                if src.startswith('/*', i):
                    depth += 1
                    i += 2
                elif src.startswith('*/', i):
                    depth -= 1
                    i += 2
                else:
                    if src[i] == '\n':
                        line += 1
                    i += 1
            if depth > 0:
                raise Unsupported(file, line, "unterminated block comment")
            continue
        # raw strings  r"..."  r#"..."#   (and byte variants)
        if c in 'rb':
            j = i
            if src.startswith('br', j):
                j += 2
            elif c == 'r':
                j += 1
            else:
                j = -1
            if j > 0:
                k = j
                while k < n and src[k] == '#':
                    k += 1
                if k < n and src[k] == '"' and (k > j or src[j] == '"'):
                    hashes = k - j
                    close = '"' + '#' * hashes
                    e = src.find(close, k + 1)
                    if e < 0:
                        raise Unsupported(file, line, "unterminated raw string")
                    text = src[i:e + len(close)]
                    toks.append(Tok('str', text, line))
                    line += text.count('\n')
                    i = e + len(close)
                    continue
        if c == '"' or (c == 'b' and i + 1 < n and src[i + 1] == '"'):
            j = i + (2 if c == 'b' else 1)
            start_line = line
            while j < n and src[j] != '"':
                if src[j] == '\\':
                    j += 1
                if j < n and src[j] == '\n':
                    line += 1
                j += 1
            if j >= n:
                raise Unsupported(file, start_line, "unterminated string")
            toks.append(Tok('str', src[i:j + 1], start_line))
            i = j + 1
            continue
        if c == "'":
            # char literal or lifetime
            if i + 1 < n and src[i + 1] == '\\':
                j = src.find("'", i + 3)
                if j < 0:
                    raise Unsupported(file, line, "unterminated char literal")
                toks.append(Tok('char', src[i:j + 1], line))
                i = j + 1
                continue
            if i + 2 < n and src[i + 2] == "'":
                toks.append(Tok('char', src[i:i + 3], line))
                i += 3
                continue
            j = i + 1
            while j < n and is_id_char(src[j]):
                j += 1
            if j == i + 1:
                raise Unsupported(file, line, "stray quote")
            toks.append(Tok('life', src[i:j], line))
            i = j
            continue
        if c.isdigit():
            j = i
            kind = 'int'
            if src.startswith('0b', i) or src.startswith('0x', i) or src.startswith('0o', i):
                j = i + 2
                while j < n and (src[j].isalnum() or src[j] == '_'):
                    j += 1
            else:
                while j < n and (src[j].isdigit() or src[j] == '_'):
                    j += 1
                if j < n and src[j] == '.' and j + 1 < n and src[j + 1].isdigit():
                    kind = 'float'
                    j += 1
                    while j < n and (src[j].isdigit() or src[j] == '_'):
                        j += 1
                elif j < n and src[j] == '.' and not (j + 1 < n and (src[j + 1] == '.' or is_id_start(src[j + 1]))):
                    kind = 'float'
                    j += 1
                if j < n and src[j] in 'eE' and j + 1 < n and (src[j + 1].isdigit() or src[j + 1] in '+-'):
                    kind = 'float'
                    j += 2
                    while j < n and src[j].isdigit():
                        j += 1
                # type suffix
                k = j
                while k < n and is_id_char(src[k]):
                    k += 1
                suffix = src[j:k]
                if suffix in ('f32', 'f64'):
                    kind = 'float'
                j = k
            toks.append(Tok(kind, src[i:j], line))
            i = j
            continue
        if is_id_start(c):
            j = i
            while j < n and is_id_char(src[j]):
                j += 1
            toks.append(Tok('id', src[i:j], line))
            i = j
            continue
        if src[i:i + 3] in PUNCT3:
            toks.append(Tok('p', src[i:i + 3], line))
            i += 3
            continue
        if src[i:i + 2] in PUNCT2:
            toks.append(Tok('p', src[i:i + 2], line))
            i += 2
            continue
        if c in PUNCT1:
            toks.append(Tok('p', c, line))
            i += 1
            continue
        raise Unsupported(file, line, "unexpected character %r" % c)
    toks.append(Tok('eof', '', line))
    return toks


# =====================================================================================
# 2. AST + recursive-descent parser
# =====================================================================================

class Node(object):
    """AST node: k = kind, line = source line, other attributes by kind."""

    def __init__(self, k, line, **kw):
        self.k = k
        self.line = line
        self.__dict__.update(kw)

    def __repr__(self):
        d = dict(self.__dict__)
        d.pop('line', None)
        k = d.pop('k')
        return "%s(%s)" % (k, ", ".join("%s=%r" % kv for kv in sorted(d.items())))


ASSIGN_OPS = ['=', '|=', '&=', '^=', '+=', '-=', '*=', '/=', '%=', '<<=', '>>=']
BIN_LEVELS = [['||'], ['&&'], ['==', '!=', '<', '>', '<=', '>='], ['|'], ['^'], ['&'], ['<<', '>>'],
              ['+', '-'], ['*', '/', '%']]
OPEN = {'(': ')', '[': ']', '{': '}'}
CLOSE = set(')]}')


class Parser(object):
    def __init__(self, toks, file, pos=0):
        self.toks, self.file, self.pos = toks, file, pos

    # ---- token helpers
    def peek(self, k=0):
        p = min(self.pos + k, len(self.toks) - 1)
        return self.toks[p]

    def next(self):
        t = self.toks[self.pos]
        if t.kind != 'eof':
            self.pos += 1
        return t

    def at(self, text, k=0):
        t = self.peek(k)
        return t.kind in ('p', 'id') and t.text == text

    def eat(self, text):
        if self.at(text):
            self.pos += 1
            return True
        return False

    def expect(self, text):
        if not self.eat(text):
            self.fail("expected `%s`, found `%s`" % (text, self.peek().text))

    def ident(self):
        t = self.peek()
        if t.kind != 'id':
            self.fail("expected identifier, found `%s`" % t.text)
        self.pos += 1
        return t.text

    def fail(self, what, line=None):
        raise Unsupported(self.file, line if line is not None else self.peek().line, what)

    def skip_balanced(self):
        """current token is an opening bracket: skip to just after its partner"""
        t = self.next()
        stack = [OPEN[t.text]]
        while stack:
            t = self.next()
            if t.kind == 'eof':
                self.fail("unbalanced brackets")
            if t.kind == 'p' and t.text in OPEN:
                stack.append(OPEN[t.text])
            elif t.kind == 'p' and t.text in CLOSE:
                if t.text != stack.pop():
                    self.fail("mismatched bracket `%s`" % t.text, t.line)

    # ---- attributes, visibility
    def attrs(self):
        """outer attributes  #[...]; returns list of token-text lists"""
        out = []
        while self.at('#'):
            self.next()
            self.eat('!')
            if not self.at('['):
                self.fail("malformed attribute")
            s = self.pos
            self.skip_balanced()
            out.append([t.text for t in self.toks[s + 1:self.pos - 1]])
        return out

    def visibility(self):
        if self.eat('pub'):
            if self.at('('):
                self.skip_balanced()

    def generics(self):
        """at `<`: parse  <A: Bound + .., B>  -> list of parameter names"""
        self.expect('<')
        names = []
        while not self.at('>'):
            if self.peek().kind == 'life':
                self.next()
                if not self.eat(','):
                    break
                continue
            if self.at('const'):
                self.fail("const generic parameter")
            names.append(self.ident())
            if self.eat(':'):
                self.type_()
            if self.at('='):
                self.fail("default type parameter")
            if not self.eat(','):
                break
        self.close_angle()
        return names

    # ---- types (canonical strings)
    def close_angle(self):
        t = self.peek()
        if t.kind == 'p' and t.text == '>':
            self.pos += 1
        elif t.kind == 'p' and t.text in ('>>', '>=', '>>='):
            self.toks[self.pos] = Tok('p', t.text[1:], t.line)
        else:
            self.fail("expected `>`, found `%s`" % t.text)

    def type_(self):
        t = self.peek()
        if self.eat('&'):
            if self.peek().kind == 'life':
                self.next()
            if self.eat('mut'):
                return '&mut ' + self.type_()
            return '&' + self.type_()
        if self.at('&&'):
            self.fail("reference to reference type")
        if self.eat('('):
            items = []
            while not self.at(')'):
                items.append(self.type_())
                if not self.eat(','):
                    break
            self.expect(')')
            return '(' + ','.join(items) + ')'
        if self.eat('['):
            el = self.type_()
            if self.eat(';'):
                ln = self.next()
                if ln.kind != 'int':
                    self.fail("array length must be an integer literal", ln.line)
                self.expect(']')
                return '[%s;%s]' % (el, ln.text)
            self.expect(']')
            return '[%s]' % el
        if self.eat('dyn'):
            return 'dyn ' + self.type_()
        if self.eat('impl'):
            return 'impl ' + self.type_()
        if self.eat('fn'):
            self.expect('(')
            items = []
            while not self.at(')'):
                items.append(self.type_())
                if not self.eat(','):
                    break
            self.expect(')')
            r = ''
            if self.eat('->'):
                r = '->' + self.type_()
            return 'fn(' + ','.join(items) + ')' + r
        if t.kind != 'id':
            self.fail("unsupported type syntax at `%s`" % t.text)
        # path with optional generics; canonical form keeps the last segment only
        last = self.ident()
        gen = ''
        while True:
            if self.at('<'):
                self.next()
                args = []
                while not (self.at('>') or self.at('>>') or self.at('>=')):
                    if self.peek().kind == 'life':
                        self.next()
                    else:
                        a = self.type_()
                        if self.eat('='):          # associated type binding  Item = T
                            a = a + '=' + self.type_()
                        args.append(a)
                    if not self.eat(','):
                        break
                self.close_angle()
                gen = ('<' + ','.join(args) + '>') if args else ''
            if self.at('::') and self.peek(1).kind == 'id':
                self.next()
                last = self.ident()
                gen = ''
                continue
            break
        while self.at('+'):                        # dyn A + Send
            self.next()
            if self.peek().kind == 'life':
                self.next()
            else:
                self.type_()
        return last + gen

    # ---- patterns
    def pattern(self):
        t = self.peek()
        line = t.line
        if t.kind == 'id' and t.text == '_':
            self.next()
            return Node('PWild', line)
        if t.kind == 'id' and t.text in ('true', 'false'):
            self.next()
            return Node('PBool', line, value=(t.text == 'true'))
        if t.kind in ('int', 'float', 'str', 'char'):
            self.fail("literal pattern")
        if self.at('&'):
            self.next()
            if self.at('mut'):
                self.fail("`&mut` pattern")
            return self.pattern()          # `&p` on Copy data: same as p
        if self.at('ref') or self.at('box'):
            self.fail("`%s` pattern" % t.text)
        if self.eat('('):
            items = []
            while not self.at(')'):
                items.append(self.pattern())
                if not self.eat(','):
                    break
            self.expect(')')
            if len(items) == 1:
                return items[0]
            return Node('PTuple', line, items=items)
        if self.at('['):
            self.fail("slice pattern")
        mut = False
        if self.eat('mut'):
            mut = True
        if self.peek().kind != 'id':
            self.fail("unsupported pattern at `%s`" % self.peek().text)
        segs = [self.ident()]
        while self.at('::'):
            self.next()
            segs.append(self.ident())
        if self.at('@'):
            self.fail("`@` pattern")
        if self.at('('):
            self.next()
            items = []
            while not self.at(')'):
                if self.at('..'):
                    self.fail("`..` in pattern")
                items.append(self.pattern())
                if not self.eat(','):
                    break
            self.expect(')')
            return Node('PCtor', line, path=segs, args=items)
        if self.at('{'):
            self.next()
            fields = []
            rest_ = False
            while not self.at('}'):
                if self.at('..'):
                    self.next()
                    rest_ = True
                    break
                fl = self.peek().line
                fname = self.ident()
                if self.eat(':'):
                    fp = self.pattern()
                else:
                    fp = Node('PBind', fl, name=fname, mut=False)
                fields.append((fname, fp))
                if not self.eat(','):
                    break
            self.expect('}')
            return Node('PStruct', line, path=segs, fields=fields, rest=rest_)
        if len(segs) == 1 and (segs[0][0].islower() or segs[0][0] == '_'):
            return Node('PBind', line, name=segs[0], mut=mut)
        if mut:
            self.fail("`mut` before a path pattern")
        return Node('PPath', line, path=segs)

    # ---- expressions
    def expr(self, no_struct=False):
        return self.binary(0, no_struct)

    def binary(self, level, no_struct):
        if level == len(BIN_LEVELS):
            return self.cast(no_struct)
        lhs = self.binary(level + 1, no_struct)
        while True:
            t = self.peek()
            if t.kind == 'p' and t.text in BIN_LEVELS[level]:
                self.next()
                rhs = self.binary(level + 1, no_struct)
                if level == 2 and self.peek().kind == 'p' and self.peek().text in BIN_LEVELS[2]:
                    self.fail("chained comparison")
                lhs = Node('Binary', t.line, op=t.text, lhs=lhs, rhs=rhs)
            else:
                return lhs

    def cast(self, no_struct):
        e = self.unary(no_struct)
        while self.at('as'):
            line = self.next().line
            ty = self.type_()
            e = Node('Cast', line, expr=e, ty=ty)
        return e

    def unary(self, no_struct):
        t = self.peek()
        if t.kind == 'p' and t.text in ('!', '-', '*'):
            self.next()
            return Node('Unary', t.line, op=t.text, expr=self.unary(no_struct))
        if t.kind == 'p' and t.text in ('&', '&&'):
            self.next()
            mut = self.eat('mut')
            return Node('Ref', t.line, mut=mut, expr=self.unary(no_struct))
        return self.postfix(no_struct)

    def args(self):
        self.expect('(')
        out = []
        while not self.at(')'):
            out.append(self.expr())
            if not self.eat(','):
                break
        self.expect(')')
        return out

    def postfix(self, no_struct):
        e = self.primary(no_struct)
        while True:
            t = self.peek()
            if self.at('.'):
                self.next()
                m = self.next()
                if m.kind == 'id' and m.text == 'await':
                    self.fail("`.await`", m.line)
                if m.kind == 'id':
                    targs = []
                    if self.at('::'):
                        self.next()
                        self.expect('<')
                        while not (self.at('>') or self.at('>>')):
                            targs.append(self.type_())
                            if not self.eat(','):
                                break
                        self.close_angle()
                        if not self.at('('):
                            self.fail("turbofish without a call", m.line)
                    if self.at('('):
                        e = Node('Method', m.line, recv=e, name=m.text, args=self.args(), targs=targs)
                    else:
                        e = Node('Field', m.line, recv=e, name=m.text)
                elif m.kind in ('int', 'float'):
                    e = Node('TupleIndex', m.line, recv=e, index=m.text)
                else:
                    self.fail("unexpected `%s` after `.`" % m.text, m.line)
            elif self.at('('):
                e = Node('Call', t.line, fn=e, args=self.args())
            elif self.at('['):
                self.next()
                idx = self.expr()
                self.expect(']')
                e = Node('Index', t.line, recv=e, index=idx)
            elif self.at('?'):
                ql = self.next().line
                e = Node('Try', ql, expr=e)
            else:
                return e

    def primary(self, no_struct):
        t = self.peek()
        line = t.line
        if t.kind == 'float':
            self.next()
            return Node('Float', line, text=t.text)
        if t.kind == 'int':
            self.next()
            return Node('Int', line, text=t.text)
        if t.kind in ('str', 'char'):
            self.next()
            return Node('Str', line, text=t.text)
        if t.kind == 'life':
            self.fail("loop label")
        if t.kind == 'id' and t.text in ('true', 'false'):
            self.next()
            return Node('Bool', line, value=(t.text == 'true'))
        if self.eat('('):
            items = []
            trailing = False
            while not self.at(')'):
                items.append(self.expr())
                trailing = False
                if not self.eat(','):
                    break
                trailing = True
            self.expect(')')
            if len(items) == 1 and not trailing:
                return Node('Paren', line, expr=items[0])
            return Node('Tuple', line, items=items)
        if self.at('['):
            self.next()
            items = []
            while not self.at(']'):
                items.append(self.expr())
                if self.at(';'):
                    self.fail("array repeat expression")
                if not self.eat(','):
                    break
            self.expect(']')
            return Node('Array', line, items=items)
        if self.at('{'):
            return self.block()
        if self.at('if'):
            return self.if_()
        if self.at('match'):
            return self.match_()
        if self.at('return'):
            self.next()
            val = None
            if not (self.at(';') or self.at('}') or self.at(',')):
                val = self.expr()
            return Node('Return', line, expr=val)
        if t.kind == 'id' and t.text == 'continue':
            self.next()
            if self.peek().kind == 'life':
                self.fail("labelled `continue`")
            return Node('Continue', line)
        if t.kind == 'id' and t.text == 'move' and self.peek(1).kind == 'p' and self.peek(1).text in ('|', '||'):
            self.fail("`move` closure")
        if t.kind == 'id' and t.text in ('loop', 'while', 'unsafe', 'async', 'move', 'break', 'continue',
                                         'let', 'for', 'const', 'static', 'fn', 'struct', 'enum', 'impl',
                                         'use', 'mod', 'trait', 'type', 'where', 'yield', 'await', 'dyn'):
            self.fail("`%s` in expression position" % t.text)
        if t.kind == 'p' and t.text in ('|', '||'):
            self.next()
            params = []
            if t.text == '|':
                while not self.at('|'):
                    p = self.pattern()
                    if self.eat(':'):
                        self.type_()
                    params.append(p)
                    if not self.eat(','):
                        break
                self.expect('|')
            if self.at('->'):
                self.fail("closure with a return type")
            body = self.expr()
            return Node('Closure', line, params=params, body=body)
        if t.kind == 'p' and t.text in ('..', '..=', '...'):
            self.fail("range expression")
        if t.kind == 'p' and t.text == '<':
            self.fail("qualified path `<T as Trait>::...`")
        if t.kind == 'id':
            segs = [self.ident()]
            ptargs = []
            while self.at('::'):
                self.next()
                if self.at('<'):
                    self.next()
                    while not (self.at('>') or self.at('>>')):
                        ptargs.append(self.type_())
                        if not self.eat(','):
                            break
                    self.close_angle()
                    break
                segs.append(self.ident())
            if ptargs:
                return Node('Path', line, segs=segs, targs=ptargs)
            if self.at('!'):
                # macro invocation
                if segs == ['vec'] and self.at('[', 1):
                    self.next()
                    self.next()
                    items = []
                    while not self.at(']'):
                        items.append(self.expr())
                        if self.at(';'):
                            self.fail("vec! repeat expression")
                        if not self.eat(','):
                            break
                    self.expect(']')
                    return Node('VecLit', line, items=items)
                if self.peek(1).kind == 'p' and self.peek(1).text in OPEN:
                    self.next()
                    self.skip_balanced()
                    return Node('Macro', line, name='::'.join(segs))
            if self.at('{') and not no_struct:
                self.next()
                fields = []
                while not self.at('}'):
                    if self.at('..'):
                        self.fail("struct update syntax `..`")
                    fl = self.peek().line
                    fname = self.ident()
                    if self.eat(':'):
                        fe = self.expr()
                    else:
                        fe = Node('Path', fl, segs=[fname])
                    fields.append((fname, fe))
                    if not self.eat(','):
                        break
                self.expect('}')
                return Node('StructLit', line, path=segs, fields=fields)
            return Node('Path', line, segs=segs)
        self.fail("unexpected token `%s` in expression" % t.text)

    def if_(self):
        line = self.next().line   # if
        pat = None
        if self.at('let'):
            self.next()
            pat = self.pattern()
            self.expect('=')
        cond = self.expr(no_struct=True)
        if self.at('&&') or self.at('||'):
            self.fail("let-chain")
        then = self.block()
        els = None
        if self.eat('else'):
            if self.at('if'):
                els = self.if_()
            else:
                els = self.block()
        if pat is not None:
            return Node('IfLet', line, pat=pat, scrut=cond, then=then, els=els)
        return Node('If', line, cond=cond, then=then, els=els)

    def match_(self):
        line = self.next().line   # match
        scrut = self.expr(no_struct=True)
        self.expect('{')
        arms = []
        while not self.at('}'):
            self.attrs()
            al = self.peek().line
            self.eat('|')
            pat = self.pattern()
            if self.at('|'):
                alts = [pat]
                while self.eat('|'):
                    alts.append(self.pattern())
                pat = Node('POr', al, alts=alts)
            if self.at('if'):
                self.fail("match guard")
            self.expect('=>')
            if self.at('{'):
                body = self.block()       # a block arm ends at its closing brace
            else:
                body = self.expr()
            if body.k == 'Block':
                self.eat(',')
            elif not self.at('}'):
                self.expect(',')
            arms.append(Node('Arm', al, pat=pat, body=body))
        self.expect('}')
        return Node('Match', line, scrut=scrut, arms=arms)

    def block(self):
        line = self.peek().line
        self.expect('{')
        stmts = []
        tail = None
        while not self.at('}'):
            if self.at(';'):
                self.next()
                continue
            if self.at('#'):
                self.fail("attribute on a statement")
            sl = self.peek().line
            if self.at('let'):
                self.next()
                pat = self.pattern()
                ty = None
                if self.eat(':'):
                    ty = self.type_()
                if not self.eat('='):
                    self.fail("`let` without initializer")
                init = self.expr()
                if self.at('else'):
                    self.fail("`let ... else`")
                self.expect(';')
                stmts.append(Node('Let', sl, pat=pat, ty=ty, init=init))
                continue
            if self.at('for'):
                self.next()
                pat = self.pattern()
                self.expect('in')
                it = self.expr(no_struct=True)
                body = self.block()
                stmts.append(Node('For', sl, pat=pat, iter=it, body=body))
                continue
            if self.peek().kind == 'id' and self.peek().text in ('while', 'loop', 'fn', 'struct', 'enum',
                                                               'impl', 'use', 'const', 'static', 'unsafe'):
                self.fail("`%s` statement" % self.peek().text)
            if self.at('if') or self.at('match') or self.at('{'):
                # block-like expression statement: ends at its closing brace
                e = self.primary(False)
                if self.at('.') or self.at('?'):
                    self.fail("method call on a block-like expression statement")
            else:
                e = self.expr()
            t = self.peek()
            if t.kind == 'p' and t.text in ASSIGN_OPS:
                self.next()
                rhs = self.expr()
                self.expect(';')
                stmts.append(Node('Assign', sl, op=t.text, lhs=e, rhs=rhs))
                continue
            if self.eat(';'):
                stmts.append(Node('Expr', sl, expr=e))
                continue
            if self.at('}'):
                tail = e
                break
            if e.k in ('If', 'IfLet', 'Match', 'Block'):
                stmts.append(Node('Expr', sl, expr=e))
                continue
            self.fail("expected `;` or `}`, found `%s`" % t.text)
        self.expect('}')
        return Node('Block', line, stmts=stmts, tail=tail)

    # ---- items
    def fn_sig(self):
        """at `fn`: parse  fn name(params) [-> T]; leaves position at `{` or `;`"""
        line = self.peek().line
        self.expect('fn')
        name = self.ident()
        fgen = []
        if self.at('<'):
            fgen = self.generics()
        self.expect('(')
        self_kind = None
        params = []
        while not self.at(')'):
            self.attrs()
            if self.at('&') and (self.at('self', 1) or (self.at('mut', 1) and self.at('self', 2))
                                 or (self.peek(1).kind == 'life')):
                self.next()
                if self.peek().kind == 'life':
                    self.next()
                if self.eat('mut'):
                    self_kind = 'refmut'
                else:
                    self_kind = 'ref'
                self.expect('self')
            elif self.at('self'):
                self.next()
                self_kind = 'value'
            elif self.at('mut') and self.at('self', 1):
                self.fail("`mut self` parameter")
            else:
                pat = self.pattern()
                self.expect(':')
                ty = self.type_()
                params.append((pat, ty))
            if not self.eat(','):
                break
        self.expect(')')
        ret = '()'
        if self.eat('->'):
            ret = self.type_()
        if self.at('where'):
            self.fail("`where` clause")
        return Node('Fn', line, name=name, self_kind=self_kind, params=params, ret=ret, body=None, body_pos=None,
                    fgenerics=fgen)

    def impl_body(self):
        """at `{` of an impl: returns list of Fn nodes (bodies NOT parsed: body_pos recorded)"""
        self.expect('{')
        fns = []
        while not self.at('}'):
            attrs = self.attrs()
            self.visibility()
            if self.at('const') and self.at('fn', 1):
                self.next()
            if self.at('fn'):
                f = self.fn_sig()
                f.attrs = attrs
                if not self.at('{'):
                    self.fail("function without body")
                f.body_pos = self.pos
                self.skip_balanced()
                fns.append(f)
            elif self.at('const') or self.at('type'):
                while not self.at(';'):
                    if self.peek().kind == 'p' and self.peek().text in OPEN:
                        self.skip_balanced()
                    else:
                        self.next()
                self.next()
            else:
                self.fail("unsupported item `%s` in impl" % self.peek().text)
        self.expect('}')
        return fns

    def enum_body(self):
        """at `{` of an enum: list of (name, kind, payload) in declaration order;
           kind 'unit' | 'tuple' (payload = [types]) | 'struct' (payload = [(field, type)])"""
        self.expect('{')
        out = []
        while not self.at('}'):
            self.attrs()
            line = self.peek().line
            name = self.ident()
            if self.at('('):
                self.next()
                tys = []
                while not self.at(')'):
                    self.attrs()
                    self.visibility()
                    tys.append(self.type_())
                    if not self.eat(','):
                        break
                self.expect(')')
                out.append((name, 'tuple', tys, line))
            elif self.at('{'):
                self.next()
                fs = []
                while not self.at('}'):
                    self.attrs()
                    self.visibility()
                    fn_ = self.ident()
                    self.expect(':')
                    fs.append((fn_, self.type_()))
                    if not self.eat(','):
                        break
                self.expect('}')
                out.append((name, 'struct', fs, line))
            else:
                if self.at('='):
                    self.fail("explicit enum discriminant")
                out.append((name, 'unit', [], line))
            if not self.eat(','):
                break
        self.expect('}')
        return out

    def struct_body(self):
        """at `{` of a struct: list of (field, type, line); at `;` (unit struct): no fields"""
        if self.at(';'):
            return []
        self.expect('{')
        out = []
        while not self.at('}'):
            at = self.attrs()
            self.visibility()
            line = self.peek().line
            name = self.ident()
            self.expect(':')
            ty = self.type_()
            if not any(a and a[0] == 'cfg' for a in at):      # feature-gated fields are not modelled
                out.append((name, ty, line))
            if not self.eat(','):
                break
        self.expect('}')
        return out


def scan_items(toks, file):
    """Item-level scan of a whole file.  Returns a list of Node('Item', kind, name, attrs, pos, header):
       kind in enum / struct / impl / macro / other.  `pos` = token index of the item's `{` (or of the
       token after the header).  Unknown items are skipped by bracket matching."""
    p = Parser(toks, file)
    items = []
    while p.peek().kind != 'eof':
        if p.eat(';'):
            continue
        attrs = p.attrs()
        p.visibility()
        t = p.peek()
        line = t.line
        if t.kind != 'id':
            p.fail("unexpected token `%s` at item level" % t.text)
        if t.text == 'enum' and p.peek(1).kind == 'id':
            p.next()
            name = p.ident()
            if not p.at('{'):
                p.fail("generic enum `%s`" % name) if p.at('<') else p.fail("malformed enum")
            items.append(Node('Item', line, kind='enum', name=name, attrs=attrs, pos=p.pos))
            p.skip_balanced()
            continue
        if t.text == 'struct' and p.peek(1).kind == 'id':
            p.next()
            name = p.ident()
            generics = []
            if p.at('<'):
                generics = p.generics()
            if p.at('{'):
                items.append(Node('Item', line, kind='struct', name=name, attrs=attrs, pos=p.pos, generics=generics))
                p.skip_balanced()
                continue
            if p.at(';'):
                items.append(Node('Item', line, kind='struct', name=name, attrs=attrs, pos=p.pos, generics=generics))
                p.next()
                continue
            if p.at('('):
                items.append(Node('Item', line, kind='tstruct', name=name, attrs=attrs, pos=p.pos, generics=generics))
            items.append(Node('Item', line, kind='other', name=name, attrs=attrs, pos=p.pos))
        elif t.text == 'impl':
            p.next()
            hs = p.pos
            while not p.at('{'):
                if p.peek().kind == 'eof':
                    p.fail("malformed impl")
                p.next()
            header = [x.text for x in toks[hs:p.pos]]
            it = Node('Item', line, kind='impl', name=' '.join(header), attrs=attrs, pos=p.pos,
                      header=header, generics=[], trait=None, ty=None)
            try:                                    # impl [<G>] [Trait for] Type[<G>]
                q = Parser(toks, file, hs)
                if q.at('<'):
                    it.generics = q.generics()
                t1 = q.type_()
                if q.eat('for'):
                    it.trait, it.ty = t1, q.type_()
                else:
                    it.ty = t1
                if q.pos != p.pos:
                    it.ty = None                    # where clause etc.: not usable
            except Unsupported:
                it.ty = None
            items.append(it)
            p.skip_balanced()
            continue
        elif p.peek(1).kind == 'p' and p.peek(1).text == '!' and p.peek(2).kind == 'p' and p.peek(2).text in OPEN:
            name = p.ident()
            p.next()
            items.append(Node('Item', line, kind='macro', name=name, attrs=attrs, pos=p.pos))
            p.skip_balanced()
            continue
        else:
            items.append(Node('Item', line, kind='other', name=t.text, attrs=attrs, pos=p.pos))
        # generic skip: to `;` at depth 0, or to the end of the first top-level `{...}`
        while True:
            t = p.peek()
            if t.kind == 'eof':
                break
            if t.kind == 'p' and t.text == ';':
                p.next()
                break
            if t.kind == 'p' and t.text == '{':
                p.skip_balanced()
                break
            if t.kind == 'p' and t.text in OPEN:
                p.skip_balanced()
                continue
            p.next()
    return items


def derives(attrs):
    out = []
    for a in attrs:
        if a and a[0] == 'derive':
            out += [x for x in a[1:] if x not in ('(', ')', ',')]
    return out

# =====================================================================================
# 3. Trusted tables (see the header of this script)
# =====================================================================================

# Rust type (canonical string) -> Gallina type.  Vec2 / Vec3 / [f32;3] are tuples of Q.
COQ_TYPE = {
    'bool': 'bool', 'f32': 'Q', 'Vec2': 'Glam.Vec2', 'Vec3': 'Glam.Vec3', '[f32;3]': 'Glam.Arr3',
    'ActionValue': 'value', 'ActionValueDim': 'dim', 'ActionState': 'state', 'ActionEvents': 'N',
    'TriggerTracker': 'tracker', 'Accumulation': 'accumulation', 'ConditionKind': 'ckind',
}
# number of Q components of the flattened representation of a payload type
FLAT = {'Vec2': ['x', 'y'], 'Vec3': ['x', 'y', 'z']}

# Rust enum -> model inductive: variant name -> (model constructor, kind, payload)
ENUM_MAP = {
    'ActionValue': {'Bool': ('VB', 'tuple', ['bool']), 'Axis1D': ('V1', 'tuple', ['f32']),
                    'Axis2D': ('V2', 'tuple', ['Vec2']), 'Axis3D': ('V3', 'tuple', ['Vec3'])},
    'ActionValueDim': {'Bool': ('DBool', 'unit', []), 'Axis1D': ('D1', 'unit', []),
                       'Axis2D': ('D2', 'unit', []), 'Axis3D': ('D3', 'unit', [])},
    'ActionState': {'None': ('SNone', 'unit', []), 'Ongoing': ('SOngoing', 'unit', []),
                    'Fired': ('SFired', 'unit', [])},
    'ConditionKind': {'Explicit': ('KExplicit', 'unit', []), 'Implicit': ('KImplicit', 'unit', []),
                      'Blocker': ('KBlocker', 'struct', [('events_only', 'bool')])},
    'Accumulation': {'Cumulative': ('Cumulative', 'unit', []), 'MaxAbs': ('MaxAbs', 'unit', [])},
}
# enums declared outside the four translated files: declaration (order, payload) and derives are trusted,
# and CHECKED against the source when the declaring file is present under --repo
EXTERNAL_ENUMS = {
    'ConditionKind': ('src/input_context/input_condition.rs',
                      [('Explicit', 'unit', []), ('Implicit', 'unit', []),
                       ('Blocker', 'struct', [('events_only', 'bool')])], []),
    'Accumulation': ('src/input_context/input_action.rs',
                     [('Cumulative', 'unit', []), ('MaxAbs', 'unit', [])],
                     ['Default', 'Clone', 'Copy', 'Debug']),
}
# Rust struct -> model record: field -> (model projection, Rust type)
RECORD_MAP = {
    'TriggerTracker': ('tracker', {
        'value': ('t_value', 'ActionValue'), 'found_explicit': ('found_explicit', 'bool'),
        'any_explicit_fired': ('any_explicit_fired', 'bool'), 'found_active': ('found_active', 'bool'),
        'found_implicit': ('found_implicit', 'bool'), 'all_implicits_fired': ('all_implicits_fired', 'bool'),
        'blocked': ('blocked', 'bool'), 'events_blocked': ('events_blocked', 'bool')}),
}
# methods of trait objects that are abstracted into parameters of a loop-step function
TRAIT_METHODS = {'dyn InputCondition': [('kind', 'ConditionKind'), ('evaluate', 'ActionState')]}
# macros whose invocations are skipped (logging only)
SKIPPED_MACROS = ['trace', 'debug', 'info', 'warn', 'warn_once']
# --- second wave ---
COQ_TYPE['u32'] = 'Z'                        # unsigned integers: Z, overflow not modelled
COQ_TYPE['Option<ActionData>'] = 'option data'
RECORD_MAP['ActionData'] = ('data', {
    'state': ('d_state', 'ActionState'), 'events': ('d_events', 'ActionEvents'), 'value': ('d_value', 'ActionValue'),
    'elapsed_secs': ('d_elapsed', 'f32'), 'fired_secs': ('d_fired', 'f32')})
# struct fields that are not modelled at all (never read or written by translated code)
def ignored_field(ty):
    return ty.startswith('fn(') or ty.startswith('PhantomData<') or ty == '&str'
TRANSLATED_TRAITS = ['InputCondition', 'InputModifier']
# opaque parameter types: `&Time<Virtual>`: each method used becomes a parameter of type Q (in this order)
TIME_TYPE = 'Time<Virtual>'
TIME_METHODS = [('delta_secs', "dt'"), ('relative_speed', "speed'")]
# `&ActionsData`: `actions.action::<A>()` (A a type parameter of the impl) becomes the parameter lookup'
ACTIONS_TYPE = 'ActionsData'
LOOKUP_RESULT = 'Option<ActionData>'

# glam / core meanings --------------------------------------------------------------
GLAM_CONSTS = {
    ('Vec2', 'ZERO'): ('Glam.Vec2_ZERO', 'Vec2'), ('Vec2', 'ONE'): ('Glam.Vec2_ONE', 'Vec2'),
    ('Vec2', 'X'): ('Glam.Vec2_X', 'Vec2'), ('Vec2', 'Y'): ('Glam.Vec2_Y', 'Vec2'),
    ('Vec3', 'ZERO'): ('Glam.Vec3_ZERO', 'Vec3'), ('Vec3', 'ONE'): ('Glam.Vec3_ONE', 'Vec3'),
    ('Vec3', 'X'): ('Glam.Vec3_X', 'Vec3'), ('Vec3', 'Y'): ('Glam.Vec3_Y', 'Vec3'),
    ('Vec3', 'Z'): ('Glam.Vec3_Z', 'Vec3'),
}
GLAM_FIELDS = {
    ('Vec2', 'x'): ('Glam.vec2_x', 'f32'), ('Vec2', 'y'): ('Glam.vec2_y', 'f32'),
    ('Vec3', 'x'): ('Glam.vec3_x', 'f32'), ('Vec3', 'y'): ('Glam.vec3_y', 'f32'),
    ('Vec3', 'z'): ('Glam.vec3_z', 'f32'),
}
# (receiver type, method) -> (parameter types, result type, Gallina function)
GLAM_METHODS = {
    ('Vec3', 'xy'): ([], 'Vec2', 'Glam.vec3_xy'),
    ('Vec2', 'extend'): (['f32'], 'Vec3', 'Glam.vec2_extend'),
    ('Vec2', 'length_squared'): ([], 'f32', 'Glam.vec2_length_squared'),
    ('Vec3', 'length_squared'): ([], 'f32', 'Glam.vec3_length_squared'),
    ('Vec3', 'to_array'): ([], '[f32;3]', 'Glam.vec3_to_array'),
    ('f32', 'abs'): ([], 'f32', 'qabs'),
}
# `.into()` conversions that are not `impl From<..> for ..` blocks of the translated files
GLAM_INTO = {('[f32;3]', 'Vec3'): 'Glam.arr3_into_vec3'}
# binary operators: (op, left type, right type) -> (Gallina template, result type)
BINOP = {}
for _op, _f in (('&&', '({a} && {b})%bool'), ('||', '({a} || {b})%bool'), ('|', '({a} || {b})%bool'),
                ('&', '({a} && {b})%bool'), ('^', 'xorb {a} {b}'), ('==', 'Bool.eqb {a} {b}'),
                ('!=', 'negb (Bool.eqb {a} {b})')):
    BINOP[(_op, 'bool', 'bool')] = (_f, 'bool')
for _op in '+-*/':
    BINOP[(_op, 'f32', 'f32')] = ('({a} %s {b})%%Q' % _op, 'f32')
for _op, _f in (('==', 'qeqb {a} {b}'), ('!=', 'negb (qeqb {a} {b})'), ('<', 'qltb {a} {b}'),
                ('<=', 'qleb {a} {b}'), ('>', 'qltb {b} {a}'), ('>=', 'qleb {b} {a}')):
    BINOP[(_op, 'f32', 'f32')] = (_f, 'bool')
for _v, _l in (('Vec2', 'vec2'), ('Vec3', 'vec3')):
    BINOP[('*', _v, 'f32')] = ('Glam.%s_mul_f32 {a} {b}' % _l, _v)
    BINOP[('*', 'f32', _v)] = ('Glam.f32_mul_%s {a} {b}' % _l, _v)
    BINOP[('+', _v, _v)] = ('Glam.%s_add {a} {b}' % _l, _v)
    BINOP[('==', _v, _v)] = ('Glam.%s_eq {a} {b}' % _l, 'bool')
    BINOP[('!=', _v, _v)] = ('Glam.%s_ne {a} {b}' % _l, 'bool')
for _op, _f in (('==', 'Z.eqb {a} {b}'), ('!=', 'negb (Z.eqb {a} {b})'), ('<', 'Z.ltb {a} {b}'),
                ('<=', 'Z.leb {a} {b}'), ('>', 'Z.ltb {b} {a}'), ('>=', 'Z.leb {b} {a}')):
    BINOP[(_op, 'u32', 'u32')] = (_f, 'bool')
BINOP[('+', 'u32', 'u32')] = ('({a} + {b})%Z', 'u32')
BINOP[('*', 'u32', 'u32')] = ('({a} * {b})%Z', 'u32')
CASTS = {('u32', 'f32'): 'inject_Z {a}'}
BINOP[('|', 'ActionEvents', 'ActionEvents')] = ('N.lor {a} {b}', 'ActionEvents')       # bitflags
BINOP[('&', 'ActionEvents', 'ActionEvents')] = ('N.land {a} {b}', 'ActionEvents')      # bitflags
BITFLAGS_ASSOC = {'empty': '0%N'}                                                       # bitflags

GLAM_V = r"""(* GENERATED by bin/rs2v.py (fixed text): the TRUSTED table of glam / core meanings used by the
   translated sources.  f32 is modelled by Q, Vec2 by Q*Q, Vec3 and [f32;3] by Q*Q*Q. *)
From BEI Require Import Model.Num.

Module Glam.
Definition Vec2 : Type := (Q * Q)%type.
Definition Vec3 : Type := (Q * Q * Q)%type.
Definition Arr3 : Type := (Q * Q * Q)%type.
(* associated constants *)
Definition Vec2_ZERO : Vec2 := (0, 0).
Definition Vec2_ONE : Vec2 := (1, 1).
Definition Vec2_X : Vec2 := (1, 0).
Definition Vec2_Y : Vec2 := (0, 1).
Definition Vec3_ZERO : Vec3 := (0, 0, 0).
Definition Vec3_ONE : Vec3 := (1, 1, 1).
Definition Vec3_X : Vec3 := (1, 0, 0).
Definition Vec3_Y : Vec3 := (0, 1, 0).
Definition Vec3_Z : Vec3 := (0, 0, 1).
(* fields *)
Definition vec2_x (v : Vec2) : Q := let '(x, _) := v in x.
Definition vec2_y (v : Vec2) : Q := let '(_, y) := v in y.
Definition vec3_x (v : Vec3) : Q := let '(x, _, _) := v in x.
Definition vec3_y (v : Vec3) : Q := let '(_, y, _) := v in y.
Definition vec3_z (v : Vec3) : Q := let '(_, _, z) := v in z.
(* Mul<f32> for Vec, Mul<Vec> for f32, Add *)
Definition vec2_mul_f32 (v : Vec2) (s : Q) : Vec2 := let '(x, y) := v in (x * s, y * s).
Definition f32_mul_vec2 (s : Q) (v : Vec2) : Vec2 := let '(x, y) := v in (s * x, s * y).
Definition vec3_mul_f32 (v : Vec3) (s : Q) : Vec3 := let '(x, y, z) := v in (x * s, y * s, z * s).
Definition f32_mul_vec3 (s : Q) (v : Vec3) : Vec3 := let '(x, y, z) := v in (s * x, s * y, s * z).
Definition vec2_add (a b : Vec2) : Vec2 := let '(ax, ay) := a in let '(bx, by_) := b in (ax + bx, ay + by_).
Definition vec3_add (a b : Vec3) : Vec3 :=
  let '(ax, ay, az) := a in let '(bx, by_, bz) := b in (ax + bx, ay + by_, az + bz).
(* PartialEq *)
Definition vec2_eq (a b : Vec2) : bool := let '(ax, ay) := a in let '(bx, by_) := b in qeqb ax bx && qeqb ay by_.
Definition vec2_ne (a b : Vec2) : bool := negb (vec2_eq a b).
Definition vec3_eq (a b : Vec3) : bool :=
  let '(ax, ay, az) := a in let '(bx, by_, bz) := b in qeqb ax bx && qeqb ay by_ && qeqb az bz.
Definition vec3_ne (a b : Vec3) : bool := negb (vec3_eq a b).
(* methods *)
Definition vec3_xy (v : Vec3) : Vec2 := let '(x, y, _) := v in (x, y).
Definition vec2_extend (v : Vec2) (z : Q) : Vec3 := let '(x, y) := v in (x, y, z).
Definition vec2_length_squared (v : Vec2) : Q := let '(x, y) := v in x * x + y * y.
Definition vec3_length_squared (v : Vec3) : Q := let '(x, y, z) := v in x * x + y * y + z * z.
Definition vec3_to_array (v : Vec3) : Arr3 := v.
Definition arr3_into_vec3 (a : Arr3) : Vec3 := a.
(* `for (p, q) in a.iter_mut().zip(b) { BODY }` on [f32; 3]: BODY run per axis, in order, updating *p *)
Definition arr3_zip_update (f : Q -> Q -> Q) (a b : Arr3) : Arr3 :=
  let '(a0, a1, a2) := a in let '(b0, b1, b2) := b in (f a0 b0, f a1 b1, f a2 b2).
End Glam.
"""

# --- second wave: modifiers ---
COQ_TYPE['DeadZoneKind'] = 'dzkind'
COQ_TYPE['SwizzleAxis'] = 'swz'
COQ_TYPE['(f32,f32)'] = '(Q * Q)%type'
COQ_TYPE['(f32,f32,f32)'] = '(Q * Q * Q)%type'
ENUM_MAP['DeadZoneKind'] = {'Radial': ('Radial', 'unit', []), 'Axial': ('Axial', 'unit', [])}
ENUM_MAP['SwizzleAxis'] = dict((k, (k, 'unit', [])) for k in ('YXZ', 'ZYX', 'XZY', 'YZX', 'ZXY'))
for _v, _l in (('Vec2', 'vec2'), ('Vec3', 'vec3')):
    BINOP[('*', _v, _v)] = ('Glam2.%s_mul {a} {b}' % _l, _v)
GLAM_METHODS.update({
    ('f32', 'max'): (['f32'], 'f32', 'qmax'), ('f32', 'min'): (['f32'], 'f32', 'qmin'),
    ('f32', 'signum'): ([], 'f32', 'Glam2.f32_signum'),
    ('Vec2', 'yx'): ([], 'Vec2', 'Glam2.vec2_yx'),
    ('Vec3', 'yxz'): ([], 'Vec3', 'Glam2.vec3_yxz'), ('Vec3', 'zyx'): ([], 'Vec3', 'Glam2.vec3_zyx'),
    ('Vec3', 'xzy'): ([], 'Vec3', 'Glam2.vec3_xzy'), ('Vec3', 'yzx'): ([], 'Vec3', 'Glam2.vec3_yzx'),
    ('Vec3', 'zxy'): ([], 'Vec3', 'Glam2.vec3_zxy'),
})
GLAM_INTO[('(f32,f32)', 'Vec2')] = 'Glam2.tuple2_into_vec2'
GLAM_INTO[('(f32,f32,f32)', 'Vec3')] = 'Glam2.tuple3_into_vec3'
# assignment to a component of a `mut` vector local
GLAM_SETTERS = {('Vec2', 'x'): 'Glam2.vec2_set_x', ('Vec2', 'y'): 'Glam2.vec2_set_y',
                ('Vec3', 'x'): 'Glam2.vec3_set_x', ('Vec3', 'y'): 'Glam2.vec3_set_y', ('Vec3', 'z'): 'Glam2.vec3_set_z'}
# methods whose meaning needs a function that is NOT defined here (square root): the translated function gets
# the function as an extra first parameter; (receiver type, method) -> (params, result, Gallina function, opaque parameter)
OPAQUE_FNS = {'sqrt': ("sqrt'", 'Q -> Q')}
GLAM_OPAQUE_METHODS = {
    ('Vec2', 'length'): ([], 'f32', 'Glam2.vec2_length', 'sqrt'),
    ('Vec3', 'length'): ([], 'f32', 'Glam2.vec3_length', 'sqrt'),
    ('Vec2', 'normalize_or_zero'): ([], 'Vec2', 'Glam2.vec2_normalize_or_zero', 'sqrt'),
    ('Vec3', 'normalize_or_zero'): ([], 'Vec3', 'Glam2.vec3_normalize_or_zero', 'sqrt'),
}
GLAM2_V = r"""(* GENERATED by bin/rs2v.py (fixed text): second part of the TRUSTED table of glam / core meanings. *)
From BEI Require Import Model.Num Generated.GlamTbl.

Module Glam2.
Import Glam.
(* Mul<Vec> for Vec: component-wise *)
Definition vec2_mul (a b : Vec2) : Vec2 := let '(ax, ay) := a in let '(bx, by_) := b in (ax * bx, ay * by_).
Definition vec3_mul (a b : Vec3) : Vec3 :=
  let '(ax, ay, az) := a in let '(bx, by_, bz) := b in (ax * bx, ay * by_, az * bz).
(* f32::signum: 1.0 for +0.0 and positives, -1.0 for negatives (-0.0 and NaN are not modelled) *)
Definition f32_signum (x : Q) : Q := if qltb x 0 then -1 else 1.
(* swizzles *)
Definition vec2_yx (v : Vec2) : Vec2 := let '(x, y) := v in (y, x).
Definition vec3_yxz (v : Vec3) : Vec3 := let '(x, y, z) := v in (y, x, z).
Definition vec3_zyx (v : Vec3) : Vec3 := let '(x, y, z) := v in (z, y, x).
Definition vec3_xzy (v : Vec3) : Vec3 := let '(x, y, z) := v in (x, z, y).
Definition vec3_yzx (v : Vec3) : Vec3 := let '(x, y, z) := v in (y, z, x).
Definition vec3_zxy (v : Vec3) : Vec3 := let '(x, y, z) := v in (z, x, y).
(* From<(f32, f32)> for Vec2, From<(f32, f32, f32)> for Vec3 *)
Definition tuple2_into_vec2 (t : Q * Q) : Vec2 := t.
Definition tuple3_into_vec3 (t : Q * Q * Q) : Vec3 := t.
(* v.x = e on a `mut` vector *)
Definition vec2_set_x (v : Vec2) (a : Q) : Vec2 := let '(_, y) := v in (a, y).
Definition vec2_set_y (v : Vec2) (a : Q) : Vec2 := let '(x, _) := v in (x, a).
Definition vec3_set_x (v : Vec3) (a : Q) : Vec3 := let '(_, y, z) := v in (a, y, z).
Definition vec3_set_y (v : Vec3) (a : Q) : Vec3 := let '(x, _, z) := v in (x, a, z).
Definition vec3_set_z (v : Vec3) (a : Q) : Vec3 := let '(x, y, _) := v in (x, y, a).
(* length and normalize_or_zero, relative to a square-root function (an extra parameter of the translated code) *)
Definition vec2_length (sqrt : Q -> Q) (v : Vec2) : Q := sqrt (vec2_length_squared v).
Definition vec3_length (sqrt : Q -> Q) (v : Vec3) : Q := sqrt (vec3_length_squared v).
Definition vec2_normalize_or_zero (sqrt : Q -> Q) (v : Vec2) : Vec2 :=
  let len := vec2_length sqrt v in
  if qeqb len 0 then Vec2_ZERO else let '(x, y) := v in (x / len, y / len).
Definition vec3_normalize_or_zero (sqrt : Q -> Q) (v : Vec3) : Vec3 :=
  let len := vec3_length sqrt v in
  if qeqb len 0 then Vec3_ZERO else let '(x, y, z) := v in (x / len, y / len, z / len).
End Glam2.
"""

# --- third wave: input reader (Bevy table) ---
for _t in ('KeyCode', 'MouseButton', 'GamepadButton', 'GamepadAxis', 'Entity', 'ModKeys'):
    COQ_TYPE[_t] = 'Z'                   # keys / buttons / axes / entities / ModKeys bit masks: integers
COQ_TYPE.update({'ButtonInput<KeyCode>': 'list Z', 'ButtonInput<MouseButton>': 'list Z',
                 'AccumulatedMouseMotion': 'Glam.Vec2', 'AccumulatedMouseScroll': 'Glam.Vec2',
                 'Query<&Gamepad>': 'list pad', 'Gamepad': 'pad', 'GamepadDevice': 'device', 'Input': 'input',
                 '[KeyCode;2]': 'list Z'})
ENUM_MAP['GamepadDevice'] = {'Any': ('None', 'unit', []), 'Single': ('Some', 'tuple', ['Entity'])}
ENUM_MAP['Input'] = {
    'Keyboard': ('IKey', 'struct', [('key', 'KeyCode'), ('mod_keys', 'ModKeys')]),
    'MouseButton': ('IMouseButton', 'struct', [('button', 'MouseButton'), ('mod_keys', 'ModKeys')]),
    'MouseMotion': ('IMotion', 'struct', [('mod_keys', 'ModKeys')]),
    'MouseWheel': ('IWheel', 'struct', [('mod_keys', 'ModKeys')]),
    'GamepadButton': ('IPadButton', 'tuple', ['GamepadButton']),
    'GamepadAxis': ('IPadAxis', 'tuple', ['GamepadAxis'])}
WRAPPERS = ('Res<', 'Local<', 'ResMut<')     # Bevy system-parameter wrappers: transparent


def norm_type(ty):
    for w_ in WRAPPERS:
        if ty.startswith(w_) and ty.endswith('>'):
            return norm_type(ty[len(w_):-1])
    return ty


# fields of Bevy resource structs:  (type, field) -> (Gallina template, result type)
BEVY_FIELDS = {('AccumulatedMouseMotion', 'delta'): ('{r}', 'Vec2'), ('AccumulatedMouseScroll', 'delta'): ('{r}', 'Vec2')}
# methods: (receiver type, method) -> (parameter types, result type, template over {r} {a0})
BEVY_METHODS = {
    ('ButtonInput<KeyCode>', 'pressed'): (['KeyCode'], 'bool', 'Bevy.set_mem {a0} {r}'),
    ('ButtonInput<MouseButton>', 'pressed'): (['MouseButton'], 'bool', 'Bevy.set_mem {a0} {r}'),
    ('ButtonInput<KeyCode>', 'any_pressed'): (['[KeyCode;2]'], 'bool', 'Bevy.any_pressed {r} {a0}'),
    ('Gamepad', 'pressed'): (['GamepadButton'], 'bool', 'Bevy.pad_pressed {r} {a0}'),
    ('Gamepad', 'get'): (['GamepadAxis'], 'Option<f32>', 'Bevy.pad_axis {r} {a0}'),
    ('Gamepad', 'get_unclamped'): (['GamepadAxis'], 'Option<f32>', 'Bevy.pad_axis {r} {a0}'),
    ('Query<&Gamepad>', 'iter'): ([], 'Iter<Gamepad>', '{r}'),
    ('Query<&Gamepad>', 'get'): (['Entity'], 'Option<Gamepad>', 'Bevy.query_get {r} {a0}'),   # Result as Option
    ('ModKeys', 'is_empty'): ([], 'bool', 'Bevy.mod_is_empty {r}'),
    ('ModKeys', 'intersects'): (['ModKeys'], 'bool', 'Bevy.mod_intersects {r} {a0}'),
    ('ModKeys', 'iter_keys'): ([], 'Iter<[KeyCode;2]>', 'Bevy.mod_iter_keys {r}'),
    ('Option<f32>', 'unwrap_or_default'): ([], 'f32', 'Bevy.unwrap_or_zero {r}'),
}
# methods taking a closure: (receiver type constructor, method) -> (result kind, template over {r} {f})
#   result kind 'bool' | 'same' (receiver type) | 'closure' (the closure's result type)
BEVY_CLOSURE_METHODS = {
    ('Iter', 'any'): ('bool', 'bool', 'existsb {f} {r}'),
    ('Iter', 'find_map'): ('option', 'closure', 'Bevy.find_map {f} {r}'),
    ('Option', 'filter'): ('bool', 'same', 'Bevy.opt_filter {f} {r}'),
    ('Option', 'is_ok_and'): ('bool', 'bool', 'Bevy.opt_is_some_and {r} {f}'),
    ('Option', 'is_some_and'): ('bool', 'bool', 'Bevy.opt_is_some_and {r} {f}'),
    ('Option', 'and_then'): ('option', 'closure', 'Bevy.opt_and_then {r} {f}'),
}
BEVY_IDENTITY_METHODS = {('Option', 'ok')}            # Result::ok on the Option that stands for a Result
# mutating statement methods: new value of the place, over {cur} {a0}
BEVY_MUT_METHODS = {('HashSet', 'insert'): ('elem', '{a0} :: {cur}'), ('HashSet', 'clear'): (None, '[]'),
                    ('ModKeys', 'insert'): ('ModKeys', 'Z.lor {cur} {a0}')}
Z_FLAG_TYPES = ['ModKeys']                            # bitflags represented by Z
BEVY_V = r"""(* GENERATED by bin/rs2v.py (fixed text): the TRUSTED table of Bevy / std meanings used by input_reader.rs,
   as operations on the model's representation (Model/Reader.v: pressed keys and buttons are lists of integers,
   a gamepad is a `pad` record, ModKeys is a bit mask in Z, KeyCode::{Alt,Control,Shift,Super}{Left,Right} are
   the integers 100 .. 107). *)
From BEI Require Import Model.Num Model.Value Model.State Model.Tracker Model.Cond Model.Modif Model.Reader.
Local Open Scope Z_scope.

Module Bevy.
(* ButtonInput::pressed(k), HashSet<integer>::contains *)
Definition set_mem (x : Z) (s : list Z) : bool := existsb (Z.eqb x) s.
(* ButtonInput::any_pressed([k1, k2]) *)
Definition any_pressed (s : list Z) (ks : list Z) : bool := existsb (fun k => set_mem k s) ks.
(* Gamepad::pressed(button), Gamepad::get(axis) / get_unclamped(axis) (clamping is not modelled) *)
Definition pad_pressed (p : pad) (b : Z) : bool := set_mem b (pad_buttons p).
Definition pad_axis (p : pad) (a : Z) : option Q :=
  match find (fun kv => Z.eqb (fst kv) a) (pad_axes p) with Some kv => Some (snd kv) | None => None end.
(* Query<&Gamepad>::get(entity): the gamepad with that id (Err = None); iter() = the list itself *)
Definition query_get (ps : list pad) (e : Z) : option pad := find (fun p => Z.eqb (pad_id p) e) ps.
(* Iterator::find_map, Option::filter / is_some_and (Result::is_ok_and) / and_then / unwrap_or_default *)
Fixpoint find_map {A B : Type} (f : A -> option B) (l : list A) : option B :=
  match l with [] => None | x :: r => match f x with Some y => Some y | None => find_map f r end end.
Definition opt_filter {A : Type} (p : A -> bool) (o : option A) : option A :=
  match o with Some x => if p x then Some x else None | None => None end.
Definition opt_is_some_and {A : Type} (o : option A) (p : A -> bool) : bool :=
  match o with Some x => p x | None => false end.
Definition opt_and_then {A B : Type} (o : option A) (f : A -> option B) : option B :=
  match o with Some x => f x | None => None end.
Definition unwrap_or_zero (o : option Q) : Q := match o with Some x => x | None => 0%Q end.
(* ModKeys (bitflags over u8, as Z): is_empty, intersects; insert = Z.lor; empty() = 0 *)
Definition mod_is_empty (m : Z) : bool := Z.eqb m 0.
Definition mod_intersects (a b : Z) : bool := negb (Z.eqb (Z.land a b) 0).
(* ModKeys::iter_keys (src/input.rs, NOT translated): for each set flag, in bit order ALT CONTROL SHIFT SUPER,
   the pair [left key, right key] *)
Definition mod_iter_keys (m : Z) : list (list Z) :=
  map (fun i => [100 + 2 * i; 101 + 2 * i]) (filter (Z.testbit m) [0; 1; 2; 3]).
End Bevy.
"""

# --- fourth wave: ActionBind::update ---
COQ_TYPE.update({'TypeId': 'Z', 'Vec<Box<dyn InputModifier>>': "Mods'", 'Vec<Box<dyn InputCondition>>': "Conds'",
                 'Commands': "Cmds'", '[Entity]': 'list Z', 'Ordering': 'comparison'})
ENUM_MAP['Ordering'] = {'Less': ('Lt', 'unit', []), 'Equal': ('Eq', 'unit', []), 'Greater': ('Gt', 'unit', [])}
EXTERNAL_ENUMS['Ordering'] = ('<core::cmp>', [('Less', 'unit', []), ('Equal', 'unit', []), ('Greater', 'unit', [])], [])
BEVY_METHODS[('ActionState', 'cmp')] = (['ActionState'], 'Ordering',          # derive(Ord): declaration order
                                        'Nat.compare (ActionState_index_src {r}) (ActionState_index_src {a0})')
BEVY_MUT_METHODS[('Vec', 'push')] = ('elem', '({cur} ++ [{a0}])%list')
BEVY_MUT_METHODS[('Vec', 'clear')] = (None, '[]')
# statement calls that stay OPAQUE: recv.m(.., &mut place) = let (recv, place) := <parameter> recv place
OPAQUE_PAIR_STMTS = {('TriggerTracker', 'apply_modifiers'): ("apply_modifiers'", 2),
                     ('TriggerTracker', 'apply_conditions'): ("apply_conditions'", 2)}
# effect calls: recv.m(target, args..) = target := <parameter> recv target args..
EFFECT_STMTS = {('ActionData', 'trigger_events'): "trigger_events'"}
# value calls that stay opaque: recv.m(args) = <parameter> recv args
OPAQUE_VALUE_METHODS = {('InputReader', 'raw_value'): ("raw_value'", ['Input'], 'ActionValue')}
ACTION_PRE = r"""(* meaning of `for x in &mut v { body }`: the body is run on every element in order, threading the outer state *)
Fixpoint for_mut {S A : Type} (f : S -> A -> S * A) (s : S) (l : list A) : S * list A :=
  match l with
  | [] => (s, [])
  | x :: r => let '(s1, x1) := f s x in let '(s2, r1) := for_mut f s1 r in (s2, x1 :: r1)
  end.

Section ActionSrc.
(* OPAQUE PARAMETERS of the translated code (see the header of bin/rs2v.py, fourth wave) *)
Variables Mods' Conds' Cmds' : Type.
(* tracker.apply_modifiers(actions, time, &mut mods) / apply_conditions(..): new tracker and new memories *)
Variable apply_modifiers' : tracker -> Mods' -> tracker * Mods'.
Variable apply_conditions' : tracker -> Conds' -> tracker * Conds'.
(* reader.raw_value(input) (uses mem::take: outside the subset) *)
Variable raw_value' : InputReader_src -> input -> value.
(* actions.get_mut(&self.type_id).expect(..): the ActionData stored for this action; it is returned updated *)
Variable entry' : data.
(* action.trigger_events(commands, entities): the effect on the command queue *)
Variable trigger_events' : data -> Cmds' -> list Z -> Cmds'.
"""

# --- fifth wave: ContextInstances (registry) ---
COQ_TYPE.update({'usize': 'nat', 'isize': 'Z', 'Reverse<isize>': 'Z', 'ContextInstance': 'inst',
                 'InstanceGroup': 'group', 'ContextMode': 'bool', '(Entity,ContextInstance)': '(Z * inst)%type',
                 'Option<usize>': 'option nat'})
ENUM_MAP['InstanceGroup'] = {
    'Exclusive': ('GExcl', 'struct', [('type_id', 'TypeId'), ('priority', 'isize'),
                                      ('instances', 'Vec<(Entity,ContextInstance)>')]),
    'Shared': ('GShared', 'struct', [('type_id', 'TypeId'), ('priority', 'isize'), ('entities', 'Vec<Entity>'),
                                     ('ctx', 'ContextInstance')])}
ENUM_MAP['ContextMode'] = {'Exclusive': ('false', 'unit', []), 'Shared': ('true', 'unit', [])}
BINOP[('==', 'TypeId', 'TypeId')] = ('Z.eqb {a} {b}', 'bool')
BINOP[('==', 'Entity', 'Entity')] = ('Z.eqb {a} {b}', 'bool')
# constants / functions of a type parameter C: InputContext -> parameters of the translated function
OPAQUE_FNS.update({'tp1_type_id': ("type_id'", 'Z'), 'tp2_prio': ("prio'", 'Z'), 'tp3_mode': ("shared'", 'bool'),
                   'tp4_ctx': ("context_instance'", 'Z -> inst')})
TYPE_PARAM_CONSTS = {'PRIORITY': ('tp2_prio', 'isize'), 'MODE': ('tp3_mode', 'ContextMode')}
BEVY_CLOSURE_METHODS[('Iter', 'position')] = ('bool', 'optusize', 'Reg.position {f} {r}')
BEVY_MUT_METHODS[('Vec', 'insert')] = ('usize+elem', 'Reg.insert_at {a0} {a1} {cur}')
BEVY_MUT_METHODS[('Vec', 'remove')] = ('usize', 'Reg.remove_at {a0} {cur}')
BEVY_MUT_METHODS[('Vec', 'swap_remove')] = ('usize', 'Reg.swap_remove {a0} {cur}')
EFFECT_STMTS[('ContextInstance', 'trigger_removed')] = "trigger_removed'"
# recv.m(t1, t2, args..) = (recv, t1, t2) := <parameter> recv t1 t2 args..   (time arguments are not passed)
OPAQUE_MULTI_STMTS = {('ContextInstance', 'update'): ("instance_update'", 2)}
REG_PRE = r"""Section RegistrySrc.
(* OPAQUE PARAMETERS: the command queue and ctx.trigger_removed(commands, time, entities) (for the current `time`) *)
Variable Cmds' : Type.
Variable trigger_removed' : inst -> Cmds' -> list Z -> Cmds'.
(* ctx.update(commands, reader, time, entities) (for the current `time`): new instance, command queue, reader *)
Variable instance_update' : inst -> Cmds' -> InputReader_src -> list Z -> inst * Cmds' * InputReader_src.
"""
REG_V = r"""(* GENERATED by bin/rs2v.py (fixed text): TRUSTED table of std meanings used by src/input_context.rs. *)
From BEI Require Import Model.Num Model.Registry.
Local Open Scope Z_scope.

Module Reg.
(* Iterator::position *)
Fixpoint position {A : Type} (f : A -> bool) (l : list A) : option nat :=
  match l with [] => None | x :: r => if f x then Some O else option_map S (position f r) end.
(* Vec::insert(i, x) (i <= len) *)
Fixpoint insert_at {A : Type} (n : nat) (x : A) (l : list A) : list A :=
  match n, l with O, _ => x :: l | S n', y :: r => y :: insert_at n' x r | S _, [] => [x] end.
(* v[i] = x through a `&mut v[i]` borrow (i < len; out of bounds would panic: not modelled, v unchanged) *)
Fixpoint set_at {A : Type} (n : nat) (x : A) (l : list A) : list A :=
  match n, l with O, _ :: r => x :: r | S n', y :: r => y :: set_at n' x r | _, [] => [] end.
(* v.binary_search_by_key(&Reverse(p), |g| Reverse(key g)).unwrap_or_else(|e| e): the index found or the insertion
   point, computed by core::slice::binary_search_by exactly as transcribed in Model/Registry.v (bsearch), with
   the comparison  Reverse(key g).cmp(&Reverse(p)) = p.cmp(key g) *)
Fixpoint bsearch_loop {A : Type} (key : A -> Z) (fuel : nat) (p : Z) (r : list A) (base size : nat) : nat :=
  match fuel with
  | O => base
  | S fuel' =>
      if Nat.leb size 1 then base
      else let half := Nat.div2 size in
           let mid := (base + half)%nat in
           let base' := match nth_error r mid with
                        | Some g => match Z.compare p (key g) with Gt => base | _ => mid end
                        | None => base
                        end in
           bsearch_loop key fuel' p r base' (size - half)%nat
  end.
Definition bsearch_rev_key {A : Type} (key : A -> Z) (p : Z) (r : list A) : nat :=
  match r with
  | [] => O
  | _ => let base := bsearch_loop key (length r) p r O (length r) in
         match nth_error r base with
         | Some g => match Z.compare p (key g) with Eq => base | Lt => S base | Gt => base end
         | None => base
         end
  end.
(* Vec::remove(i), Vec::swap_remove(i) (as in Model/Registry.v), Vec::is_empty *)
Fixpoint remove_at {A : Type} (n : nat) (l : list A) : list A :=
  match n, l with O, _ :: r => r | S n', y :: r => y :: remove_at n' r | _, [] => [] end.
Definition swap_remove {A : Type} (n : nat) (l : list A) : list A :=
  match nth_error l n with
  | None => l
  | Some _ =>
      match rev l with
      | [] => l
      | lastx :: _ => if Nat.eqb (S n) (length l) then removelast l
                      else removelast (set_at n lastx l)
      end
  end.
Definition is_empty {A : Type} (l : list A) : bool := match l with [] => true | _ => false end.
End Reg.
"""

# =====================================================================================
# 4. Translator: typed AST -> Gallina text
# =====================================================================================

class NeedExpected(Exception):
    """`.into()` met without a known target type; the caller may retry with one"""

    def __init__(self, line):
        Exception.__init__(self, "need expected type")
        self.line = line


class Var(object):
    def __init__(self, ty, coq, kind):
        self.ty, self.coq, self.kind = ty, coq, kind     # kind: val | mut | refmut | opaque


def ind(s, n=2):
    return s.replace('\n', '\n' + ' ' * n)


def atomic(s):
    if '\n' in s:
        return False
    if all(c.isalnum() or c in "_'." for c in s):
        return True
    if s[0] == '(' and s[-1] == ')':
        d = 0
        for i, c in enumerate(s):
            if c == '(':
                d += 1
            elif c == ')':
                d -= 1
                if d == 0 and i != len(s) - 1:
                    return False
        return True
    return False


def par(s):
    return s if atomic(s) else '(' + ind(s, 1) + ')'


def q_literal(text):
    t = text.replace('_', '')
    for suf in ('f32', 'f64'):
        if t.endswith(suf):
            t = t[:-3]
    if t.endswith('.'):
        t += '0'
    fr = Fraction(t)
    import struct as _struct
    try:                                   # a literal denotes the NEAREST f32 (0.5 is exact, 1e-4 is not)
        fr = Fraction(_struct.unpack('f', _struct.pack('f', float(fr)))[0])
    except OverflowError:
        pass
    if fr.denominator == 1:
        return '%d%%Q' % fr.numerator
    return '(%d # %d)%%Q' % (fr.numerator, fr.denominator)


def strip_ref(ty):
    if ty.startswith('&mut '):
        return ty[5:], 'refmut'
    if ty.startswith('&'):
        return ty[1:], 'ref'
    return ty, 'value'


def split_tuple_type(ty):
    """'(A,B<C,D>)' -> ['A', 'B<C,D>']"""
    if not (ty.startswith('(') and ty.endswith(')')):
        return None
    out, depth, cur = [], 0, ''
    for ch in ty[1:-1]:
        if ch in '<([':
            depth += 1
        if ch in '>)]':
            depth -= 1
        if ch == ',' and depth == 0:
            out.append(cur)
            cur = ''
        else:
            cur += ch
    out.append(cur)
    return out


class SrcFile(object):
    def __init__(self, repo, rel):
        self.rel = rel
        self.path = os.path.join(repo, rel)
        if not os.path.isfile(self.path):
            raise Unsupported(rel, 0, "source file not found")
        with open(self.path) as f:
            self.toks = tokenize(f.read(), rel)
        self.items = scan_items(self.toks, rel)

    def parser(self, pos):
        return Parser(self.toks, self.rel, pos)

    def item(self, kind, name):
        found = [it for it in self.items if it.kind == kind and it.name == name]
        if len(found) != 1:
            raise Unsupported(self.rel, 0, "expected exactly one `%s %s`, found %d" % (kind, name, len(found)))
        return found[0]


class OutFile(object):
    def __init__(self, name, src, imports):
        self.name, self.src, self.imports, self.defs = name, src, list(imports), []

    def text(self):
        out = ["(* GENERATED by bin/rs2v.py from %s -- do not edit; regenerate instead *)" % self.src,
               "From Coq Require Import String.",
               "From BEI Require Import %s." % ' '.join(self.imports), "Local Open Scope string_scope.",
               "Local Open Scope Q_scope.", ""]
        pre = [getattr(self, 'pre', '')] if getattr(self, 'pre', '') else []
        post = [getattr(self, 'post', '')] if getattr(self, 'post', '') else []
        return '\n'.join(out + pre + self.defs + post) + '\n'


class World(object):
    def __init__(self, repo):
        self.repo = repo
        self.enums = {}        # name -> (variants in declaration order, derives)
        self.structs = {}      # name -> [(field, type)]  (modelled fields only)
        self.smeta = {}        # name -> dict(coq, proj {field: name}, setter {field: name}, out, generated)
        self.fns = {}          # (type, name) -> (Fn node, SrcFile, OutFile)
        self.froms = {}        # (source type, target type) -> (Fn node, SrcFile, OutFile)
        self.flags = {}        # type -> [(const, value)]
        self.done = {}         # key -> coq name
        self.busy = set()
        self.names = {}        # coq name -> key

    # ---- declarations
    def check_enum(self, sf, name, line, variants):
        table = ENUM_MAP.get(name)
        if table is None:
            raise Unsupported(sf.rel, line, "enum `%s` has no model counterpart" % name)
        for (v, kind, payload, vl) in variants:
            if v not in table:
                raise Unsupported(sf.rel, vl, "variant `%s::%s` has no model counterpart" % (name, v))
            if (kind, payload) != (table[v][1], table[v][2]):
                raise Unsupported(sf.rel, vl, "payload of `%s::%s` differs from the model counterpart" % (name, v))
        if len(set(v[0] for v in variants)) != len(variants):
            raise Unsupported(sf.rel, line, "duplicate variant in `%s`" % name)

    def load_enum(self, sf, name):
        it = sf.item('enum', name)
        variants = sf.parser(it.pos).enum_body()
        self.check_enum(sf, name, it.line, variants)
        self.enums[name] = ([(v, k, p) for (v, k, p, _) in variants], derives(it.attrs))

    def load_external_enums(self):
        for name, (rel, decl, ders) in EXTERNAL_ENUMS.items():
            if os.path.isfile(os.path.join(self.repo, rel)):
                sf = SrcFile(self.repo, rel)
                self.load_enum(sf, name)
                if self.enums[name] != (decl, ders):
                    raise Unsupported(rel, sf.item('enum', name).line,
                                      "declaration of `%s` differs from the trusted table" % name)
            else:
                self.enums[name] = (decl, ders)

    def load_struct(self, sf, name, out=None):
        """struct mapped to a record of the MODEL (RECORD_MAP)"""
        it = sf.item('struct', name)
        fields = [x for x in sf.parser(it.pos).struct_body() if not ignored_field(x[1])]
        cname, table = RECORD_MAP[name]
        for (f, ty, line) in fields:
            if f not in table:
                raise Unsupported(sf.rel, line, "field `%s.%s` has no model counterpart" % (name, f))
            if table[f][1] != ty:
                raise Unsupported(sf.rel, line, "type of field `%s.%s` differs from the model counterpart" % (name, f))
        self.structs[name] = [(f, ty) for (f, ty, _) in fields]
        pre = '' if name == 'TriggerTracker' else name + '_'
        self.smeta[name] = dict(coq=cname, proj=dict((f, table[f][0]) for (f, _, _) in fields),
                                setter=dict((f, 'set_%s%s_src' % (pre, f)) for (f, _, _) in fields),
                                out=out, generated=False, generics=[])

    def gen_struct(self, sf, name, out):
        """struct without a model record: a Gallina Record is GENERATED from its declaration"""
        it = sf.item('struct', name)
        fields = [(f, norm_type(t), l) for (f, t, l) in sf.parser(it.pos).struct_body() if not ignored_field(t)]
        for (f, ty, line) in fields:
            self.ensure_type(ty, sf, line)
        self.structs[name] = [(f, ty) for (f, ty, _) in fields]
        self.smeta[name] = dict(coq=name + '_src', proj=dict((f, '%s_%s' % (name, f)) for (f, _, _) in fields),
                                setter=dict((f, 'set_%s_%s_src' % (name, f)) for (f, _, _) in fields),
                                out=out, generated=True, generics=list(getattr(it, 'generics', [])), line=it.line,
                                derives=derives(it.attrs), tag=name)

    def coq_type_of(self, ty):
        if ty in COQ_TYPE:
            return COQ_TYPE[ty]
        if ty in getattr(self, 'newtypes', {}):
            return self.coq_type_of(self.newtypes[ty])
        if ty in self.smeta:
            return self.smeta[ty]['coq']
        for (pre, fmt) in (('HashSet<', 'list %s'), ('Option<', 'option %s'), ('Iter<', 'list %s'), ('Vec<', 'list %s')):
            if ty.startswith(pre) and ty.endswith('>'):
                inner = self.coq_type_of(ty[len(pre):-1])
                if inner is None:
                    return None
                return fmt % (inner if atomic(inner) else '(' + inner + ')')
        return None

    def ensure_type(self, ty, sf, line):
        """make sure `ty` has a Gallina representation (instantiating generic structs on demand)"""
        if self.coq_type_of(ty) is not None:
            return
        for pre in ('HashSet<', 'Option<', 'Iter<', 'Vec<'):
            if ty.startswith(pre) and ty.endswith('>'):
                self.ensure_type(ty[len(pre):-1], sf, line)
                return
        base = ty.split('<')[0]
        if base in getattr(self, 'generic_structs', {}) and ty.endswith('>'):
            self.instantiate(base, ty[len(base) + 1:-1], sf, line)
            return
        raise Unsupported(sf.rel, line, "unsupported type `%s`" % ty)

    def instantiate(self, base, arg, sf0, line0):
        it, sf, out = self.generic_structs[base]
        ty = '%s<%s>' % (base, arg)
        if ty in self.smeta:
            return ty
        if len(it.generics) != 1:
            raise Unsupported(sf.rel, it.line, "generic struct `%s` with %d parameters" % (base, len(it.generics)))
        fields = [(f, (arg if t == it.generics[0] else norm_type(t)), l) for (f, t, l) in sf.parser(it.pos).struct_body()
                  if not ignored_field(t)]
        tag = base + '_' + ''.join(c for c in arg if c.isalnum())
        for (f, t, l) in fields:
            self.ensure_type(t, sf, l)
        self.structs[ty] = [(f, t) for (f, t, _) in fields]
        self.smeta[ty] = dict(coq=tag + '_src', proj=dict((f, '%s_%s' % (tag, f)) for (f, _, _) in fields),
                              setter=dict((f, 'set_%s_%s_src' % (tag, f)) for (f, _, _) in fields),
                              out=out, generated=True, generics=[], line=it.line, derives=derives(it.attrs), tag=tag)
        emit_setters(self, out, ty, sf)
        return ty

    def eqb_of(self, ty, sf, line):
        """Gallina equality test for values of a type that derives PartialEq"""
        c = self.coq_type_of(ty)
        if c == 'Z':
            return 'Z.eqb'
        if c == 'bool':
            return 'Bool.eqb'
        if c == 'Q':
            return 'qeqb'
        if ty in self.enums and 'PartialEq' in self.enums[ty][1] and ty in getattr(self, 'enum_out', {}):
            return '%s_eqb_src' % ty
        if ty in self.smeta and self.smeta[ty]['generated'] and 'PartialEq' in self.smeta[ty].get('derives', []):
            return '%s_eqb_src' % self.smeta[ty]['tag']
        raise Unsupported(sf.rel, line, "no equality (derive(PartialEq)) known for `%s`" % ty)

    def load_impls(self, sf, out, tyname):
        n = 0
        for it in sf.items:
            if it.kind != 'impl':
                continue
            base = it.ty.split('<')[0] if it.ty else None
            if base == tyname and it.trait != 'From' and (it.trait is None or it.trait in TRANSLATED_TRAITS) \
                    and not (it.trait is None and it.header == [tyname]):
                n += 1
                for f in sf.parser(it.pos).impl_body_lenient():
                    if (tyname, f.name) in self.fns:
                        raise Unsupported(sf.rel, f.line, "duplicate function `%s::%s`" % (tyname, f.name))
                    f.generics = it.generics
                    self.fns[(tyname, f.name)] = (f, sf, out)
            elif it.header == [tyname]:
                n += 1
                for f in sf.parser(it.pos).impl_body_lenient():
                    if (tyname, f.name) in self.fns:
                        raise Unsupported(sf.rel, f.line, "duplicate function `%s::%s`" % (tyname, f.name))
                    self.fns[(tyname, f.name)] = (f, sf, out)
            elif len(it.header) >= 4 and it.header[0] == 'From' and it.header[-2:] == ['for', tyname]:
                p = sf.parser(it.pos - len(it.header))
                p.expect('From')
                p.expect('<')
                src_ty = p.type_()
                p.close_angle()
                fns = [f for f in sf.parser(it.pos).impl_body_lenient() if f.name == 'from']
                if len(fns) == 1:
                    self.froms[(src_ty, tyname)] = (fns[0], sf, out)
        if n == 0:
            raise Unsupported(sf.rel, 0, "no `impl %s` block found" % tyname)

    def load_bitflags(self, sf, tyname):
        for it in sf.items:
            if it.kind == 'macro' and it.name == 'bitflags':
                p = sf.parser(it.pos)
                p.expect('{')
                while not p.at('}'):
                    p.attrs()
                    p.visibility()
                    line = p.peek().line
                    p.expect('struct')
                    name = p.ident()
                    p.expect(':')
                    repr_ = p.type_()
                    p.expect('{')
                    consts = []
                    while not p.at('}'):
                        p.attrs()
                        cl = p.peek().line
                        p.expect('const')
                        cname = p.ident()
                        p.expect('=')
                        v = p.next()
                        if v.kind != 'int' or not p.at(';'):
                            raise Unsupported(sf.rel, cl, "bitflags constant `%s` is not an integer literal" % cname)
                        digits = v.text.replace('_', '')
                        for suf in ('u8', 'u16', 'u32', 'u64'):
                            if digits.endswith(suf):
                                digits = digits[:-len(suf)]
                        consts.append((cname, int(digits, 0), cl))
                        p.expect(';')
                    p.expect('}')
                    if name == tyname:
                        if repr_ not in ('u8', 'u16', 'u32', 'u64'):
                            raise Unsupported(sf.rel, line, "bitflags representation `%s`" % repr_)
                        self.flags[tyname] = consts
                        return
        raise Unsupported(sf.rel, 0, "no `bitflags!` declaration of `%s` found" % tyname)

    # ---- naming
    def coq_name(self, key, sf, line):
        names = {('ActionEvents', 'new'): 'events_new_src', ('TriggerTracker', 'state'): 'tracker_state_src',
                 ('TriggerTracker', 'value'): 'tracker_value_src'}
        if key in names:
            nm = names[key]
        elif key[0] in ('ActionValue', 'TriggerTracker'):
            nm = key[1] + '_src'
        else:
            nm = '%s_%s_src' % key
        if self.names.get(nm, key) != key:
            raise Unsupported(sf.rel, line, "name clash for generated definition `%s`" % nm)
        self.names[nm] = key
        return nm

    # ---- on-demand translation of functions
    def require_fn(self, key, from_out, sf0, line):
        """make sure function `key` = (type, name) is translated; returns its Gallina name"""
        if key not in self.fns:
            raise Unsupported(sf0.rel, line, "call of unknown function `%s::%s`" % key)
        f, sf, out = self.fns[key]
        if key in self.busy:
            raise Unsupported(sf.rel, f.line, "recursive function `%s::%s`" % key)
        if key not in self.done:
            self.busy.add(key)
            nm = self.coq_name(key, sf, f.line)
            nm = FnTranslator(self, sf, out, key[0], f).emit(nm) or nm
            self.busy.discard(key)
            self.done[key] = nm
        if from_out is not out and out.name not in from_out.imports:
            from_out.imports.append(out.name)
        return self.done[key]

    def require_from(self, src_ty, dst_ty, from_out, sf0, line):
        key = (src_ty, dst_ty)
        if key not in self.froms:
            raise Unsupported(sf0.rel, line, "`.into()` from `%s` to `%s`: no `impl From` found" % key)
        f, sf, out = self.froms[key]
        k2 = ('From', src_ty, dst_ty)
        if k2 not in self.done:
            nm = 'from_%s_src' % ''.join(c for c in src_ty if c.isalnum())
            if nm in self.names:
                raise Unsupported(sf.rel, f.line, "name clash for generated definition `%s`" % nm)
            self.names[nm] = k2
            if f.self_kind is not None or len(f.params) != 1 or strip_ref(f.params[0][1])[0] != src_ty:
                raise Unsupported(sf.rel, f.line, "malformed `From::from`")
            if getattr(self, 'late', False):
                out = from_out
                self.froms[key] = (f, sf, out)
            FnTranslator(self, sf, out, dst_ty, f).emit(nm)
            self.done[k2] = nm
        if from_out is not out and out.name not in from_out.imports:
            from_out.imports.append(out.name)
        return self.done[k2]


def impl_body_lenient(self):
    """like impl_body, but a function whose SIGNATURE is outside the subset is recorded as unusable
       instead of aborting (it only matters if it is called)"""
    self.expect('{')
    fns = []
    while not self.at('}'):
        attrs = self.attrs()
        self.visibility()
        if self.at('const') and self.at('fn', 1):
            self.next()
        if self.at('fn'):
            start = self.pos
            try:
                f = self.fn_sig()
                f.attrs = attrs
                f.bad = None
            except Unsupported as e:
                self.pos = start + 1
                f = Node('Fn', self.peek().line, name=self.ident(), self_kind=None, params=[], ret='()',
                         body=None, body_pos=None, attrs=attrs, bad=e)
                while not self.at('{'):
                    if self.peek().kind == 'p' and self.peek().text in OPEN:
                        self.skip_balanced()
                    elif self.peek().kind == 'eof' or self.at(';'):
                        self.fail("function without body")
                    else:
                        self.next()
            if not self.at('{'):
                self.fail("function without body")
            f.body_pos = self.pos
            self.skip_balanced()
            fns.append(f)
        elif self.at('const') or self.at('type'):
            while not self.at(';'):
                if self.peek().kind == 'p' and self.peek().text in OPEN:
                    self.skip_balanced()
                else:
                    self.next()
            self.next()
        else:
            self.fail("unsupported item `%s` in impl" % self.peek().text)
    self.expect('}')
    return fns


Parser.impl_body_lenient = impl_body_lenient


def contains_return(n):
    if isinstance(n, Node):
        if n.k == 'Return':
            return True
        return any(contains_return(v) for v in n.__dict__.values())
    if isinstance(n, (list, tuple)):
        return any(contains_return(v) for v in n)
    return False


def contains_continue(n):
    if isinstance(n, Node):
        if n.k == 'Continue':
            return True
        if n.k == 'For':
            return False
        return any(contains_continue(v) for v in n.__dict__.values())
    if isinstance(n, (list, tuple)):
        return any(contains_continue(v) for v in n)
    return False


class FinalVars(list):
    """result variables of a function whose `expect`s are rendered as option: Some (..) at the normal exit"""
    pass


def contains_expect(n):
    if isinstance(n, Node):
        if n.k == 'Method' and n.name == 'expect':
            return True
        return any(contains_expect(v) for v in n.__dict__.values())
    if isinstance(n, (list, tuple)):
        return any(contains_expect(v) for v in n)
    return False


class LoopVars(list):
    """state variables of a loop step followed by the element: rendered ((s1, s2), x)"""
    pass


def always_returns_block(b):
    for s in b.stmts:
        if always_returns_stmt(s):
            return True
    return b.tail is not None and always_returns_expr(b.tail)


def always_returns_expr(e):
    if e.k in ('Return', 'Continue'):
        return True
    if e.k in ('If', 'IfLet'):
        if e.els is None:
            return False
        els = always_returns_expr(e.els) if e.els.k in ('If', 'IfLet') else always_returns_block(e.els)
        return always_returns_block(e.then) and els
    if e.k == 'Block':
        return always_returns_block(e)
    return False


def always_returns_stmt(s):
    return s.k == 'Expr' and always_returns_expr(s.expr)


def assign_root(lhs):
    """root variable of an assignment target:  x | *x | x.f | (*x).f"""
    e = lhs
    while e.k in ('Field', 'TupleIndex', 'Index'):
        e = e.recv
    while e.k == 'Paren':
        e = e.expr
    if e.k == 'Unary' and e.op == '*':
        e = e.expr
    if e.k == 'Path' and len(e.segs) == 1:
        return e.segs[0]
    return None


def assigned_vars(n, acc):
    if isinstance(n, Node):
        if n.k == 'Assign':
            acc.append((assign_root(n.lhs), n.line))
        if n.k == 'Match' and n.scrut.k == 'Ref' and n.scrut.mut:
            acc.append((assign_root(n.scrut.expr), n.line))
        if n.k == 'Expr' and n.expr.k == 'Method':         # statement `place.method(..);` may mutate place
            if n.expr.name in [k_[1] for k_ in EFFECT_STMTS] and n.expr.args:
                acc.append((assign_root(n.expr.args[0]), n.line))
            else:
                acc.append((assign_root(n.expr.recv), n.line))
            if n.expr.name in [k_[1] for k_ in OPAQUE_MULTI_STMTS] and len(n.expr.args) >= 4:
                for a_ in n.expr.args[:2]:
                    acc.append((assign_root(a_), n.line))
            if n.expr.name in [k_[1] for k_ in OPAQUE_PAIR_STMTS]:
                for a_ in n.expr.args:
                    if a_.k == 'Ref' and a_.mut:
                        acc.append((assign_root(a_.expr), n.line))
        for v in n.__dict__.values():
            assigned_vars(v, acc)
    elif isinstance(n, (list, tuple)):
        for v in n:
            assigned_vars(v, acc)
    return acc


class FnTranslator(object):
    def __init__(self, world, sf, out, self_type, fn):
        self.w, self.sf, self.out, self.self_type, self.fn = world, sf, out, self_type, fn
        self.key = (self_type, fn.name)
        self.recursive = False
        self.generics = []
        self.opq_used = []
        self.time_used = []
        self.ret = None
        self.opaque = None          # for loop-step functions: method -> (param coq name, type, args text)

    def fail(self, line, what):
        raise Unsupported(self.sf.rel, line, what)

    def resolve_type(self, ty, line):
        if ty == 'Self':
            ty = self.self_type
        if ty and ty.startswith('Option<&') and ty.endswith('>'):
            ty = 'Option<' + ty[len('Option<&'):]
        return norm_type(ty) if ty else ty

    def coq_type(self, ty, line):
        t = self.w.coq_type_of(ty)
        if t is None:
            self.w.ensure_type(ty, self.sf, line)
            t = self.w.coq_type_of(ty)
        if ty in self.w.smeta:
            self.use_out(self.w.smeta[ty]['out'])
        return t

    def use_out(self, out):
        if out is not None and out is not self.out and out.name not in self.out.imports:
            self.out.imports.append(out.name)

    def meta(self, ty, line):
        if ty not in self.w.smeta:
            self.fail(line, "type `%s` is not a translated struct" % ty)
        self.use_out(self.w.smeta[ty]['out'])
        return self.w.smeta[ty]

    def opq(self, name):
        if name not in self.opq_used:
            self.opq_used.append(name)
        return OPAQUE_FNS[name][0]

    def time_param(self, m, line):
        table = dict(TIME_METHODS)
        if m not in table:
            self.fail(line, "method `%s` on `%s`" % (m, TIME_TYPE))
        if m not in self.time_used:
            self.time_used.append(m)
        return table[m]

    # ---------------- functions
    def emit(self, coq_name):
        f = self.fn
        if getattr(f, 'bad', None) is not None:
            raise f.bad
        env = {}
        binders = []          # strings, or ('time',) / ('lookup',) placeholders resolved after the body
        self.time_used = []
        self.out_vars = []
        self.out_types = {}
        self.step_name = coq_name[:-4] + '_step_src'
        self.opq_used = []
        self.lookup_used = False
        self.generics = list(getattr(f, 'generics', [])) + list(getattr(f, 'fgenerics', []))
        if f.self_kind is not None:
            env['self'] = Var(self.self_type, "self'", 'refmut' if f.self_kind == 'refmut' else 'val')
            binders.append("(self' : %s)" % self.coq_type(self.self_type, f.line))
        for (pat, ty) in f.params:
            if pat.k != 'PBind':
                self.fail(pat.line, "parameter pattern")
            ty, rk = strip_ref(self.resolve_type(ty, pat.line))
            ty = self.resolve_type(ty, pat.line)
            into_id = False
            if ty.startswith('impl Into<') and ty.endswith('>'):
                ty = ty[len('impl Into<'):-1]          # modelled as the already converted value
                into_id = True
            if ty == TIME_TYPE and rk == 'ref':
                env[pat.name] = Var(ty, None, 'time')
                binders.append(('time',))
                continue
            if ty == 'World':
                env[pat.name] = Var(ty, None, 'world')
                continue
            if ty == ACTIONS_TYPE and rk in ('ref', 'refmut'):
                env[pat.name] = Var(ty, None, 'actions')
                binders.append(('lookup',))
                continue
            if rk == 'refmut':
                if f.self_kind != 'refmut' or self.resolve_type(f.ret, f.line) != '()':
                    self.fail(pat.line, "`&mut` parameter `%s`" % pat.name)
                env[pat.name] = Var(ty, pat.name + "'", 'refmut')
                binders.append("(%s' : %s)" % (pat.name, self.coq_type(ty, pat.line)))
                self.out_vars.append(pat.name)           # returned next to self
                self.out_types[pat.name] = self.coq_type(ty, pat.line)
                continue
            env[pat.name] = Var(ty, pat.name + "'", 'mut' if pat.mut else 'val')
            env[pat.name].into_id = into_id
            binders.append("(%s' : %s)" % (pat.name, self.coq_type(ty, pat.line)))
        body = self.sf.parser(f.body_pos).block()
        ret = self.resolve_type(f.ret, f.line)
        self.pair = False
        if f.self_kind == 'refmut' and ret == '()':
            self.ret = None
            names = ['self'] + self.out_vars
            self.expect_mode = contains_expect(body) and not any(
                self.getmut_idiom(st.init, env) for st in body.stmts if st.k == 'Let')
            if self.expect_mode:
                names = FinalVars(names)            # a failing `expect` (panic) is rendered as None
            text = self.seq(body.stmts, body.tail, env, ('vars', names))
            rtext = self.coq_type(self.self_type, f.line)
            if len(names) > 1:
                rtext = '(' + ' * '.join([rtext] + [self.out_types[n] for n in names[1:]]) + ')'
            if self.expect_mode:
                rtext = 'option ' + rtext
        else:
            self.ret = ret
            self.pair = f.self_kind == 'refmut'        # result: (new self, value)
            text, rty = self.seq(body.stmts, body.tail, env, ('value', ret, True))
            if rty != ret:
                self.fail(f.line, "body has type `%s`, declared `%s`" % (rty, ret))
            rtext = self.coq_type(rty, f.line)
            if self.pair:
                rtext = "(%s * %s)" % (self.coq_type(self.self_type, f.line), rtext)
        f.time_methods = [m for (m, _) in TIME_METHODS if m in self.time_used]
        f.uses_lookup = self.lookup_used
        f.opaque_fns = [n for n in sorted(OPAQUE_FNS) if n in self.opq_used]
        final = ["(%s : %s)" % OPAQUE_FNS[n] for n in f.opaque_fns]
        for b in binders:
            if b == ('time',):
                final += ["(%s : Q)" % c for (m, c) in TIME_METHODS if m in self.time_used]
            elif b == ('lookup',):
                if self.lookup_used:
                    final.append("(lookup' : %s)" % COQ_TYPE[LOOKUP_RESULT])
            else:
                final.append(b)
        note = ''
        if self.recursive:
            if f.time_methods or f.uses_lookup or f.opaque_fns:
                self.fail(f.line, "self-recursive function with opaque parameters")
            tys = [b[b.index(':') + 2:-1] for b in final]
            final = ["(rec' : %s)" % ' -> '.join([(t if atomic(t) else '(' + t + ')') for t in tys] + [rtext])] + final
            coq_name = coq_name[:-4] + '_open_src'
            note = ("   the function calls ITSELF: this is the open-recursion functional; the Rust function is a fixed point\n"
                    "   f = %s f *)\n(* " % coq_name)
        self.out.defs.append("(* %s%s::%s, %s:%d *)\nDefinition %s %s : %s :=\n  %s.\n" % (
            note, self.self_type, f.name, self.sf.rel, f.line, coq_name, ' '.join(final), rtext, ind(text)))
        return coq_name

    # ---------------- statements (continuation style)
    def vars_text(self, names, env):
        if isinstance(names, FinalVars):
            return 'Some ' + par(self.vars_text(list(names), env))
        if isinstance(names, LoopVars):
            st = names[:-1]
            inner = env[st[0]].coq if len(st) == 1 else '(' + ', '.join(env[n].coq for n in st) + ')'
            return '(%s, %s)' % (inner, env[names[-1]].coq)
        if len(names) == 1:
            return env[names[0]].coq
        return '(' + ', '.join(env[n].coq for n in names) + ')'

    def bind_vars(self, names, env, rhs, rest):
        if len(names) == 1:
            return "let %s :=\n  %s in\n%s" % (env[names[0]].coq, ind(rhs), rest)
        return "let '%s :=\n  %s in\n%s" % (self.vars_text(names, env), ind(rhs), rest)

    def block_as(self, b, env, want):
        """translate a Block (or an `else if` If node) under `want`"""
        if b.k in ('If', 'IfLet'):
            if want[0] == 'value':
                return self.expr(b, env, want[1], want[2])
            return self.seq([Node('Expr', b.line, expr=b)], None, env, want)
        return self.seq(b.stmts, b.tail, dict(env), want)

    def tail_expr(self, e, env, exp, ret_ok):
        """expression in result position; at function level of a `&mut self` method with a result the
           leaves are paired with the current self"""
        if e.k in ('If', 'IfLet', 'Match', 'Block', 'Return') or not (ret_ok and self.pair):
            return self.expr(e, env, exp, ret_ok)
        if (e.k == 'Method' and e.recv.k == 'Path' and e.recv.segs == ['self'] and (self.self_type, e.name) in self.w.fns):
            cf = self.w.fns[(self.self_type, e.name)][0]
            if cf.self_kind == 'refmut' and cf.ret != '()':
                return self.user_call((self.self_type, e.name), env['self'].coq, e.args, env, e.line, mutating=True)
        t, ty = self.expr(e, env, exp)
        return "(%s, %s)" % (env['self'].coq, t), ty

    def cond_parts(self, e, env):
        """for If / IfLet: (formatter (then text, else text) -> text, env of the then branch)"""
        if e.k == 'If':
            cond, cty = self.expr(e.cond, env, 'bool')
            if cty != 'bool':
                self.fail(e.line, "condition of type `%s`" % cty)
            return (lambda a, b: "if %s\nthen %s\nelse %s" % (cond, ind(a, 5), ind(b, 5))), env
        st, sty = self.expr(e.scrut, env, None)
        p = e.pat
        if not (sty.startswith('Option<') and p.k == 'PCtor' and p.path == ['Some'] and len(p.args) == 1
                and p.args[0].k in ('PBind', 'PWild')):
            self.fail(e.line, "`if let` (only `if let Some(x) = <Option>` is supported)")
        env2 = dict(env)
        x = '_'
        if p.args[0].k == 'PBind':
            x = p.args[0].name + "'"
            env2[p.args[0].name] = Var(sty[len('Option<'):-1], x, 'val')
        return (lambda a, b: "match %s with\n| Some %s =>\n    %s\n| None =>\n    %s\nend"
                % (st, x, ind(a, 4), ind(b, 4))), env2

    def seq(self, stmts, tail, env, want):
        """want = ('value', expected type or None, return allowed)  -> (text, type)
                | ('vars', [rust names])                            -> text"""
        value_mode = want[0] == 'value'
        if not stmts:
            if value_mode:
                if tail is None:
                    self.fail(0, "block without a value where one is needed")
                return self.tail_expr(tail, env, want[1], want[2])
            if tail is not None:
                return self.seq([Node('Expr', tail.line, expr=tail)], None, env, want)
            return self.vars_text(want[1], env)
        s, rest = stmts[0], stmts[1:]
        env = dict(env)

        def go_rest():
            return self.seq(rest, tail, env, want)

        def prefix(head, r):
            if value_mode:
                return (head + r[0], r[1])
            return head + r

        loop_ok = (not value_mode) and len(want) > 2 and want[2]
        if s.k == 'Expr' and s.expr.k == 'Continue':
            if not loop_ok:
                self.fail(s.line, "`continue` here")
            return self.vars_text(want[1], env)             # the step ends with the current state
        if s.k == 'Expr' and s.expr.k in ('If', 'IfLet') and contains_continue(s.expr):
            e = s.expr
            if not loop_ok:
                self.fail(s.line, "`continue` inside `if` here")
            if contains_return(e):
                self.fail(s.line, "`return` inside a loop")
            fmt, env_then = self.cond_parts(e, env)

            def cbranch(b, benv):
                if b is None:
                    return go_rest()
                if b.k in ('If', 'IfLet'):
                    return self.seq([Node('Expr', b.line, expr=b)] + rest, tail, benv, want)
                if always_returns_block(b):
                    return self.seq(b.stmts, b.tail, benv, want)
                if any(x.k == 'Let' for x in b.stmts):
                    self.fail(b.line, "`let` in a branch that may fall through next to a branch that continues")
                extra = [Node('Expr', b.tail.line, expr=b.tail)] if b.tail is not None else []
                return self.seq(b.stmts + extra + rest, tail, benv, want)
            return fmt(cbranch(e.then, env_then), cbranch(e.els, env))
        fin = (not value_mode) and isinstance(want[1], FinalVars)
        if s.k == 'Raw':
            nm_, t_ = s.fn(env)
            return "let %s :=\n  %s in\n" % (env[nm_].coq, ind(t_)) + go_rest()
        if (s.k == 'Let' and s.init.k == 'Method' and s.init.name == 'expect' and len(s.init.args) == 1
                and not self.getmut_idiom(s.init, env)):
            # let x = E.expect(".."): None (the panic) if E is None
            if not fin or s.pat.k != 'PBind':
                self.fail(s.line, "`expect` here")
            t_, ty_ = self.expr(s.init.recv, env, None)
            if not ty_.startswith('Option<'):
                self.fail(s.line, "`expect` on a value of type `%s`" % ty_)
            env[s.pat.name] = Var(ty_[7:-1], s.pat.name + "'", 'val')
            return "match %s with\n| Some %s' =>\n    %s\n| None =>\n    None\nend" % (t_, s.pat.name, ind(go_rest(), 4))
        if (s.k == 'Let' and s.pat.k == 'PTuple' and s.init.k == 'Method' and s.init.name == 'swap_remove'
                and len(s.init.args) == 1):
            # let (a, b) = v.swap_remove(i): the removed element (None = the panic when i is out of bounds)
            if not fin:
                self.fail(s.line, "`swap_remove` with a result here")
            root, cur, vty, rb = self.place(s.init.recv, env, s.line)[:4]
            it, ity = self.expr(s.init.args[0], env, 'usize')
            comps = split_tuple_type(vty[4:-1]) if vty.startswith('Vec<') else None
            if comps is None or len(comps) != len(s.pat.items) or ity != 'usize' or any(
                    q.k not in ('PBind', 'PWild') for q in s.pat.items):
                self.fail(s.line, "`let (..) = v.swap_remove(i)` on `%s`" % vty)
            xs = []
            for (q, qt) in zip(s.pat.items, comps):
                if q.k == 'PBind':
                    env[q.name] = Var(qt, q.name + "'", 'val')
                    xs.append(q.name + "'")
                else:
                    xs.append('_')
            new_ = rb("Reg.swap_remove %s %s" % (par(it), par(cur)))
            return ("match nth_error %s %s with\n| Some (%s) =>\n    let %s :=\n      %s in\n    %s\n| None =>\n    None\nend"
                    % (par(cur), par(it), ', '.join(xs), env[root].coq, ind(new_, 6), ind(go_rest(), 4)))
        if (s.k == 'Let' and s.pat.k == 'PBind' and s.init.k == 'Match' and s.init.scrut.k == 'Ref' and s.init.scrut.mut
                and s.init.scrut.expr.k == 'Index'):
            if not fin:
                self.fail(s.line, "`let x = match &mut v[i]` here")
            return self.lens_let(s, rest, tail, env, want)
        if s.k == 'Let' and s.pat.k == 'PBind' and s.init.k == 'Try':
            # let x = e?;  in a function returning an Option
            if not (value_mode and want[2] and self.ret and self.ret.startswith('Option<') and not self.pair):
                self.fail(s.line, "`?` here")
            t_, ty_ = self.expr(s.init.expr, env, None)
            if not ty_.startswith('Option<'):
                self.fail(s.line, "`?` on a value of type `%s`" % ty_)
            env[s.pat.name] = Var(ty_[7:-1], s.pat.name + "'", 'val')
            r_ = go_rest()
            if r_[1] != self.ret:
                self.fail(s.line, "body of type `%s` after `?`" % r_[1])
            return ("match %s with\n| Some %s' =>\n    %s\n| None =>\n    None\nend" % (t_, s.pat.name, ind(r_[0], 4)), r_[1])
        if s.k == 'Let' and s.pat.k == 'PBind' and self.getmut_idiom(s.init, env):
            # let x = actions.get_mut(&self.key).expect(..): x is the stored entry, returned updated
            key_t, key_ty = self.expr(self.strip_ref(s.init.recv.args[0]), env, None)
            env[s.pat.name] = Var('ActionData', s.pat.name + "'", 'mut')
            self.alias_key = (s.pat.name, key_t)
            if value_mode or s.pat.name in want[1]:
                self.fail(s.line, "`get_mut` alias here")
            want[1].append(s.pat.name)
            self.out_types[s.pat.name] = self.coq_type('ActionData', s.line)
            return "let %s' :=\n  entry' in\n" % s.pat.name + go_rest()
        if s.k == 'For' and s.iter.k == 'Ref' and s.iter.mut and s.pat.k == 'PBind':
            head = self.for_mut(s, env, want)
            return prefix(head, go_rest())
        if (s.k == 'For' and s.iter.k == 'Path' and len(s.iter.segs) == 1 and s.iter.segs[0] in env
                and getattr(env[s.iter.segs[0]], 'byref', False) and s.pat.k in ('PBind', 'PTuple')):
            head = self.for_mut(Node('For', s.line, pat=s.pat, iter=Node('Ref', s.line, mut=True, expr=s.iter),
                                     body=s.body), env, want)
            return prefix(head, go_rest())
        if s.k == 'For' and s.pat.k == 'PBind' and not contains_continue(s.body) and not (
                s.iter.k == 'Method' and s.iter.name == 'zip'):
            head = self.for_fold(s, env)
            if head is not None:
                return prefix(head, go_rest())
        if s.k == 'Expr' and s.expr.k == 'Macro':
            if s.expr.name not in SKIPPED_MACROS:
                self.fail(s.line, "macro `%s!`" % s.expr.name)
            return go_rest()
        if s.k == 'Let':
            if s.pat.k != 'PBind':
                self.fail(s.line, "`let` with a pattern")
            if not value_mode and s.pat.name in want[1]:
                self.fail(s.line, "`let` shadows the mutated variable `%s`" % s.pat.name)
            exp = self.resolve_type(s.ty, s.line) if s.ty else None
            try:
                text, ty = self.expr(s.init, env, exp)
            except NeedExpected as e:
                self.fail(e.line, "cannot infer the target type of `.into()`")
            env[s.pat.name] = Var(ty, s.pat.name + "'", 'mut' if s.pat.mut else 'val')
            return prefix("let %s' :=\n  %s in\n" % (s.pat.name, ind(text)), go_rest())
        if s.k == 'Assign':
            name, newval = self.assign(s, env)
            return prefix("let %s :=\n  %s in\n" % (env[name].coq, ind(newval)), go_rest())
        if (s.k == 'For' and value_mode and want[2] and s.pat.k == 'PBind' and not s.body.stmts
                and s.body.tail is not None and s.body.tail.k == 'If' and s.body.tail.els is None
                and always_returns_block(s.body.tail.then) and not assigned_vars(s.body, [])):
            # for x in ITER { if C { return E; } }  ==  first x with C returns E, otherwise go on
            it, ity = self.expr(s.iter, env, None)
            if not ity.startswith('Iter<'):
                self.fail(s.line, "`for` over a value of type `%s`" % ity)
            env2 = dict(env)
            x = s.pat.name + "'"
            env2[s.pat.name] = Var(ity[5:-1], x, 'val')
            c, cty = self.expr(s.body.tail.cond, env2, 'bool')
            if cty != 'bool':
                self.fail(s.line, "condition of type `%s`" % cty)
            t1, ty1 = self.seq(s.body.tail.then.stmts, s.body.tail.then.tail, env2, want)
            t2, ty2 = go_rest()
            if ty1 != ty2:
                self.fail(s.line, "branches of types `%s` and `%s`" % (ty1, ty2))
            return ("match find (fun %s => %s) %s with\n| Some %s =>\n    %s\n| None =>\n    %s\nend"
                    % (x, c, par(it), x, ind(t1, 4), ind(t2, 4)), ty1)
        if s.k == 'For':
            name, newval = self.for_zip(s, env)
            return prefix("let %s :=\n  %s in\n" % (env[name].coq, ind(newval)), go_rest())
        if s.k == 'Expr' and s.expr.k == 'Return':
            if not value_mode or not want[2]:
                self.fail(s.line, "`return` here")
            if s.expr.expr is None:
                self.fail(s.line, "`return` without a value")
            if rest or tail is not None:
                self.fail(s.line, "code after `return`")
            return self.tail_expr(s.expr.expr, env, self.ret, True)
        if s.k == 'Expr' and s.expr.k in ('If', 'IfLet') and contains_return(s.expr):
            e = s.expr
            if not value_mode or not want[2]:
                self.fail(s.line, "`return` inside `if` here")
            fmt, env_then = self.cond_parts(e, env)

            def branch(b, benv):
                if b is None:
                    return go_rest()
                if b.k in ('If', 'IfLet'):
                    return self.seq([Node('Expr', b.line, expr=b)] + rest, tail, benv, want)
                if always_returns_block(b):
                    return self.seq(b.stmts, b.tail, benv, want)
                if any(x.k == 'Let' for x in b.stmts):
                    self.fail(b.line, "`let` in a branch that may fall through next to a branch that returns")
                if benv is not env and (rest or tail is not None):
                    for nm in benv:
                        if nm in env and benv[nm] is not env[nm]:
                            self.fail(b.line, "`if let` binding `%s` shadows a variable in a branch that may fall through" % nm)
                extra = [Node('Expr', b.tail.line, expr=b.tail)] if b.tail is not None else []
                return self.seq(b.stmts + extra + rest, tail, benv, want)
            t1, ty1 = branch(e.then, env_then)
            t2, ty2 = branch(e.els, env)
            if ty1 != ty2:
                self.fail(e.line, "branches of types `%s` and `%s`" % (ty1, ty2))
            return (fmt(t1, t2), ty1)
        if (s.k == 'Expr' and s.expr.k == 'Match' and s.expr.scrut.k == 'Path' and len(s.expr.scrut.segs) == 1
                and s.expr.scrut.segs[0] in env and env[s.expr.scrut.segs[0]].kind == 'refmut'
                and env[s.expr.scrut.segs[0]].ty in ENUM_MAP and all(a.pat.k == 'PStruct' for a in s.expr.arms)):
            e = s.expr
            v0 = e.scrut.segs[0]
            names = [v0]
            for (nm, ln) in assigned_vars(e, []):
                if nm in env and nm not in names:
                    names.append(nm)
            rhs = self.lens_var_match(e, env, names)
            r = go_rest()
            if value_mode:
                return (self.bind_vars(names, env, rhs, r[0]), r[1])
            return self.bind_vars(names, env, rhs, r)
        if (s.k == 'Expr' and s.expr.k == 'Match' and s.expr.scrut.k == 'Ref' and s.expr.scrut.mut
                and s.expr.scrut.expr.k == 'Index'):
            name, newval = self.lens_match(s.expr, env)
            return prefix("let %s :=\n  %s in\n" % (env[name].coq, ind(newval)), go_rest())
        if s.k == 'Expr' and s.expr.k == 'Method':
            res = self.method_stmt(s.expr, env)
            if res[0] == 'multi':
                return prefix("let '(%s) :=\n  %s in\n" % (', '.join(env[n_].coq for n_ in res[1]), ind(res[2])), go_rest())
            if len(res) == 3:
                return prefix("let '(%s, %s) :=\n  %s in\n" % (env[res[0]].coq, env[res[2]].coq, ind(res[1])), go_rest())
            name, newval = res
            return prefix("let %s :=\n  %s in\n" % (env[name].coq, ind(newval)), go_rest())
        if s.k == 'Expr' and s.expr.k in ('If', 'IfLet', 'Match', 'Block'):
            e = s.expr
            if contains_return(e) or contains_continue(e):
                self.fail(s.line, "`return` / `continue` inside `%s` statement" % e.k.lower())
            acc = assigned_vars(e, [])
            for (nm, ln) in acc:
                if nm is None:
                    self.fail(ln, "unsupported assignment target")
            names = []
            for (nm, ln) in acc:
                if nm in env and nm not in names:
                    names.append(nm)
            if not names:
                self.fail(s.line, "`%s` statement without effect on local state" % e.k.lower())
            rhs = self.stmt_expr(e, env, names)
            r = go_rest()
            if value_mode:
                return (self.bind_vars(names, env, rhs, r[0]), r[1])
            return self.bind_vars(names, env, rhs, r)
        if s.k == 'Expr':
            self.fail(s.line, "expression statement `%s`" % s.expr.k)
        self.fail(s.line, "statement `%s`" % s.k)

    def stmt_expr(self, e, env, names):
        """an if / match / block STATEMENT as an expression yielding the variables `names`"""
        want = ('vars', names)
        if e.k == 'Block':
            return self.block_as(e, env, want)
        if e.k in ('If', 'IfLet'):
            fmt, env_then = self.cond_parts(e, env)
            t1 = self.block_as(e.then, env_then, want)
            t2 = self.block_as(e.els, env, want) if e.els is not None else self.vars_text(names, env)
            return fmt(t1, t2)
        if e.k == 'Match':
            return self.match(e, env, None, False, want)[0]
        self.fail(e.line, "statement `%s`" % e.k)

    def place(self, e, env, line):
        """assignable place  x | *x | place.f  ->  (root variable, text of current value, type, rebuild)
           where rebuild(text of new value) = text of the new value of the root variable"""
        while e.k == 'Paren':
            e = e.expr
        if e.k == 'TupleIndex' and e.index == '0':
            root, cur, ty, rb = self.place(e.recv, env, line)[:4]
            if ty not in getattr(self.w, 'newtypes', {}):
                self.fail(line, "tuple field of `%s`" % ty)
            return root, cur, self.w.newtypes[ty], rb
        if e.k == 'Field':
            root, cur, ty, rb = self.place(e.recv, env, line)[:4]
            if (ty, e.name) in GLAM_SETTERS:
                if env[root].kind not in ('mut', 'refmut'):
                    self.fail(line, "assignment to a component of immutable `%s`" % root)
                return (root, "%s %s" % (GLAM_FIELDS[(ty, e.name)][0], par(cur)), 'f32',
                        lambda t, rb=rb, cur=cur, st=GLAM_SETTERS[(ty, e.name)]: rb("%s %s %s" % (st, par(cur), par(t))))
            m = self.meta(ty, line)
            decl = dict(self.w.structs[ty])
            if e.name not in decl:
                self.fail(line, "unknown field `%s` of `%s`" % (e.name, ty))
            if env[root].kind not in ('mut', 'refmut'):
                self.fail(line, "assignment to a field of immutable `%s`" % root)
            return (root, "%s %s" % (m['proj'][e.name], par(cur)), decl[e.name],
                    lambda t, rb=rb, cur=cur, st=m['setter'][e.name]: rb("%s %s %s" % (st, par(cur), par(t))))
        deref = False
        if e.k == 'Unary' and e.op == '*':
            deref = True
            e = e.expr
        if e.k != 'Path' or len(e.segs) != 1 or e.segs[0] not in env or env[e.segs[0]].coq is None:
            self.fail(line, "unsupported assignment target")
        root = e.segs[0]
        v = env[root]
        if deref and v.kind != 'refmut':
            self.fail(line, "`*%s` where `%s` is not a `&mut`" % (root, root))
        return root, v.coq, v.ty, (lambda t: t), deref

    def assign(self, s, env):
        """returns (rust variable, text of its new value)"""
        pl = self.place(s.lhs, env, s.line)
        root, cur, cty, rb = pl[0], pl[1], pl[2], pl[3]
        if len(pl) == 5:                      # plain variable
            v = env[root]
            if not pl[4] and v.kind != 'mut':
                self.fail(s.line, "assignment to `%s`, which is not a `mut` local" % root)
        try:
            rhs, rty = self.expr(s.rhs, env, cty)
        except NeedExpected as e:
            self.fail(e.line, "cannot infer the target type of `.into()`")
        if s.op == '=':
            if rty != cty:
                self.fail(s.line, "assignment of `%s` to `%s`" % (rty, cty))
            new = rhs
        else:
            key = (s.op[:-1], cty, rty)
            if key not in BINOP or BINOP[key][1] != cty:
                self.fail(s.line, "operator `%s` on `%s` and `%s`" % (s.op, cty, rty))
            new = BINOP[key][0].format(a=par(cur), b=par(rhs))
        return root, rb(new)

    def lens_match(self, e, env):
        """match &mut VEC[i] { Variant { f, g, .. } => { ..mutate f, g.. } .. }: the element is rebuilt from the
           (possibly updated) fields and written back at index i"""
        ix = e.scrut.expr
        root, cur, vty, rb = self.place(ix.recv, env, e.line)[:4]
        if not vty.startswith('Vec<') or vty[4:-1] not in ENUM_MAP:
            self.fail(e.line, "`match &mut` on an element of `%s`" % vty)
        ety = vty[4:-1]
        it, ity = self.expr(ix.index, env, 'usize')
        if ity != 'usize':
            self.fail(e.line, "index of type `%s`" % ity)
        if env[root].kind not in ('mut', 'refmut'):
            self.fail(e.line, "`&mut` of immutable `%s`" % root)
        decl = dict((v, (kd, pl)) for (v, kd, pl) in self.enum_of(ety, e.line))
        out = ["match nth_error %s %s with" % (par(cur), par(it))]
        for a in e.arms:
            p = a.pat
            if p.k != 'PStruct' or self.resolve_type(p.path[-2], p.line) != ety or p.path[-1] not in decl:
                self.fail(a.line, "arm of a `match &mut`: expected a struct-variant pattern of `%s`" % ety)
            kd, payload = decl[p.path[-1]]
            given = dict(p.fields)
            if kd != 'struct' or any(f not in dict(payload) for f in given) or any(fp.k != 'PBind' for fp in given.values()):
                self.fail(a.line, "unsupported pattern in `match &mut`")
            env2 = dict(env)
            names, fields = [], []
            for (f, fty) in payload:
                if fty in FLAT:
                    self.fail(a.line, "vector payload in `match &mut`")
                if f in given:
                    v = given[f].name
                    env2[v] = Var(fty, v + "'", 'mut')
                    names.append(v)
                    fields.append(v + "'")
                else:
                    fields.append("%s0'" % f)
            if a.body.k != 'Block':
                self.fail(a.line, "arm of a `match &mut` must be a block")
            for (nm, ln) in assigned_vars(a.body, []):
                if nm not in names and nm in env:
                    self.fail(ln, "arm of a `match &mut` assigns the outer variable `%s`" % nm)
            if contains_return(a.body) or contains_continue(a.body):
                self.fail(a.line, "`return` / `continue` in an arm of a `match &mut`")
            body = self.seq(a.body.stmts, a.body.tail, env2, ('vars', names)) if names else None
            cname = ENUM_MAP[ety][p.path[-1]][0]
            ctor = ' '.join([cname] + fields)
            if names:
                pat = env2[names[0]].coq if len(names) == 1 else "'(" + ', '.join(env2[n].coq for n in names) + ')'
                new = "let %s :=\n  %s in\n%s" % (pat, ind(body), ctor)
            else:
                new = ctor
            out.append("| Some (%s) =>\n    Reg.set_at %s\n      (%s)\n      %s" % (ctor, par(it), ind(new, 7), par(cur)))
        out.append("| None =>\n    %s\nend" % cur)
        return root, rb('\n'.join(out))

    def lens_var_match(self, e, env, names):
        """match x { Variant { f, .. } => { stmts } .. } on a `&mut` variable x: the fields are mutable locals, x is
           rebuilt from them at the end of the arm; the arm may also assign outer variables (names)"""
        v0 = e.scrut.segs[0]
        ety = env[v0].ty
        decl = dict((v, (kd, pl)) for (v, kd, pl) in self.enum_of(ety, e.line))
        out = ["match %s with" % env[v0].coq]
        for a in e.arms:
            p = a.pat
            if self.resolve_type(p.path[-2], p.line) != ety or p.path[-1] not in decl:
                self.fail(a.line, "pattern does not name a variant of `%s`" % ety)
            kd, payload = decl[p.path[-1]]
            given = dict(p.fields)
            if kd != 'struct' or any(f not in dict(payload) for f in given) or any(fp.k != 'PBind' for fp in given.values()):
                self.fail(a.line, "unsupported pattern in a match on a `&mut` value")
            if a.body.k != 'Block' or contains_return(a.body) or contains_continue(a.body):
                self.fail(a.line, "arm of a match on a `&mut` value must be a plain block")
            env2 = dict(env)
            fields = []
            for (f, fty) in payload:
                if f in given:
                    v = given[f].name
                    env2[v] = Var(fty, v + "'", 'mut')
                    env2[v].byref = True
                    fields.append((v, None))
                else:
                    fields.append((None, "%s0'" % f))
            cname = ENUM_MAP[ety][p.path[-1]][0]
            pat = ' '.join([cname] + [(env2[v].coq if v else t) for (v, t) in fields])

            def wb(env_, fields=fields, cname=cname):
                return v0, ' '.join([cname] + [(env_[v].coq if v else t) for (v, t) in fields])
            extra = [Node('Expr', a.body.tail.line, expr=a.body.tail)] if a.body.tail is not None else []
            body = self.seq(a.body.stmts + extra + [Node('Raw', a.line, fn=wb)], None, env2, ('vars', names))
            out.append("| %s =>\n    %s" % (pat, ind(body, 4)))
        out.append("end")
        return '\n'.join(out)

    def lens_let(self, s, rest, tail, env, want):
        """let x = match &mut VEC[i] { Variant { f, .. } => { stmts; value } .. };  rest
           each arm is continued by: x := value; write the rebuilt element back; rest.  Out of bounds = None."""
        e = s.init
        ix = e.scrut.expr
        root, cur, vty, rb = self.place(ix.recv, env, e.line)[:4]
        if not vty.startswith('Vec<') or vty[4:-1] not in ENUM_MAP:
            self.fail(e.line, "`match &mut` on an element of `%s`" % vty)
        ety = vty[4:-1]
        it, ity = self.expr(ix.index, env, 'usize')
        if ity != 'usize' or env[root].kind not in ('mut', 'refmut'):
            self.fail(e.line, "unsupported `match &mut`")
        decl = dict((v, (kd, pl)) for (v, kd, pl) in self.enum_of(ety, e.line))
        out = ["match nth_error %s %s with" % (par(cur), par(it))]
        for a in e.arms:
            p = a.pat
            if p.k != 'PStruct' or self.resolve_type(p.path[-2], p.line) != ety or p.path[-1] not in decl:
                self.fail(a.line, "arm of a `match &mut`: expected a struct-variant pattern of `%s`" % ety)
            kd, payload = decl[p.path[-1]]
            given = dict(p.fields)
            if kd != 'struct' or any(f not in dict(payload) for f in given) or any(fp.k != 'PBind' for fp in given.values()):
                self.fail(a.line, "unsupported pattern in `match &mut`")
            if a.body.k != 'Block' or a.body.tail is None:
                self.fail(a.line, "arm of a `let x = match &mut` must be a block with a value")
            env2 = dict(env)
            fields = []
            for (f, fty) in payload:
                if f in given:
                    v = given[f].name
                    env2[v] = Var(fty, v + "'", 'mut')
                    fields.append((v, None))
                else:
                    fields.append((None, "%s0'" % f))
            cname = ENUM_MAP[ety][p.path[-1]][0]
            pat = ' '.join([cname] + [(env2[v].coq if v else t) for (v, t) in fields])

            def wb(env_, fields=fields, cname=cname):
                ctor = ' '.join([cname] + [(env_[v].coq if v else t) for (v, t) in fields])
                return root, rb("Reg.set_at %s (%s) %s" % (par(it), ctor, par(cur)))
            stmts = (a.body.stmts + [Node('Let', a.line, pat=s.pat, ty=s.ty, init=a.body.tail),
                                     Node('Raw', a.line, fn=wb)] + rest)
            out.append("| Some (%s) =>\n    %s" % (pat, ind(self.seq(stmts, tail, env2, want), 4)))
        out.append("| None =>\n    None\nend")
        return '\n'.join(out)

    def getmut_idiom(self, e, env):
        return (e.k == 'Method' and e.name == 'expect' and e.recv.k == 'Method' and e.recv.name == 'get_mut'
                and len(e.recv.args) == 1 and e.recv.recv.k == 'Path' and len(e.recv.recv.segs) == 1
                and e.recv.recv.segs[0] in env and env[e.recv.recv.segs[0]].kind == 'actions')

    def for_mut(self, s, env, want):
        """for x in &mut PLACE { BODY }: BODY becomes a separate step function over (outer state, element)"""
        root, cur, ty, rb = self.place(s.iter.expr, env, s.line)[:4]
        if not ty.startswith('Vec<'):
            self.fail(s.line, "`for` over `&mut` of type `%s`" % ty)
        elem = ty[4:-1]
        env2 = dict(env)
        destr = ''
        if s.pat.k == 'PTuple':
            comps = split_tuple_type(elem)
            if comps is None or len(comps) != len(s.pat.items) or any(q.k != 'PBind' for q in s.pat.items):
                self.fail(s.line, "tuple pattern of a `for` loop does not fit `%s`" % elem)
            x = 'item#'
            for (q, qt) in zip(s.pat.items, comps):
                env2[q.name] = Var(qt, q.name + "'", 'refmut')
                env.pop(q.name, None) if False else None
            tup = '(' + ', '.join(q.name + "'" for q in s.pat.items) + ')'
            env2[x] = Var(elem, tup, 'val')
            destr = "let '%s := item' in\n  " % tup
            locals_ = [q.name for q in s.pat.items]
        else:
            x = s.pat.name
            env2[x] = Var(elem, x + "'", 'refmut')
            locals_ = [x]
        state = []
        for (nm, ln) in assigned_vars(s.body, []):
            if nm is None:
                self.fail(ln, "unsupported assignment target")
            if nm in env and nm not in locals_ and nm not in state:
                state.append(nm)
        if contains_return(s.body):
            self.fail(s.line, "`return` inside a loop")
        names = LoopVars(state + [x])
        saved = self.time_used
        self.time_used = []
        body = self.seq(s.body.stmts, s.body.tail, env2, ('vars', names, True))
        used = self.time_used
        self.time_used = saved + [m for m in used if m not in saved]
        tb = [(c, 'Q') for (m, c) in TIME_METHODS if m in used]
        params = [(v.coq, self.coq_type(v.ty, s.line)) for (n, v) in env.items() if v.coq is not None and n not in state]
        sty = [self.coq_type(env[n].ty, s.line) for n in state]
        sT = sty[0] if len(sty) == 1 else '(' + ' * '.join(sty) + ')'
        sP = env[state[0]].coq if len(state) == 1 else "'(" + ', '.join(env[n].coq for n in state) + ')'
        eT = self.coq_type(elem, s.line)
        self.step_count = getattr(self, 'step_count', 0) + 1
        step = self.step_name if self.step_count == 1 else self.step_name[:-4] + '%d_src' % self.step_count
        xb = "item'" if s.pat.k == 'PTuple' else x + "'"
        xdoc = 'item' if s.pat.k == 'PTuple' else x
        binders = ' '.join("(%s : %s)" % p for p in tb + params)
        self.out.defs.append("(* body of the loop `for %s in &mut ..` of %s::%s, %s:%d, as a step over the outer state\n"
                             "   (%s) and the element; `continue` ends the step *)\n"
                             "Definition %s %s (st' : %s) (%s : %s) : (%s * %s) :=\n  let %s := st' in\n  %s%s.\n"
                             % (xdoc, self.self_type, self.fn.name, self.sf.rel, s.line, ', '.join(state), step, binders,
                                sT, xb, eT, sT, eT, sP, destr, ind(body)))
        call = ' '.join([step] + [p[0] for p in tb + params])
        st0 = env[state[0]].coq if len(state) == 1 else '(' + ', '.join(env[n].coq for n in state) + ')'
        pat = "'(%s, items')" % (st0)
        head = "let %s :=\n  for_mut (%s) %s %s in\n" % (pat, call, st0, par(cur))
        head += "let %s :=\n  %s in\n" % (env[root].coq, ind(rb("items'")))
        return head

    def for_fold(self, s, env):
        """for x in COLL { BODY } mutating ONE outer variable: fold_left"""
        it = self.strip_ref(s.iter)
        t, ty = self.expr(it, env, None)
        if not ty.startswith('Vec<'):
            return None
        state = []
        for (nm, ln) in assigned_vars(s.body, []):
            if nm in env and nm not in state:
                state.append(nm)
        if len(state) != 1 or contains_return(s.body):
            self.fail(s.line, "`for` loop mutating %d outer variables" % len(state))
        x = s.pat.name
        env2 = dict(env)
        env2[x] = Var(ty[4:-1], x + "'", 'val')
        body = self.seq(s.body.stmts, s.body.tail, env2, ('vars', [state[0]]))
        v = env[state[0]].coq
        return "let %s :=\n  fold_left (fun %s %s' =>\n    %s) %s %s in\n" % (v, v, x, ind(body, 4), par(t), v)

    def method_stmt(self, e, env):
        """statement  place.m(args);  where m is a translated `&mut self` method returning ()"""
        pl = self.place(e.recv, env, e.line)
        root, cur, ty, rb = pl[0], pl[1], pl[2], pl[3]
        key = (ty, e.name)
        ctor = ty.split('<')[0]
        if key in OPAQUE_PAIR_STMTS:
            fn, idx = OPAQUE_PAIR_STMTS[key]
            if len(e.args) <= idx or e.args[idx].k != 'Ref' or not e.args[idx].mut:
                self.fail(e.line, "unexpected arguments of `%s`" % e.name)
            for a in e.args[:idx]:
                a = self.strip_ref(a)
                if not (a.k == 'Path' and len(a.segs) == 1 and a.segs[0] in env and env[a.segs[0]].kind in ('actions', 'time')):
                    self.fail(a.line, "unexpected argument of `%s`" % e.name)
            r2, cur2, ty2, rb2 = self.place(e.args[idx].expr, env, e.line)[:4]
            if root == r2:
                self.fail(e.line, "`%s` on overlapping places" % e.name)
            self.pending = (r2, rb2("p2'"))
            return root, "let '(p1', p2') := %s %s %s in\n(%s, %s)" % (fn, par(cur), par(cur2), rb("p1'"), rb2("p2'")), r2
        if key in OPAQUE_MULTI_STMTS:
            fn, nt = OPAQUE_MULTI_STMTS[key]
            places = [self.place(a, env, e.line)[:4] for a in e.args[:nt]]
            rest_ = [par(self.expr(a, env, None)[0]) for a in e.args[nt:]
                     if not (a.k == 'Path' and len(a.segs) == 1 and a.segs[0] in env and env[a.segs[0]].kind == 'time')]
            roots = [root] + [p_[0] for p_ in places]
            if len(set(roots)) != len(roots):
                self.fail(e.line, "`%s` on overlapping places" % e.name)
            call = ' '.join([fn, par(cur)] + [par(p_[1]) for p_ in places] + rest_)
            outs = [rb("q0'")] + [p_[3]("q%d'" % (i + 1)) for i, p_ in enumerate(places)]
            pat = "'(" + ', '.join("q%d'" % i for i in range(len(roots))) + ')'
            return ('multi', roots, "let %s := %s in\n(%s)" % (pat, call, ', '.join(outs)))
        if key in EFFECT_STMTS:
            if not e.args:
                self.fail(e.line, "unexpected arguments of `%s`" % e.name)
            tr_, tcur, tty, trb = self.place(e.args[0], env, e.line)[:4]
            rest_ = [par(self.expr(a, env, None)[0]) for a in e.args[1:]
                     if not (a.k == 'Path' and len(a.segs) == 1 and a.segs[0] in env and env[a.segs[0]].kind == 'time')]
            return tr_, trb(' '.join([EFFECT_STMTS[key], par(cur), par(tcur)] + rest_))
        if (ctor, e.name) in BEVY_MUT_METHODS:
            aty, tmpl = BEVY_MUT_METHODS[(ctor, e.name)]
            if env[root].kind not in ('mut', 'refmut'):
                self.fail(e.line, "mutating call on immutable `%s`" % root)
            args = {}
            if aty is None:
                if e.args:
                    self.fail(e.line, "wrong number of arguments for `%s`" % e.name)
            elif aty == 'usize':
                if len(e.args) != 1:
                    self.fail(e.line, "wrong number of arguments for `%s`" % e.name)
                t0, ty0 = self.expr(e.args[0], env, 'usize')
                if ty0 != 'usize':
                    self.fail(e.line, "argument of type `%s`" % ty0)
                args = {'a0': par(t0)}
            elif aty == 'usize+elem':
                if len(e.args) != 2:
                    self.fail(e.line, "wrong number of arguments for `%s`" % e.name)
                t0, ty0 = self.expr(e.args[0], env, 'usize')
                t1, ty1 = self.expr(e.args[1], env, ty[len(ctor) + 1:-1])
                if ty0 != 'usize' or ty1 != ty[len(ctor) + 1:-1]:
                    self.fail(e.line, "arguments of types `%s`, `%s`" % (ty0, ty1))
                args = {'a0': par(t0), 'a1': par(t1)}
            else:
                aty = ty[len(ctor) + 1:-1] if aty == 'elem' else aty
                if len(e.args) != 1:
                    self.fail(e.line, "wrong number of arguments for `%s`" % e.name)
                t, t_ty = self.expr(self.strip_ref(e.args[0]), env, aty)
                if t_ty != aty:
                    self.fail(e.line, "argument of type `%s`, expected `%s`" % (t_ty, aty))
                args['a0'] = par(t)
            return root, rb(tmpl.format(cur=par(cur), **args))
        if key not in self.w.fns:
            self.fail(e.line, "statement call of `%s` on `%s`" % (e.name, ty))
        f = self.w.fns[key][0]
        if f.self_kind != 'refmut' or f.ret != '()':
            self.fail(e.line, "statement call of `%s`, which is not a `&mut self` method returning ()" % e.name)
        if env[root].kind not in ('mut', 'refmut'):
            self.fail(e.line, "mutating call on immutable `%s`" % root)
        t, _ = self.user_call(key, cur, e.args, env, e.line, mutating=True)
        return root, rb(t)

    def for_zip(self, s, env):
        """for (p, q) in X.iter_mut().zip(Y) { BODY }   with X : mut [f32;3], Y : [f32;3]"""
        it = s.iter
        ok = (it.k == 'Method' and it.name == 'zip' and len(it.args) == 1 and it.recv.k == 'Method'
              and it.recv.name == 'iter_mut' and not it.recv.args and it.recv.recv.k == 'Path'
              and len(it.recv.recv.segs) == 1 and s.pat.k == 'PTuple' and len(s.pat.items) == 2
              and all(p.k == 'PBind' for p in s.pat.items))
        if not ok:
            self.fail(s.line, "`for` loop (only `for (p, q) in x.iter_mut().zip(y)` over [f32; 3] is supported)")
        xname = it.recv.recv.segs[0]
        if xname not in env or env[xname].ty != '[f32;3]' or env[xname].kind != 'mut':
            self.fail(s.line, "`%s` must be a `let mut` local of type [f32; 3]" % xname)
        ytext, yty = self.expr(it.args[0], env, '[f32;3]')
        if yty != '[f32;3]':
            self.fail(s.line, "zip argument of type `%s`" % yty)
        p, q = s.pat.items
        env2 = dict(env)
        env2[p.name] = Var('f32', p.name + "'", 'refmut')
        env2[q.name] = Var('f32', q.name + "'", 'val')
        for (nm, ln) in assigned_vars(s.body, []):
            if nm != p.name:
                self.fail(ln, "loop body assigns something other than `*%s`" % p.name)
        if contains_return(s.body):
            self.fail(s.line, "`return` inside a loop")
        body = self.seq(s.body.stmts, s.body.tail, env2, ('vars', [p.name]))
        f = "fun %s' %s' : Q =>\n  %s" % (p.name, q.name, ind(body))
        return xname, "Glam.arr3_zip_update\n  (%s)\n  %s %s" % (ind(f, 3), env[xname].coq, par(ytext))

    # ---------------- expressions
    def enum_of(self, name, line):
        if name not in self.w.enums:
            self.fail(line, "unknown enum `%s`" % name)
        return self.w.enums[name][0]

    def ctor(self, ename, vname, args, line):
        """constructor application; args = Gallina texts of the payload"""
        cname, kind, payload = ENUM_MAP[ename][vname]
        if not args:
            return cname
        parts, lets = [], []
        for i, (a, pty) in enumerate(zip(args, [p if kind == 'tuple' else p[1] for p in payload])):
            if pty in FLAT:
                comps = ["c%d%s" % (i, c) for c in FLAT[pty]]
                lets.append("let '(%s) := %s in " % (', '.join(comps), a))
                parts += comps
            else:
                parts.append(par(a))
        return "%s%s %s" % (''.join(lets), cname, ' '.join(parts))

    def pattern(self, p, ty, env):
        """-> (pattern text, [let-lines to prepend to the arm body]); binds into env"""
        if p.k == 'PWild':
            return '_', []
        if p.k == 'PBind':
            env[p.name] = Var(ty, p.name + "'", 'mut' if p.mut else 'val')
            return p.name + "'", []
        if p.k == 'PBool':
            if ty != 'bool':
                self.fail(p.line, "boolean pattern for type `%s`" % ty)
            return ('true' if p.value else 'false'), []
        if p.k in ('PPath', 'PCtor', 'PStruct'):
            if ty not in ENUM_MAP:
                self.fail(p.line, "constructor pattern for type `%s`" % ty)
            segs = p.path
            if len(segs) < 2 or self.resolve_type(segs[-2], p.line) != ty:
                self.fail(p.line, "pattern `%s` does not name a variant of `%s`" % ('::'.join(segs), ty))
            decl = dict((v, (k, pl)) for (v, k, pl) in self.enum_of(ty, p.line))
            if segs[-1] not in decl:
                self.fail(p.line, "unknown variant `%s::%s`" % (ty, segs[-1]))
            kind, payload = decl[segs[-1]]
            cname = ENUM_MAP[ty][segs[-1]][0]
            want_kind = {'PPath': 'unit', 'PCtor': 'tuple', 'PStruct': 'struct'}[p.k]
            if kind != want_kind:
                self.fail(p.line, "pattern shape does not fit variant `%s::%s`" % (ty, segs[-1]))
            if kind == 'unit':
                return cname, []
            if kind == 'tuple':
                subs = list(zip(p.args, payload))
                if len(p.args) != len(payload):
                    self.fail(p.line, "wrong number of sub-patterns")
            else:
                given = dict(p.fields)
                names_ = [f for f, _ in payload]
                if len(given) != len(p.fields) or any(f not in names_ for f in given) or (
                        not getattr(p, 'rest', False) and sorted(given) != sorted(names_)):
                    self.fail(p.line, "struct pattern must list every field exactly once (or end with `..`)")
                subs = [(given.get(f, Node('PWild', p.line)), fty) for (f, fty) in payload]
            texts, lets = [], []
            for (sp, sty) in subs:
                if sty in FLAT:
                    if sp.k == 'PWild':
                        texts += ['_'] * len(FLAT[sty])
                    elif sp.k == 'PBind':
                        comps = ["%s'%s" % (sp.name, c) for c in FLAT[sty]]
                        texts += comps
                        lets.append("let %s' := (%s) in" % (sp.name, ', '.join(comps)))
                        env[sp.name] = Var(sty, sp.name + "'", 'mut' if sp.mut else 'val')
                    else:
                        self.fail(sp.line, "sub-pattern on a vector payload")
                else:
                    t, l = self.pattern(sp, sty, env)
                    texts.append(t if atomic(t) else '(' + t + ')')
                    lets += l
            return "%s %s" % (cname, ' '.join(texts)), lets
        self.fail(p.line, "pattern `%s`" % p.k)

    def match(self, e, env, exp, ret_ok, want=None):
        """match expression (want None) or statement (want = ('vars', names)) -> (text, type)"""
        if e.scrut.k == 'Tuple':
            scruts = [self.expr(x, env, None) for x in e.scrut.items]
        else:
            scruts = [self.expr(e.scrut, env, None)]
        if not e.arms:
            self.fail(e.line, "empty match")
        arms = []
        expanded = []
        for a in e.arms:
            if a.pat.k == 'POr':
                expanded += [Node('Arm', a.line, pat=p, body=a.body) for p in a.pat.alts]
            else:
                expanded.append(a)
        for a in expanded:
            env2 = dict(env)
            if len(scruts) > 1:
                if a.pat.k == 'PWild':
                    pats = [Node('PWild', a.line)] * len(scruts)
                elif a.pat.k == 'PTuple' and len(a.pat.items) == len(scruts):
                    pats = a.pat.items
                else:
                    self.fail(a.line, "pattern does not fit the tuple scrutinee")
            else:
                if a.pat.k == 'PTuple':
                    self.fail(a.line, "tuple pattern")
                pats = [a.pat]
            texts, lets = [], []
            for (p, (_, sty)) in zip(pats, scruts):
                t, l = self.pattern(p, sty, env2)
                texts.append(t)
                lets += l
            arms.append((a, ', '.join(texts), lets, env2))
        results = [None] * len(arms)
        ty = exp
        pending = list(range(len(arms)))
        for rnd in range(2):
            still = []
            for i in pending:
                a, _, _, env2 = arms[i]
                try:
                    if want is not None:
                        if a.body.k == 'Tuple' and not a.body.items:
                            results[i] = (self.vars_text(want[1], env2), None)
                            continue
                        if a.body.k not in ('Block', 'If'):
                            self.fail(a.line, "match-statement arm must be a block")
                        results[i] = (self.block_as(a.body, env2, want), None)
                    else:
                        if a.body.k == 'Block':
                            results[i] = self.seq(a.body.stmts, a.body.tail, dict(env2), ('value', ty, ret_ok))
                        else:
                            results[i] = self.tail_expr(a.body, env2, ty, ret_ok)
                        if ty is None:
                            ty = results[i][1]
                except NeedExpected:
                    if rnd == 1:
                        raise
                    still.append(i)
            pending = still
            if not pending:
                break
            if ty is None:
                raise NeedExpected(e.line)
        out = ["match %s with" % ', '.join(par(t) for (t, _) in scruts)]
        for (a, ptext, lets, _), (btext, bty) in zip(arms, results):
            if want is None and bty != ty:
                self.fail(a.line, "arm of type `%s`, expected `%s`" % (bty, ty))
            body = '\n'.join(lets + [btext])
            out.append("| %s =>\n    %s" % (ptext, ind(body, 4)))
        out.append("end")
        return '\n'.join(out), ty

    def opaque_call(self, e, v):
        table = dict(TRAIT_METHODS.get(v.ty, []))
        if self.opaque is None or e.name not in table:
            self.fail(e.line, "method `%s` on `%s`" % (e.name, v.ty))
        if e.name in self.opaque:
            self.fail(e.line, "second call of `%s` on the loop variable" % e.name)
        args = [expr_source(a) for a in e.args]
        coq = {'kind': "kind'", 'evaluate': "evaluated'"}.get(e.name, e.name + "_result'")
        self.opaque[e.name] = (coq, table[e.name], args, e.line)
        return coq, table[e.name]

    def expr(self, e, env, exp=None, ret_ok=False):
        """-> (Gallina text, Rust type)"""
        k = e.k
        if k == 'Paren':
            return self.expr(e.expr, env, exp)
        if k == 'Float':
            return q_literal(e.text), 'f32'
        if k == 'Bool':
            return ('true' if e.value else 'false'), 'bool'
        if k == 'Int':
            if exp == 'u32':
                digits = e.text.replace('_', '')
                if digits.endswith('u32'):
                    digits = digits[:-3]
                return "%d%%Z" % int(digits, 0), 'u32'
            self.fail(e.line, "integer literal where the type `u32` is not known from the context")
        if k == 'Cast':
            t, ty = self.expr(e.expr, env, None)
            if (ty, e.ty) not in CASTS:
                self.fail(e.line, "cast from `%s` to `%s`" % (ty, e.ty))
            return CASTS[(ty, e.ty)].format(a=par(t)), e.ty
        if k in ('If', 'IfLet', 'Match', 'Block') and not ret_ok:
            for (nm, ln) in assigned_vars(e, []):
                if nm is None or nm in env:
                    self.fail(ln, "assignment inside a block that is used as a value")
        if k == 'Path':
            if len(e.segs) == 1:
                nm = e.segs[0]
                if nm == 'None' and nm not in env:
                    if exp is None or not exp.startswith('Option<'):
                        raise NeedExpected(e.line)
                    self.coq_type(exp, e.line)
                    return "None", exp
                if nm not in env:
                    self.fail(e.line, "unknown variable `%s`" % nm)
                if env[nm].kind in ('opaque', 'time', 'actions'):
                    self.fail(e.line, "use of `%s` other than a method call" % nm)
                return env[nm].coq, env[nm].ty
            tname, name = self.resolve_type(e.segs[-2], e.line), e.segs[-1]
            if tname in self.generics and name in TYPE_PARAM_CONSTS:
                on, ty_ = TYPE_PARAM_CONSTS[name]
                return self.opq(on), ty_
            if (tname, name) in GLAM_CONSTS:
                return GLAM_CONSTS[(tname, name)]
            if tname in ENUM_MAP:
                decl = dict((v, kd) for (v, kd, _) in self.enum_of(tname, e.line))
                if decl.get(name) != 'unit':
                    self.fail(e.line, "`%s::%s` is not a unit variant" % (tname, name))
                return ENUM_MAP[tname][name][0], tname
            if tname in self.w.flags:
                if name not in [c for (c, _, _) in self.w.flags[tname]]:
                    self.fail(e.line, "unknown flag `%s::%s`" % (tname, name))
                return "%s_%s_src" % (tname, name), tname
            self.fail(e.line, "unknown path `%s`" % '::'.join(e.segs))
        if k == 'Call' and e.fn.k == 'Path' and e.fn.segs == ['Reverse'] and len(e.args) == 1:
            t_, ty_ = self.expr(e.args[0], env, 'isize')          # cmp::Reverse: only its ordering matters (table)
            if ty_ != 'isize':
                self.fail(e.line, "Reverse of `%s`" % ty_)
            return t_, 'Reverse<isize>'
        if k == 'Call' and e.fn.k == 'Path' and e.fn.segs == ['Some'] and len(e.args) == 1:
            inner_exp = exp[len('Option<'):-1] if exp and exp.startswith('Option<') else None
            t_, ty_ = self.expr(e.args[0], env, inner_exp)
            return "Some %s" % par(t_), 'Option<%s>' % ty_
        if k == 'Path' and e.segs == ['None'] and 'None' not in env:
            if exp is None or not exp.startswith('Option<'):
                raise NeedExpected(e.line)
            self.coq_type(exp, e.line)
            return "None", exp
        if k == 'Ref' and not e.mut and e.expr.k == 'Array':
            return self.expr(e.expr, env, exp)
        if k == 'Array' and e.items:
            parts = [self.expr(x, env, None) for x in e.items]
            if any(p[1] != parts[0][1] for p in parts):
                self.fail(e.line, "array literal")
            return '[' + '; '.join(p[0] for p in parts) + ']', '[%s]' % parts[0][1]
        if k == 'VecLit':
            parts = [self.expr(x, env, None) for x in e.items]
            if not parts or any(p[1] != parts[0][1] for p in parts):
                self.fail(e.line, "vec! literal")
            return '[' + '; '.join(p[0] for p in parts) + ']', 'Vec<%s>' % parts[0][1]
        if k == 'TupleIndex' and e.index == '0':
            rt, rty = self.expr(e.recv, env, None)
            if rty in getattr(self.w, 'newtypes', {}):
                return rt, self.w.newtypes[rty]
            self.fail(e.line, "tuple field of `%s`" % rty)
        if k == 'Call':
            if e.fn.k != 'Path' or len(e.fn.segs) < 2:
                self.fail(e.line, "call of a non-path expression")
            tname, name = self.resolve_type(e.fn.segs[-2], e.line), e.fn.segs[-1]
            ftargs = getattr(e.fn, 'targs', [])
            if (tname, name) == ('TypeId', 'of') and len(ftargs) == 1 and ftargs[0] in self.generics and not e.args:
                return self.opq('tp1_type_id'), 'TypeId'
            if tname in self.generics and name == 'context_instance' and len(e.args) == 2:
                t_, ty_ = self.expr(e.args[1], env, 'Entity')
                if ty_ != 'Entity':
                    self.fail(e.line, "argument of type `%s`, expected Entity" % ty_)
                return "%s %s" % (self.opq('tp4_ctx'), par(t_)), 'ContextInstance'
            if (tname, name) == ('Reverse', 'Reverse') or (len(e.fn.segs) == 1):
                pass
            if tname in ENUM_MAP and name in dict((v, 1) for (v, _, _) in self.enum_of(tname, e.line)):
                decl = dict((v, (kd, pl)) for (v, kd, pl) in self.enum_of(tname, e.line))
                kd, payload = decl[name]
                if kd != 'tuple' or len(payload) != len(e.args):
                    self.fail(e.line, "wrong use of constructor `%s::%s`" % (tname, name))
                args = []
                for (a, pty) in zip(e.args, payload):
                    t, ty = self.expr(a, env, pty)
                    if ty != pty:
                        self.fail(a.line, "constructor argument of type `%s`, expected `%s`" % (ty, pty))
                    args.append(t)
                return self.ctor(tname, name, args, e.line), tname
            if tname in self.w.flags and name in BITFLAGS_ASSOC and not e.args:
                return (BITFLAGS_ASSOC[name] if tname not in Z_FLAG_TYPES else BITFLAGS_ASSOC[name].replace('%N', '%Z')), tname
            if (tname, name) in self.w.fns:
                return self.user_call((tname, name), None, e.args, env, e.line)
            self.fail(e.line, "call of `%s`" % '::'.join(e.fn.segs))
        if (k == 'Method' and e.name == 'unwrap_or_else' and len(e.args) == 1 and e.recv.k == 'Method'
                and e.recv.name == 'binary_search_by_key'):
            return self.bsearch_idiom(e, env)
        if k == 'Method':
            r = e.recv
            if r.k == 'Path' and len(r.segs) == 1 and r.segs[0] in env and env[r.segs[0]].kind == 'opaque':
                return self.opaque_call(e, env[r.segs[0]])
            if r.k == 'Path' and len(r.segs) == 1 and r.segs[0] in env and env[r.segs[0]].kind == 'time':
                if e.args or e.targs:
                    self.fail(e.line, "arguments in a call on `%s`" % TIME_TYPE)
                return self.time_param(e.name, e.line), 'f32'
            if r.k == 'Path' and len(r.segs) == 1 and r.segs[0] in env and env[r.segs[0]].kind == 'actions':
                if e.name != 'action' or e.args or len(e.targs) != 1 or e.targs[0] not in self.generics:
                    self.fail(e.line, "use of `&ActionsData` other than `.action::<A>()` with A a type parameter")
                self.lookup_used = True
                return "lookup'", LOOKUP_RESULT
            rt, rty = self.expr(r, env, None)
            pass
            if e.targs and not ((rty, e.name) in self.w.fns and all(t in self.generics for t in e.targs)):
                self.fail(e.line, "turbofish method call")
            if (rty, e.name) in OPAQUE_VALUE_METHODS:
                fn, ptys, res = OPAQUE_VALUE_METHODS[(rty, e.name)]
                if len(ptys) != len(e.args):
                    self.fail(e.line, "wrong number of arguments for `%s`" % e.name)
                args = []
                for (a, pty) in zip(e.args, ptys):
                    t, ty = self.expr(a, env, pty)
                    if ty != pty:
                        self.fail(a.line, "argument of type `%s`, expected `%s`" % (ty, pty))
                    args.append(par(t))
                return ' '.join([fn, par(rt)] + args), res
            if (rty, e.name) in self.w.fns:
                return self.user_call((rty, e.name), rt, e.args, env, e.line)
            if (rty, e.name) in GLAM_METHODS:
                ptys, res, fn = GLAM_METHODS[(rty, e.name)]
                if len(ptys) != len(e.args):
                    self.fail(e.line, "wrong number of arguments for `%s`" % e.name)
                args = []
                for (a, pty) in zip(e.args, ptys):
                    t, ty = self.expr(a, env, pty)
                    if ty != pty:
                        self.fail(a.line, "argument of type `%s`, expected `%s`" % (ty, pty))
                    args.append(par(t))
                return ' '.join([fn, par(rt)] + args), res
            if (rty, e.name) in GLAM_OPAQUE_METHODS:
                ptys, res, fn, on = GLAM_OPAQUE_METHODS[(rty, e.name)]
                if e.args:
                    self.fail(e.line, "wrong number of arguments for `%s`" % e.name)
                return ' '.join([fn, self.opq(on), par(rt)]), res
            if e.name == 'into' and not e.args:
                if exp is None and r.k == 'Path' and len(r.segs) == 1 and getattr(env.get(r.segs[0]), 'into_id', False):
                    return rt, rty
                if exp is None:
                    raise NeedExpected(e.line)
                if exp == rty:
                    return rt, rty
                if (rty, exp) in GLAM_INTO:
                    return "%s %s" % (GLAM_INTO[(rty, exp)], par(rt)), exp
                fn = self.w.require_from(rty, exp, self.out, self.sf, e.line)
                return "%s %s" % (fn, par(rt)), exp
            bt = self.bevy_method(e, rt, rty, env, exp)
            if bt is not None:
                return bt
            self.fail(e.line, "method `%s` on `%s`" % (e.name, rty))
        if k == 'Field':
            rt, rty = self.expr(e.recv, env, None)
            if rty in self.w.smeta:
                decl = dict(self.w.structs[rty])
                if e.name not in decl:
                    self.fail(e.line, "unknown field `%s` of `%s`" % (e.name, rty))
                return "%s %s" % (self.meta(rty, e.line)['proj'][e.name], par(rt)), decl[e.name]
            if (rty, e.name) in GLAM_FIELDS:
                fn, res = GLAM_FIELDS[(rty, e.name)]
                return "%s %s" % (fn, par(rt)), res
            if (rty, e.name) in BEVY_FIELDS:
                f_, res = BEVY_FIELDS[(rty, e.name)]
                return f_.format(r=par(rt)), res
            self.fail(e.line, "field `%s` of `%s`" % (e.name, rty))
        if k == 'Unary':
            if e.op == '*':
                x = e.expr
                if x.k == 'Path' and len(x.segs) == 1 and x.segs[0] in env and env[x.segs[0]].kind == 'refmut':
                    return env[x.segs[0]].coq, env[x.segs[0]].ty
                if x.k == 'Path' and len(x.segs) == 1 and x.segs[0] in env and env[x.segs[0]].kind == 'val':
                    return self.expr(x, env, exp)      # `*x` on a reference to Copy data
                if x.k == 'Field' or (x.k == 'Path' and x.segs == ['self']):
                    return self.expr(x, env, exp)      # `*self.field`, `*self`: copy out of a wrapper / reference
                self.fail(e.line, "dereference")
            t, ty = self.expr(e.expr, env, exp)
            if e.op == '!' and ty == 'bool':
                return "negb %s" % par(t), 'bool'
            if e.op == '-' and ty == 'f32':
                return "(- %s)%%Q" % par(t), 'f32'
            self.fail(e.line, "operator `%s` on `%s`" % (e.op, ty))
        if k == 'Binary':
            try:
                if e.lhs.k == 'Int' and e.rhs.k != 'Int':
                    raise NeedExpected(e.line)
                lt, lty = self.expr(e.lhs, env, None)
                try:
                    if e.rhs.k == 'Int':
                        raise NeedExpected(e.line)
                    rt, rty = self.expr(e.rhs, env, None)
                except NeedExpected:
                    rt, rty = self.expr(e.rhs, env, lty)
            except NeedExpected:
                rt, rty = self.expr(e.rhs, env, None)
                lt, lty = self.expr(e.lhs, env, rty)
            key = (e.op, lty, rty)
            if key in BINOP:
                f, res = BINOP[key]
                return f.format(a=par(lt), b=par(rt)), res
            if lty == rty and lty in ENUM_MAP and lty in self.w.enums:
                ders = self.w.enums[lty][1]
                unit = all(kd == 'unit' for (_, kd, _) in self.w.enums[lty][0])
                if lty not in self.w.enum_out:
                    self.fail(e.line, "comparison on `%s`, whose declaration was not translated" % lty)
                hout = self.w.enum_out[lty]
                if hout is not self.out and hout.name not in self.out.imports:
                    self.out.imports.append(hout.name)
                if e.op in ('==', '!=') and 'PartialEq' in ders and unit:
                    t = "%s_eqb_src %s %s" % (lty, par(lt), par(rt))
                    return (t if e.op == '==' else "negb (%s)" % t), 'bool'
                if e.op in ('<', '<=', '>', '>=') and 'PartialOrd' in ders and unit:
                    a, b = "%s_index_src %s" % (lty, par(lt)), "%s_index_src %s" % (lty, par(rt))
                    f = {'<': 'Nat.ltb ({a}) ({b})', '<=': 'Nat.leb ({a}) ({b})', '>': 'Nat.ltb ({b}) ({a})',
                         '>=': 'Nat.leb ({b}) ({a})'}[e.op]
                    return f.format(a=a, b=b), 'bool'
            self.fail(e.line, "operator `%s` on `%s` and `%s`" % (e.op, lty, rty))
        if k in ('If', 'IfLet'):
            fmt, env_then = self.cond_parts(e, env)
            if e.els is None:
                self.fail(e.line, "`if` without `else` used as a value")
            want = ('value', exp, ret_ok)
            try:
                t1, ty1 = self.block_as(e.then, env_then, want)
                t2, ty2 = self.block_as(e.els, env, ('value', exp if exp else ty1, ret_ok))
            except NeedExpected:
                if exp is not None:
                    raise
                t2, ty2 = self.block_as(e.els, env, want)
                t1, ty1 = self.block_as(e.then, env_then, ('value', ty2, ret_ok))
            if ty1 != ty2:
                self.fail(e.line, "branches of types `%s` and `%s`" % (ty1, ty2))
            return fmt(t1, t2), ty1
        if (k == 'Match' and e.scrut.k == 'Ref' and not e.scrut.mut and e.scrut.expr.k == 'Index'
                and exp and exp.startswith('Option<')):
            # match &VEC[i] { .. } in an Option-valued position: out of bounds (a panic) is rendered as None
            ix = e.scrut.expr
            vt, vty = self.expr(ix.recv, env, None)
            it, ity = self.expr(ix.index, env, 'usize')
            if not vty.startswith('Vec<') or ity != 'usize':
                self.fail(e.line, "indexing `%s` by `%s`" % (vty, ity))
            env2 = dict(env)
            env2["elem#"] = Var(vty[4:-1], "elem'", 'val')
            inner = Node('Match', e.line, scrut=Node('Path', e.line, segs=["elem#"]), arms=e.arms)
            t_, ty_ = self.match(inner, env2, exp, ret_ok)
            return ("match nth_error %s %s with\n| Some elem' =>\n    %s\n| None =>\n    None\nend"
                    % (par(vt), par(it), ind(t_, 4)), ty_)
        if k == 'Match':
            return self.match(e, env, exp, ret_ok)
        if k == 'Block':
            return self.seq(e.stmts, e.tail, dict(env), ('value', exp, ret_ok))
        if k == 'StructLit':
            tname = self.resolve_type(e.path[-1], e.line)
            if len(e.path) >= 2 and self.resolve_type(e.path[-2], e.line) in ENUM_MAP:
                ename, vname = self.resolve_type(e.path[-2], e.line), e.path[-1]
                decl = dict((v, (kd, pl)) for (v, kd, pl) in self.enum_of(ename, e.line))
                if vname not in decl or decl[vname][0] != 'struct':
                    self.fail(e.line, "`%s::%s` is not a struct variant" % (ename, vname))
                given = dict(e.fields)
                payload = decl[vname][1]
                if sorted(given) != sorted(f for f, _ in payload) or len(e.fields) != len(payload):
                    self.fail(e.line, "struct variant literal must give every field exactly once")
                args = []
                for (f, fty) in payload:
                    t, ty = self.expr(given[f], env, fty)
                    if ty != fty:
                        self.fail(e.line, "field `%s` of type `%s`, expected `%s`" % (f, ty, fty))
                    args.append(t)
                return self.ctor(ename, vname, args, e.line), ename
            if tname in getattr(self.w, 'generic_structs', {}):
                it = self.w.generic_structs[tname][0]
                decl0 = dict((f, t) for (f, t, _) in self.w.generic_structs[tname][1].parser(it.pos).struct_body())
                arg = None
                for (f, fe) in e.fields:
                    if decl0.get(f) in it.generics:
                        arg = self.expr(fe, env, None)[1]
                if arg is None:
                    self.fail(e.line, "cannot infer the type argument of `%s`" % tname)
                tname = self.w.instantiate(tname, arg, self.sf, e.line)
            if tname not in self.w.smeta or tname not in self.w.structs:
                self.fail(e.line, "struct literal of `%s`" % tname)
            decl = dict(self.w.structs[tname])
            names = [f for (f, _) in e.fields]
            if sorted(names) != sorted(decl):
                self.fail(e.line, "struct literal must give every field exactly once")
            parts = []
            for (f, fe) in e.fields:
                t, ty = self.expr(fe, env, decl[f])
                if ty != decl[f]:
                    self.fail(fe.line, "field `%s` of type `%s`, expected `%s`" % (f, ty, decl[f]))
                parts.append("%s := %s" % (self.meta(tname, e.line)['proj'][f], t))
            return "{| " + ';\n   '.join(parts) + " |}", tname
        if k == 'Return':
            if not ret_ok or e.expr is None:
                self.fail(e.line, "`return` here")
            return self.expr(e.expr, env, self.ret)
        if k == 'Tuple' and len(e.items) in (2, 3):
            parts, tys = [], []
            for x in e.items:
                t, ty = self.expr(x, env, 'f32' if x.k == 'Float' else None)
                parts.append(t)
                tys.append(ty)
            tt = '(' + ','.join(tys) + ')'
            self.coq_type(tt, e.line)
            return '(' + ', '.join(parts) + ')', tt
        names = {'Cast': "`as` cast", 'Ref': "borrow expression", 'Closure': "closure (outside the table methods)", 'Macro': "macro invocation",
                 'Tuple': "tuple expression", 'Array': "array literal", 'Index': "indexing",
                 'TupleIndex': "tuple field", 'Str': "string / char literal"}
        self.fail(e.line, names.get(k, "expression `%s`" % k))

    def strip_ref(self, a):
        while a.k in ('Paren', 'Ref'):
            a = a.expr
        return a

    def closure(self, c, env, pty, exp):
        """closure with one parameter of type pty -> (Gallina fun, result type)"""
        if c.k != 'Closure' or len(c.params) != 1 or c.params[0].k not in ('PBind', 'PWild', 'PTuple'):
            self.fail(c.line, "expected a closure with one simple parameter")
        env2 = dict(env)
        x = '_'
        if c.params[0].k == 'PBind':
            x = c.params[0].name + "'"
            env2[c.params[0].name] = Var(pty, x, 'val')
        if c.params[0].k == 'PTuple':
            comps = split_tuple_type(pty)
            if comps is None or len(comps) != len(c.params[0].items) or any(
                    q.k not in ('PBind', 'PWild') for q in c.params[0].items):
                self.fail(c.line, "tuple pattern of a closure does not fit `%s`" % pty)
            xs = []
            for (q, qt) in zip(c.params[0].items, comps):
                if q.k == 'PBind':
                    env2[q.name] = Var(qt, q.name + "'", 'val')
                    xs.append(q.name + "'")
                else:
                    xs.append('_')
            x = "'(" + ', '.join(xs) + ')'
        for (nm, ln) in assigned_vars(c.body, []):
            self.fail(ln, "assignment inside a closure")
        if contains_return(c.body):
            self.fail(c.line, "`return` inside a closure")
        t, ty = self.expr(c.body, env2, exp)
        return "(fun %s => %s)" % (x, ind(t, 5)), ty

    def bsearch_idiom(self, e, env):
        """VEC.binary_search_by_key(&K, |g| Reverse(KEY)).unwrap_or_else(|x| x)"""
        b = e.recv
        c = e.args[0]
        if not (c.k == 'Closure' and len(c.params) == 1 and c.params[0].k == 'PBind' and c.body.k == 'Path'
                and c.body.segs == [c.params[0].name]):
            self.fail(e.line, "`unwrap_or_else` with a closure other than the identity")
        vt, vty = self.expr(b.recv, env, None)
        if not vty.startswith('Vec<') or len(b.args) != 2:
            self.fail(e.line, "`binary_search_by_key` on `%s`" % vty)
        kt, kty = self.expr(self.strip_ref(b.args[0]), env, None)
        f, fty = self.closure(b.args[1], env, vty[4:-1], None)
        if kty != 'Reverse<isize>' or fty != 'Reverse<isize>':
            self.fail(e.line, "`binary_search_by_key` with keys of type `%s` / `%s` (only Reverse<isize>)" % (kty, fty))
        return "Reg.bsearch_rev_key %s %s %s" % (f, par(kt), par(vt)), 'usize'

    def bevy_method(self, e, rt, rty, env, exp):
        if (rty, e.name) in BEVY_METHODS:
            ptys, res, tmpl = BEVY_METHODS[(rty, e.name)]
            if len(ptys) != len(e.args):
                self.fail(e.line, "wrong number of arguments for `%s`" % e.name)
            args = {}
            for i, (a, pty) in enumerate(zip(e.args, ptys)):
                t, ty = self.expr(self.strip_ref(a), env, pty)
                if ty != pty:
                    self.fail(a.line, "argument of type `%s`, expected `%s`" % (ty, pty))
                args['a%d' % i] = par(t)
            return tmpl.format(r=par(rt), **args), res
        ctor = rty.split('<')[0]
        inner = rty[len(ctor) + 1:-1] if rty.endswith('>') else None
        if (ctor, e.name) in BEVY_IDENTITY_METHODS and not e.args:
            return rt, rty
        if ctor == 'Vec' and e.name == 'iter' and not e.args:
            return rt, 'Iter<%s>' % inner
        if ctor == 'Vec' and e.name == 'is_empty' and not e.args:
            return "Reg.is_empty %s" % par(rt), 'bool'
        if rty == 'bool' and e.name == 'then_some' and len(e.args) == 1:
            inner_exp = exp[len('Option<'):-1] if exp and exp.startswith('Option<') else None
            t_, ty_ = self.expr(e.args[0], env, inner_exp)
            return "if %s then Some %s else None" % (par(rt), par(t_)), 'Option<%s>' % ty_
        if ctor in ('HashSet', 'Vec') and e.name == 'contains' and len(e.args) == 1:
            t, ty = self.expr(self.strip_ref(e.args[0]), env, inner)
            if ty != inner:
                self.fail(e.line, "argument of type `%s`, expected `%s`" % (ty, inner))
            return "existsb (%s %s) %s" % (self.w.eqb_of(inner, self.sf, e.line), par(t), par(rt)), 'bool'
        if (ctor, e.name) in BEVY_CLOSURE_METHODS and len(e.args) == 1 and inner is not None:
            want, resk, tmpl = BEVY_CLOSURE_METHODS[(ctor, e.name)]
            cexp = 'bool' if want == 'bool' else (exp if resk == 'closure' else None)
            f, fty = self.closure(e.args[0], env, inner, cexp)
            if want == 'bool' and fty != 'bool':
                self.fail(e.line, "closure of type `%s`, expected bool" % fty)
            if want == 'option' and not fty.startswith('Option<'):
                self.fail(e.line, "closure of type `%s`, expected an Option" % fty)
            res = {'bool': 'bool', 'same': rty, 'closure': fty, 'optusize': 'Option<usize>'}[resk]
            return tmpl.format(r=par(rt), f=f), res
        return None

    def user_call(self, key, recv_text, args, env, line, mutating=False):
        f, sf, out = self.w.fns[key]
        if getattr(f, 'bad', None) is not None:
            raise f.bad
        if (f.self_kind is not None) != (recv_text is not None):
            self.fail(line, "`%s::%s` called in the wrong style" % key)
        if f.self_kind == 'refmut' and not mutating:
            self.fail(line, "call of the `&mut self` method `%s` inside an expression" % key[1])
        if len(args) != len(f.params):
            self.fail(line, "wrong number of arguments for `%s`" % key[1])
        if key == self.key and key in self.w.busy:
            self.recursive = True               # direct self-recursion: call the parameter of the open functional
            name = "rec'"
            f.time_methods, f.uses_lookup, f.opaque_fns = [], False, []
        else:
            name = self.w.require_fn(key, self.out, self.sf, line)  # callee first: its opaque parameters
        texts = [par(recv_text)] if recv_text is not None else []
        for (a, (pat, pty)) in zip(args, f.params):
            pty, prk = strip_ref(pty)
            pty = key[0] if pty == 'Self' else pty
            if pty.startswith('impl Into<') and pty.endswith('>'):
                pty = pty[len('impl Into<'):-1]
            if pty == TIME_TYPE:
                while a.k in ('Paren', 'Ref'):
                    a = a.expr
                if not (a.k == 'Path' and len(a.segs) == 1 and a.segs[0] in env and env[a.segs[0]].kind == 'time'):
                    self.fail(a.line, "argument for a `&Time<Virtual>` parameter must be such a parameter")
                texts += [self.time_param(m, a.line) for m in f.time_methods]
                continue
            if pty == 'World':
                continue
            if pty == ACTIONS_TYPE:
                if f.uses_lookup:
                    self.fail(a.line, "passing `&ActionsData` to a function that uses it")
                continue
            t, ty = self.expr(a, env, pty)
            if ty != pty:
                self.fail(a.line, "argument of type `%s`, expected `%s`" % (ty, pty))
            texts.append(par(t))
        ret = key[0] if f.ret == 'Self' else f.ret
        return ' '.join([name] + [self.opq(n) for n in getattr(f, 'opaque_fns', [])] + texts), ret


def expr_source(e):
    """source-like rendering of simple argument expressions (for the record of abstracted calls)"""
    if e.k == 'Path':
        return '::'.join(e.segs)
    if e.k == 'Field':
        return expr_source(e.recv) + '.' + e.name
    if e.k == 'Method':
        return expr_source(e.recv) + '.' + e.name + '(' + ', '.join(expr_source(a) for a in e.args) + ')'
    if e.k == 'Ref':
        return ('&mut ' if e.mut else '&') + expr_source(e.expr)
    if e.k == 'Unary':
        return e.op + expr_source(e.expr)
    if e.k == 'Paren':
        return '(' + expr_source(e.expr) + ')'
    if e.k in ('Float', 'Int', 'Str'):
        return e.text
    if e.k == 'Bool':
        return 'true' if e.value else 'false'
    return '<%s>' % e.k

# =====================================================================================
# 5. Driver
# =====================================================================================

def coq_string_list(xs):
    return '[' + '; '.join('"%s"' % x for x in xs) + ']'


def emit_enum_helpers(w, out, name, sf):
    variants, ders = w.enums[name]
    cty = COQ_TYPE[name]
    arms = []
    for i, (v, kind, payload) in enumerate(variants):
        cname = ENUM_MAP[name][v][0]
        n = sum(len(FLAT.get(p if kind == 'tuple' else p[1], [0])) for p in payload)
        arms.append("| %s => %d" % (' '.join([cname] + ['_'] * n), i))
    out.defs.append("(* enum %s, %s: position of each variant in the declaration *)\n"
                    "Definition %s_index_src (x : %s) : nat :=\n  match x with\n  %s\n  end.\n"
                    % (name, sf.rel, name, cty, '\n  '.join(arms)))
    out.defs.append("Definition %s_variants_src : list string := %s.\n"
                    % (name, coq_string_list(v for (v, _, _) in variants)))
    if 'PartialEq' in ders and all(k == 'unit' for (_, k, _) in variants):
        out.defs.append("(* derive(PartialEq) on a field-less enum: same variant *)\n"
                        "Definition %s_eqb_src (a b : %s) : bool := Nat.eqb (%s_index_src a) (%s_index_src b).\n"
                        % (name, cty, name, name))
    elif ('PartialEq' in ders and all(k in ('unit', 'tuple') for (_, k, _) in variants)
          and not any(p in FLAT or w.coq_type_of(p) not in ('Z', 'bool', 'Q') for (_, _, pl) in variants for p in pl)):
        arms = []
        for (v, kind, payload) in variants:
            cname = ENUM_MAP[name][v][0]
            if any(p in FLAT for p in payload):
                raise Unsupported(sf.rel, 0, "derive(PartialEq) on `%s` with vector payloads" % name)
            xs = ['x%d' % i for i in range(len(payload))]
            ys = ['y%d' % i for i in range(len(payload))]
            body = ' && '.join("%s %s %s" % (w.eqb_of(p, sf, 0), x, y) for (p, x, y) in zip(payload, xs, ys)) or 'true'
            arms.append("| %s, %s => (%s)%%bool" % (' '.join([cname] + xs), ' '.join([cname] + ys), body))
        out.defs.append("(* derive(PartialEq) on enum %s: same variant, equal payloads *)\n"
                        "Definition %s_eqb_src (a b : %s) : bool :=\n  match a, b with\n  %s\n  | _, _ => false\n  end.\n"
                        % (name, name, cty, '\n  '.join(arms)))
    w.enum_out[name] = out


def emit_flags(w, out, name, sf):
    consts = w.flags[name]
    sc = 'Z' if name in Z_FLAG_TYPES else 'N'
    for (c, v, line) in consts:
        out.defs.append("(* bitflags %s::%s, %s:%d *)\nDefinition %s_%s_src : %s := %d%%%s.\n"
                        % (name, c, sf.rel, line, name, c, sc, v, sc))
    out.defs.append("Definition %s_flags_src : list %s := [%%s].\n" % ('%s', sc)
                    % (name, '; '.join("%s_%s_src" % (name, c) for (c, _, _) in consts)))
    out.defs.append("Definition %s_flag_names_src : list string := %s.\n"
                    % (name, coq_string_list(c for (c, _, _) in consts)))


def emit_setters(w, out, name, sf):
    m = w.smeta[name]
    cty, proj = m['coq'], m['proj']
    fields = w.structs[name]
    if m['generated']:
        decl = '; '.join("%s : %s" % (proj[f], w.coq_type_of(ty)) for (f, ty) in fields)
        out.defs.append("(* struct %s, %s:%d: record generated from the declaration *)\n"
                        "Record %s : Type := mk_%s { %s }.\n" % (name, sf.rel, m['line'], cty, cty, decl))
        for (f, ty) in fields:
            if ty in w.smeta and w.smeta[ty]['out'] is not out and w.smeta[ty]['out'].name not in out.imports:
                out.imports.append(w.smeta[ty]['out'].name)
    tag = m.get('tag', name)
    out.defs.append("Definition %s_fields_src : list string := %s.\n"
                    % (tag, coq_string_list(f for (f, _) in fields)))
    if m['generated'] and 'PartialEq' in m.get('derives', []) and fields:
        conj = ' && '.join("%s (%s a) (%s b)" % (w.eqb_of(ty, sf, m['line']), proj[f], proj[f]) for (f, ty) in fields)
        out.defs.append("(* derive(PartialEq) on struct %s: all fields equal *)\n"
                        "Definition %s_eqb_src (a b : %s) : bool := (%s)%%bool.\n" % (name, tag, cty, conj))
    for (f, ty) in fields:
        parts = []
        for (g, _) in fields:
            parts.append("%s := %s" % (proj[g], "x" if g == f else "%s t" % proj[g]))
        out.defs.append("(* struct %s: assignment to field `%s` *)\n"
                        "Definition %s (t : %s) (x : %s) : %s :=\n  {| %s |}.\n"
                        % (name, f, m['setter'][f], cty, w.coq_type_of(ty), cty, ';\n     '.join(parts)))


def emit_loop_step(w, sf, out, tyname, fname, coq_name):
    key = (tyname, fname)
    if key not in w.fns:
        raise Unsupported(sf.rel, 0, "function `%s::%s` not found" % key)
    f = w.fns[key][0]
    if getattr(f, 'bad', None) is not None:
        raise f.bad
    if f.self_kind != 'refmut' or f.ret != '()':
        raise Unsupported(sf.rel, f.line, "`%s` must be a `&mut self` method returning ()" % fname)
    body = sf.parser(f.body_pos).block()
    stmts = [s for s in body.stmts if not (s.k == 'Expr' and s.expr.k == 'Macro' and s.expr.name in SKIPPED_MACROS)]
    if len(stmts) != 1 or stmts[0].k != 'For' or body.tail is not None:
        raise Unsupported(sf.rel, f.line, "body of `%s` must consist of exactly one `for` loop" % fname)
    loop = stmts[0]
    if loop.pat.k != 'PBind' or loop.iter.k != 'Path' or len(loop.iter.segs) != 1:
        raise Unsupported(sf.rel, loop.line, "loop header must be `for x in <parameter>`")
    ptys = dict((p.name, ty) for (p, ty) in f.params if p.k == 'PBind')
    coll = loop.iter.segs[0]
    elem = None
    for t in TRAIT_METHODS:
        if coll in ptys and ptys[coll] in ('&mut [Box<%s>]' % t, '&[Box<%s>]' % t, '&mut Vec<Box<%s>>' % t):
            elem = t
    if elem is None:
        raise Unsupported(sf.rel, loop.line, "loop over `%s` of type `%s`" % (coll, ptys.get(coll)))
    tr = FnTranslator(w, sf, out, tyname, f)
    tr.opaque = {}
    env = {'self': Var(tyname, "self'", 'refmut'), loop.pat.name: Var(elem, None, 'opaque')}
    text = tr.seq(loop.body.stmts, loop.body.tail, env, ('vars', ['self']))
    binders, notes = [], []
    for (m, ty) in TRAIT_METHODS[elem]:
        if m in tr.opaque:
            coq, ty, args, line = tr.opaque[m]
            binders.append("(%s : %s)" % (coq, COQ_TYPE[ty]))
            notes.append("(* %s stands for %s.%s(%s), %s:%d *)" % (coq, loop.pat.name, m, ', '.join(args), sf.rel, line))
            out.defs.append("Definition %s_%s_args_src : list string := %s.\n"
                            % (coq_name[:-4], m, coq_string_list(args)))
    binders.append("(self' : %s)" % COQ_TYPE[tyname])
    out.defs.append("(* body of the loop `for %s in %s` of %s::%s, %s:%d *)\n%s\n"
                    "Definition %s %s : %s :=\n  %s.\n"
                    % (loop.pat.name, coll, tyname, fname, sf.rel, loop.line, '\n'.join(notes), coq_name,
                       ' '.join(binders), COQ_TYPE[tyname], ind(text)))


VALUE_FNS = ['zero', 'dim', 'convert', 'is_actuated', 'as_bool', 'as_axis1d', 'as_axis2d', 'as_axis3d']
EVENTS_FNS = ['new']
TRACKER_FNS = ['new', 'state', 'value', 'events_blocked', 'overwrite', 'combine']
DATA_FNS = ['update', 'state']
REGISTRY_FNS = [('InstanceGroup', 'priority'), ('InstanceGroup', 'type_id'), ('InstanceGroup', 'new'),
                ('ContextInstances', 'index'), ('ContextInstances', 'add'), ('ContextInstances', 'get'),
                ('ContextInstances', 'remove'), ('ContextInstances', 'update')]
READER_FNS = [('ConsumedInput', 'reset'), ('InputReader', 'mod_keys_pressed'), ('InputReader', 'value'),
              ('InputReader', 'consume')]
MODIF_FILES = [('scale.rs', 'Scale', 'struct', [], ['apply']),
               ('delta_scale.rs', 'DeltaScale', 'struct', [], ['apply']),
               ('accumulate_by.rs', 'AccumulateBy', 'struct', [], ['apply']),
               ('dead_zone.rs', 'DeadZone', 'struct', ['DeadZoneKind'], ['dead_zone', 'apply']),
               ('negate.rs', 'Negate', 'struct', [], ['apply']),
               ('swizzle_axis.rs', 'SwizzleAxis', 'enum', ['SwizzleAxis'], ['apply'])]
COND_FILES = [('condition_timer.rs', 'ConditionTimer', ['update', 'reset', 'duration']),
              ('press.rs', 'Press', ['evaluate']), ('just_press.rs', 'JustPress', ['evaluate']),
              ('release.rs', 'Release', ['evaluate']), ('hold.rs', 'Hold', ['evaluate']),
              ('hold_and_release.rs', 'HoldAndRelease', ['evaluate']), ('tap.rs', 'Tap', ['evaluate']),
              ('pulse.rs', 'Pulse', ['evaluate']), ('chord.rs', 'Chord', ['evaluate', 'kind']),
              ('block_by.rs', 'BlockBy', ['evaluate', 'kind'])]


def run(repo, outdir):
    w = World(repo)
    w.enum_out = {}
    av = SrcFile(repo, 'src/action_value.rs')
    ev = SrcFile(repo, 'src/input_context/events.rs')
    ci = SrcFile(repo, 'src/input_context/context_instance.rs')
    tt = SrcFile(repo, 'src/input_context/context_instance/trigger_tracker.rs')
    o_val = OutFile('Generated.ValueSrc', av.rel, ['Model.Num', 'Model.Value', 'Generated.GlamTbl'])
    o_ev = OutFile('Generated.EventsSrc', ev.rel + ' and ' + ci.rel, ['Model.Num', 'Model.Value', 'Model.State'])
    o_tr = OutFile('Generated.TrackerSrc', tt.rel,
                   ['Model.Num', 'Model.Value', 'Model.State', 'Model.Tracker', 'Generated.GlamTbl'])
    # declarations
    w.load_enum(av, 'ActionValue')
    w.load_enum(av, 'ActionValueDim')
    w.load_enum(ci, 'ActionState')
    w.load_external_enums()
    w.load_struct(tt, 'TriggerTracker', o_tr)
    w.load_bitflags(ev, 'ActionEvents')
    w.load_impls(av, o_val, 'ActionValue')
    w.load_impls(ev, o_ev, 'ActionEvents')
    w.load_impls(tt, o_tr, 'TriggerTracker')
    emit_enum_helpers(w, o_val, 'ActionValue', av)
    emit_enum_helpers(w, o_val, 'ActionValueDim', av)
    emit_enum_helpers(w, o_ev, 'ActionState', ci)
    emit_flags(w, o_ev, 'ActionEvents', ev)
    emit_setters(w, o_tr, 'TriggerTracker', tt)
    # functions
    for (ty, names, sf, out) in (('ActionValue', VALUE_FNS, av, o_val), ('ActionEvents', EVENTS_FNS, ev, o_ev),
                                 ('TriggerTracker', TRACKER_FNS, tt, o_tr)):
        for n in names:
            if (ty, n) not in w.fns:
                raise Unsupported(sf.rel, 0, "function `%s::%s` not found" % (ty, n))
            w.require_fn((ty, n), out, sf, 0)
    emit_loop_step(w, tt, o_tr, 'TriggerTracker', 'apply_conditions', 'apply_cond_src')
    files = {'GlamTbl.v': GLAM_V, 'ValueSrc.v': o_val, 'EventsSrc.v': o_ev, 'TrackerSrc.v': o_tr}
    # ---- second wave
    w.late = True
    # 1. ActionData::update
    o_data = OutFile('Generated.DataSrc', ci.rel, ['Model.Num', 'Model.Value', 'Model.State'])
    w.load_struct(ci, 'ActionData', o_data)
    w.load_impls(ci, o_data, 'ActionData')
    emit_setters(w, o_data, 'ActionData', ci)
    for n in DATA_FNS:
        if ('ActionData', n) not in w.fns:
            raise Unsupported(ci.rel, 0, "function `ActionData::%s` not found" % n)
        w.require_fn(('ActionData', n), o_data, ci, 0)
    files['DataSrc.v'] = o_data
    # 2. condition timer and the built-in conditions
    cdir = 'src/input_context/input_condition/'
    o_cond = OutFile('Generated.CondSrc', cdir + '*.rs',
                     ['Model.Num', 'Model.Value', 'Model.State', 'Model.Tracker', 'Generated.GlamTbl'])
    for (fname, sname, fns) in COND_FILES:
        sf = SrcFile(repo, cdir + fname)
        w.gen_struct(sf, sname, o_cond)
        w.load_impls(sf, o_cond, sname)
        emit_setters(w, o_cond, sname, sf)
        for n in fns:
            if (sname, n) not in w.fns:
                raise Unsupported(sf.rel, 0, "function `%s::%s` not found" % (sname, n))
            w.require_fn((sname, n), o_cond, sf, 0)
    files['CondSrc.v'] = o_cond
    # 3. modifiers
    mdir = 'src/input_context/input_modifier/'
    o_mod = OutFile('Generated.ModifSrc', mdir + '*.rs',
                    ['Model.Num', 'Model.Value', 'Model.State', 'Model.Tracker', 'Model.Cond', 'Model.Modif',
                     'Generated.GlamTbl', 'Generated.GlamTbl2'])
    for (fname, sname, kind, extra, fns) in MODIF_FILES:
        sf = SrcFile(repo, mdir + fname)
        for en in extra:
            w.load_enum(sf, en)
            emit_enum_helpers(w, o_mod, en, sf)
        if kind == 'struct':
            w.gen_struct(sf, sname, o_mod)
            emit_setters(w, o_mod, sname, sf)
        w.load_impls(sf, o_mod, sname)
        for n in fns:
            if (sname, n) not in w.fns:
                raise Unsupported(sf.rel, 0, "function `%s::%s` not found" % (sname, n))
            w.require_fn((sname, n), o_mod, sf, 0)
    files['GlamTbl2.v'] = GLAM2_V
    files['ModifSrc.v'] = o_mod
    # ---- third wave: input reader
    inp = SrcFile(repo, 'src/input.rs')
    rd = SrcFile(repo, 'src/input/input_reader.rs')
    o_rd = OutFile('Generated.ReaderSrc', rd.rel + ' and ' + inp.rel,
                   ['Model.Num', 'Model.Value', 'Model.State', 'Model.Tracker', 'Model.Cond', 'Model.Modif',
                    'Model.Reader', 'Generated.GlamTbl', 'Generated.BevyTbl'])
    w.load_enum(inp, 'GamepadDevice')
    w.load_enum(inp, 'Input')
    emit_enum_helpers(w, o_rd, 'GamepadDevice', inp)
    emit_enum_helpers(w, o_rd, 'Input', inp)
    w.load_bitflags(inp, 'ModKeys')
    emit_flags(w, o_rd, 'ModKeys', inp)
    w.generic_structs = {'GamepadInput': (rd.item('struct', 'GamepadInput'), rd, o_rd)}
    for sname in ('ConsumedInput', 'InputReader'):
        w.gen_struct(rd, sname, o_rd)
        emit_setters(w, o_rd, sname, rd)
        w.load_impls(rd, o_rd, sname)
    for key in READER_FNS:
        if key not in w.fns:
            raise Unsupported(rd.rel, 0, "function `%s::%s` not found" % key)
        w.require_fn(key, o_rd, rd, 0)
    files['BevyTbl.v'] = BEVY_V
    files['ReaderSrc.v'] = o_rd
    # ---- fourth wave: ActionBind::update
    ib = SrcFile(repo, 'src/input_context/input_bind.rs')
    o_act = OutFile('Generated.ActionSrc', ci.rel + ' and ' + ib.rel,
                    ['Model.Num', 'Model.Value', 'Model.State', 'Model.Tracker', 'Model.Cond', 'Model.Modif',
                     'Model.Reader', 'Generated.GlamTbl', 'Generated.BevyTbl', 'Generated.ValueSrc',
                     'Generated.EventsSrc', 'Generated.TrackerSrc', 'Generated.DataSrc', 'Generated.ReaderSrc'])
    o_act.pre = ACTION_PRE
    o_act.post = 'End ActionSrc.'
    w.load_external_enums()
    w.gen_struct(ib, 'InputBind', o_act)
    emit_setters(w, o_act, 'InputBind', ib)
    w.gen_struct(ci, 'ActionBind', o_act)
    emit_setters(w, o_act, 'ActionBind', ci)
    w.load_impls(ci, o_act, 'ActionBind')
    if ('ActionBind', 'update') not in w.fns:
        raise Unsupported(ci.rel, 0, "function `ActionBind::update` not found")
    w.require_fn(('ActionBind', 'update'), o_act, ci, 0)
    files['ActionSrc.v'] = o_act
    # ---- fifth wave: ContextInstances
    rg = SrcFile(repo, 'src/input_context.rs')
    o_reg = OutFile('Generated.RegistrySrc', rg.rel,
                    ['Model.Num', 'Model.Value', 'Model.State', 'Model.Tracker', 'Model.Cond', 'Model.Modif',
                     'Model.Reader', 'Model.Action', 'Model.Registry', 'Generated.BevyTbl', 'Generated.RegTbl',
                     'Generated.ReaderSrc', 'Generated.ActionSrc'])
    w.newtypes = {}
    for it in rg.items:
        if it.kind == 'tstruct' and it.name == 'ContextInstances':
            p = rg.parser(it.pos)
            p.expect('(')
            p.attrs()
            p.visibility()
            w.newtypes[it.name] = p.type_()
            if not p.at(')'):
                raise Unsupported(rg.rel, it.line, "tuple struct with more than one field")
    if 'ContextInstances' not in w.newtypes:
        raise Unsupported(rg.rel, 0, "tuple struct `ContextInstances` not found")
    w.load_enum(rg, 'ContextMode')
    w.load_enum(rg, 'InstanceGroup')
    emit_enum_helpers(w, o_reg, 'ContextMode', rg)
    emit_enum_helpers(w, o_reg, 'InstanceGroup', rg)
    o_reg.pre = REG_PRE
    o_reg.post = 'End RegistrySrc.'
    w.load_impls(rg, o_reg, 'InstanceGroup')
    w.load_impls(rg, o_reg, 'ContextInstances')
    for key in REGISTRY_FNS:
        if key not in w.fns:
            raise Unsupported(rg.rel, 0, "function `%s::%s` not found" % key)
        w.require_fn(key, o_reg, rg, 0)
    files['RegTbl.v'] = REG_V
    files['RegistrySrc.v'] = o_reg
    # all translated: write
    if not os.path.isdir(outdir):
        os.makedirs(outdir)
    files = dict((n, (t if isinstance(t, str) else t.text())) for (n, t) in files.items())
    for name, text in files.items():
        with open(os.path.join(outdir, name), 'w') as f:
            f.write(text)
    return files


def main():
    ap = argparse.ArgumentParser(description="translate the pure core of bevy_enhanced_input to Gallina")
    ap.add_argument('--repo', required=True, help="root of the crate (contains src/)")
    ap.add_argument('--out', required=True, help="output directory (coq/Generated)")
    a = ap.parse_args()
    try:
        run(a.repo, a.out)
    except Unsupported as e:
        sys.stderr.write("unsupported: %s\n" % e)
        sys.exit(2)


if __name__ == '__main__':
    main()
