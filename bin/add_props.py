#!/usr/bin/env python3
"""bin/add_props.py PID 'Require line' name|||statement|||proof ...  : append judgement theorems to coq/Props/PID.v (development aid)"""
import sys
pid, req = sys.argv[1], sys.argv[2]
thms = [a.split('|||') for a in sys.argv[3:]]
p = '/verif/coq/Props/%s.v' % pid
s = open(p).read()
i = s.index('Print Assumptions')
block = '(* ---- app stage: the executable judgement of coq/Check is sound for the model on every scenario of the profile, and transfers\n   to every trace that agrees with the model\'s run ---- *)\n' + req + '\n'
for name, stmt, proof in thms:
    block += 'Theorem %s : %s.\nProof. exact %s. Qed.\n\n' % (name, stmt, proof)
s = s[:i] + block + '\n' + s[i:] + ''.join('Print Assumptions %s.\n' % t[0] for t in thms)
open(p, 'w').write(s)
