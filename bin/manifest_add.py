#!/usr/bin/env python3
"""bin/manifest_add.py ID 'text' 'note' 'design ref'  - register a check in MANIFEST.json"""
import json, sys
pid, text, note, design = sys.argv[1:5]
T = "Coq proof over a hand-written Gallina model + differential correspondence check (vm_compute) against the crate"
m = json.load(open('/verif/MANIFEST.json'))
m['not_applicable'] = [x for x in m['not_applicable'] if x['property_id'] != pid]
m['checks'] = [c for c in m['checks'] if c['property_id'] != pid]
m['checks'].append({"property_id": pid, "quick_cmd": "bin/check %s --tier quick" % pid, "thorough_cmd": "bin/check %s --tier thorough" % pid,
                    "evidence_file": "evidence/%s.json" % pid, "replay_cmd_template": "bin/check %s --replay {path}" % pid,
                    "engine": "coq-model+correspondence",
                    "level_claimed": {"category": "proof", "text": text, "design_ref": design}, "level_note": note, "technique": T})
m['checks'].sort(key=lambda c: c['property_id'])
for e in m['engines']:
    if pid not in e['serves_properties']:
        e['serves_properties'].append(pid); e['serves_properties'].sort()
json.dump(m, open('/verif/MANIFEST.json', 'w'), indent=1)
