//! App mode: a scenario is interpreted against a real Bevy `App` with `EnhancedInputPlugin`.
use std::time::Duration;

use bevy::ecs::system::SystemState;
use bevy::input::keyboard::{Key, KeyboardInput};
use bevy::input::mouse::{MouseButtonInput, MouseMotion, MouseScrollUnit, MouseWheel};
use bevy::input::{ButtonState, InputPlugin};
use bevy::prelude::*;
use bevy::time::TimeUpdateStrategy;
use bevy::ui::Interaction;
use bevy::utils::HashMap;
use bevy_enhanced_input::prelude::*;

use crate::common::*;
use crate::sexp::Sx;
use crate::with_action;

// ---------------------------------------------------------------------------------------------
// context types: mode and priority are type-level constants (mirrored in coq/Model/Registry.v)

pub const PRIO: [isize; 8] = [30, 20, -10, 0, 10, isize::MIN, isize::MAX, 5]; // the extremes are legal priorities ("always last", "always first")

#[derive(Component, Debug)]
pub struct Ctx<const I: usize>;

impl<const I: usize> InputContext for Ctx<I> {
    const MODE: ContextMode = if I % 2 == 1 { ContextMode::Shared } else { ContextMode::Exclusive };
    const PRIORITY: isize = PRIO[I];

    fn context_instance(world: &World, entity: Entity) -> ContextInstance {
        let sc = world.resource::<ScenarioRes>();
        let slots = world.resource::<Slots>();
        let slot = slots.slot_of(entity);
        let log = world.resource::<SharedLog>();
        log.push(LogItem::Built(I, slot));
        let mut ctx = ContextInstance::default();
        if let Some(spec) = sc.cfg.get(&(I, slot)) {
            build_instance(&mut ctx, spec, slots, log);
        }
        ctx
    }
}

macro_rules! with_ctx {
    ($c:expr, $C:ident => $body:expr) => {
        match $c {
            0 => { type $C = Ctx<0>; $body }
            1 => { type $C = Ctx<1>; $body }
            2 => { type $C = Ctx<2>; $body }
            3 => { type $C = Ctx<3>; $body }
            4 => { type $C = Ctx<4>; $body }
            5 => { type $C = Ctx<5>; $body }
            6 => { type $C = Ctx<6>; $body }
            7 => { type $C = Ctx<7>; $body }
            o => panic!("bad ctx {}", o),
        }
    };
}

// ---------------------------------------------------------------------------------------------
// scenario

#[derive(Clone)]
pub struct BindSpec {
    input: Sx,
    mods: Vec<(i64, Sx)>,
    conds: Vec<(i64, Sx)>,
}
#[derive(Clone)]
pub struct ActionSpec {
    aid: usize,
    mods: Vec<(i64, Sx)>,
    conds: Vec<(i64, Sx)>,
    binds: Vec<BindSpec>,
    routes: Option<Vec<Sx>>, // C19: build the bindings through these route expressions instead
}
#[derive(Clone)]
pub struct InstSpec {
    pad: Option<i64>,
    actions: Vec<ActionSpec>,
}

#[derive(Resource, Default)]
pub struct ScenarioRes {
    cfg: HashMap<(usize, i64), InstSpec>,
}

fn id_list(s: &Sx) -> Vec<(i64, Sx)> {
    s.list()
        .iter()
        .map(|p| {
            let (_, a) = p.app();
            (a[0].int(), a[1].clone())
        })
        .collect()
}

fn parse_spec(s: &Sx) -> InstSpec {
    let (_, a) = s.app(); // mkSpec pad [actions]
    let pad = match a[0].app() {
        ("None", _) => None,
        ("Some", x) => Some(x[0].int()),
        (o, _) => panic!("bad device {o}"),
    };
    let actions = a[1]
        .list()
        .iter()
        .map(|x| {
            let (_, b) = x.app(); // mkAction aid [mods] [conds] [binds]
            ActionSpec {
                aid: b[0].int() as usize,
                mods: id_list(&b[1]),
                conds: id_list(&b[2]),
                binds: b[3]
                    .list()
                    .iter()
                    .map(|y| {
                        let (_, c) = y.app(); // mkBind input [mods] [conds]
                        BindSpec { input: c[0].clone(), mods: id_list(&c[1]), conds: id_list(&c[2]) }
                    })
                    .collect(),
                routes: None,
            }
        })
        .collect();
    InstSpec { pad, actions }
}

pub fn key_of(k: i64) -> KeyCode {
    match k {
        0 => KeyCode::KeyQ,
        1 => KeyCode::KeyB,
        2 => KeyCode::KeyC,
        3 => KeyCode::KeyX,
        4 => KeyCode::KeyE,
        5 => KeyCode::KeyF,
        6 => KeyCode::KeyG,
        7 => KeyCode::KeyH,
        8 => KeyCode::Space,
        9 => KeyCode::Enter,
        10 => KeyCode::KeyW,
        11 => KeyCode::KeyA,
        12 => KeyCode::KeyS,
        13 => KeyCode::KeyD,
        14 => KeyCode::ArrowUp,
        15 => KeyCode::ArrowLeft,
        16 => KeyCode::ArrowDown,
        17 => KeyCode::ArrowRight,
        18 => KeyCode::Digit0,
        19 => KeyCode::Digit1,
        20 => KeyCode::Digit2,
        21 => KeyCode::Digit3,
        22 => KeyCode::Digit4,
        23 => KeyCode::Digit5,
        24 => KeyCode::Digit6,
        25 => KeyCode::Digit7,
        26 => KeyCode::Digit8,
        27 => KeyCode::Digit9,
        28 => KeyCode::KeyI,
        29 => KeyCode::KeyJ,
        100 => KeyCode::AltLeft,
        101 => KeyCode::AltRight,
        102 => KeyCode::ControlLeft,
        103 => KeyCode::ControlRight,
        104 => KeyCode::ShiftLeft,
        105 => KeyCode::ShiftRight,
        106 => KeyCode::SuperLeft,
        107 => KeyCode::SuperRight,
        o => panic!("bad key {o}"),
    }
}
pub fn mbutton_of(b: i64) -> MouseButton {
    match b {
        0 => MouseButton::Left,
        1 => MouseButton::Right,
        2 => MouseButton::Middle,
        3 => MouseButton::Back,
        4 => MouseButton::Forward,
        5 => MouseButton::Other(7),
        o => panic!("bad mouse button {o}"),
    }
}
pub fn pbutton_of(b: i64) -> GamepadButton {
    match b {
        0 => GamepadButton::South,
        1 => GamepadButton::East,
        2 => GamepadButton::North,
        3 => GamepadButton::West,
        4 => GamepadButton::DPadUp,
        5 => GamepadButton::DPadLeft,
        6 => GamepadButton::DPadDown,
        7 => GamepadButton::DPadRight,
        o => panic!("bad pad button {o}"),
    }
}
pub fn paxis_of(a: i64) -> GamepadAxis {
    match a {
        0 => GamepadAxis::LeftStickX,
        1 => GamepadAxis::LeftStickY,
        2 => GamepadAxis::RightStickX,
        3 => GamepadAxis::RightStickY,
        o => panic!("bad pad axis {o}"),
    }
}
fn modkeys(m: i64) -> ModKeys {
    ModKeys::from_bits_truncate(m as u8)
}
pub fn parse_input(s: &Sx) -> Input {
    let (h, a) = s.app();
    match h {
        "IKey" => Input::Keyboard { key: key_of(a[0].int()), mod_keys: modkeys(a[1].int()) },
        "IMouseButton" => Input::MouseButton { button: mbutton_of(a[0].int()), mod_keys: modkeys(a[1].int()) },
        "IMotion" => Input::MouseMotion { mod_keys: modkeys(a[0].int()) },
        "IWheel" => Input::MouseWheel { mod_keys: modkeys(a[0].int()) },
        "IPadButton" => Input::GamepadButton(pbutton_of(a[0].int())),
        "IPadAxis" => Input::GamepadAxis(paxis_of(a[0].int())),
        o => panic!("bad input {o}"),
    }
}

fn logged_cond(id: i64, s: &Sx, log: &SharedLog) -> CondBox {
    CondBox(Box::new(Logged { id, inner: parse_cond(s), log: log.clone() }))
}
fn logged_mod(id: i64, s: &Sx, log: &SharedLog) -> ModBox {
    if id < 0 {
        // the modifiers a preset attaches are not instrumented; neither are their hand-written counterparts
        return ModBox(parse_mod(s));
    }
    ModBox(Box::new(LoggedMod { id, inner: parse_mod(s), log: log.clone() }))
}

fn build_instance(ctx: &mut ContextInstance, spec: &InstSpec, slots: &Slots, log: &SharedLog) {
    if let Some(p) = spec.pad {
        ctx.set_gamepad(*slots.pads.get(&p).expect("pad of the configuration should exist"));
    }
    for a in &spec.actions {
        let bind: &mut ActionBind = with_action!(a.aid, A => ctx.bind::<A>());
        for (id, m) in &a.mods {
            bind.with_modifiers(logged_mod(*id, m, log));
        }
        for (id, c) in &a.conds {
            bind.with_conditions(logged_cond(*id, c, log));
        }
        if let Some(routes) = &a.routes {
            for r in routes {
                bind.to(eval_route(r, log));
            }
            continue;
        }
        for b in &a.binds {
            let mut ib = InputBind::new(parse_input(&b.input));
            for (id, m) in &b.mods {
                ib = ib.with_modifiers(logged_mod(*id, m, log));
            }
            for (id, c) in &b.conds {
                ib = ib.with_conditions(logged_cond(*id, c, log));
            }
            bind.to(ib);
        }
    }
}

// ---------------------------------------------------------------------------------------------
// systems of the harness

#[derive(Resource, Default)]
struct PendingOps(Vec<Sx>);
#[derive(Resource, Default)]
struct PendingFirst(Vec<Sx>); // raw edits to apply from a system in First
#[derive(Resource, Default)]
struct Universe {
    menu: Vec<usize>,
    ents: Vec<i64>,
}
#[derive(Resource, Default)]
struct ProbeSnaps {
    at_probe: Option<String>,
    at_update: Option<String>,
}

fn marker_a(log: Res<SharedLog>) {
    log.push(LogItem::Mark("A"));
}
fn marker_b(world: &mut World) {
    world.resource::<SharedLog>().push(LogItem::Mark("B"));
    let s = snapshot(world);
    world.resource_mut::<ProbeSnaps>().at_probe = Some(s);
}
fn probe_update(world: &mut World) {
    let s = snapshot(world);
    world.resource_mut::<ProbeSnaps>().at_update = Some(s);
}

fn update_ops(mut commands: Commands, mut pending: ResMut<PendingOps>, mut slots: ResMut<Slots>) {
    for op in std::mem::take(&mut pending.0) {
        let (h, a) = op.app();
        match h {
            "OSpawn" => {
                let slot = a[0].int();
                if slots.ents.contains_key(&slot) {
                    continue; // (one Commands op per frame: the occupant cannot have been despawned in this batch)
                }
                let id = commands.spawn_empty().id();
                slots.ents.insert(slot, id);
                for c in a[1].list() {
                    with_ctx!(c.int(), C => { commands.entity(id).insert(C {}); });
                }
            }
            "OInsert" => {
                if let Some(&id) = slots.ents.get(&a[0].int()) {
                    with_ctx!(a[1].int(), C => { commands.entity(id).insert(C {}); });
                }
            }
            "ORemove" => {
                if let Some(&id) = slots.ents.get(&a[0].int()) {
                    with_ctx!(a[1].int(), C => { commands.entity(id).remove::<C>(); });
                }
            }
            "ODespawn" => {
                // the slot stays mapped until the closing events have been reported
                if let Some(&id) = slots.ents.get(&a[0].int()) {
                    commands.entity(id).despawn();
                }
            }
            "ORebuild" => commands.trigger(RebuildInputContexts),
            o => panic!("bad op {o}"),
        }
    }
}

fn first_inject(world: &mut World) {
    let edits = std::mem::take(&mut world.resource_mut::<PendingFirst>().0);
    for e in edits {
        apply_raw_events(world, &e);
    }
}

/// applies one op to the world directly (between frames, or as the command a reacting observer queued)
pub fn world_op(world: &mut World, op: &Sx) {
    let (h, a) = op.app();
    match h {
        "OSpawn" => {
            let slot = a[0].int();
            if let Some(&cur) = world.resource::<Slots>().ents.get(&slot) {
                if world.get_entity(cur).is_ok() {
                    return;
                }
                world.resource_mut::<Slots>().old.insert(cur, slot); // despawned earlier in this step
            }
            let id = world.spawn_empty().id();
            world.resource_mut::<Slots>().ents.insert(slot, id);
            // entity hierarchy: slot s >= 10 is a child of slot s - 10 (whichever of the two is spawned later attaches
            // them, if the other is alive).  Nothing in the crate looks at the hierarchy: events must not travel along it.
            let other = if slot >= 10 { slot - 10 } else { slot + 10 };
            if let Some(&o) = world.resource::<Slots>().ents.get(&other) {
                if world.get_entity(o).is_ok() {
                    if slot >= 10 {
                        world.entity_mut(id).set_parent(o);
                    } else {
                        world.entity_mut(o).set_parent(id);
                    }
                }
            }
            for c in a[1].list() {
                with_ctx!(c.int(), C => { world.entity_mut(id).insert(C {}); });
            }
        }
        "OInsert" => {
            if let Some(&id) = world.resource::<Slots>().ents.get(&a[0].int()) {
                if world.get_entity(id).is_ok() {
                    with_ctx!(a[1].int(), C => { world.entity_mut(id).insert(C {}); });
                }
            }
        }
        "ORemove" => {
            if let Some(&id) = world.resource::<Slots>().ents.get(&a[0].int()) {
                if world.get_entity(id).is_ok() {
                    with_ctx!(a[1].int(), C => { world.entity_mut(id).remove::<C>(); });
                }
            }
        }
        "ODespawn" => {
            // the slot stays mapped until the closing events have been reported
            if let Some(&id) = world.resource::<Slots>().ents.get(&a[0].int()) {
                world.despawn(id);
            }
        }
        "ORebuild" => world.trigger(RebuildInputContexts),
        o => panic!("bad op {o}"),
    }
}

// ---------------------------------------------------------------------------------------------
// raw input

#[derive(Default, Clone)]
struct RawState {
    keys: Vec<i64>,
    mbuttons: Vec<i64>,
}

/// `(rawev [pressed keys] [released keys] [pressed mbuttons] [released mbuttons])` as window events
fn apply_raw_events(world: &mut World, e: &Sx) {
    let (_, a) = e.app();
    for k in a[0].list() {
        world.send_event(KeyboardInput { key_code: key_of(k.int()), logical_key: Key::Unidentified(bevy::input::keyboard::NativeKey::Unidentified), state: ButtonState::Pressed, repeat: false, window: Entity::PLACEHOLDER });
    }
    for k in a[1].list() {
        world.send_event(KeyboardInput { key_code: key_of(k.int()), logical_key: Key::Unidentified(bevy::input::keyboard::NativeKey::Unidentified), state: ButtonState::Released, repeat: false, window: Entity::PLACEHOLDER });
    }
    for b in a[2].list() {
        world.send_event(MouseButtonInput { button: mbutton_of(b.int()), state: ButtonState::Pressed, window: Entity::PLACEHOLDER });
    }
    for b in a[3].list() {
        world.send_event(MouseButtonInput { button: mbutton_of(b.int()), state: ButtonState::Released, window: Entity::PLACEHOLDER });
    }
}

fn ilist(s: &Sx) -> Vec<i64> {
    s.list().iter().map(|x| x.int()).collect()
}

pub struct Runner {
    app: App,
    log: SharedLog,
    raw: RawState,
    ui: Vec<Entity>,
    cfg_actions: HashMap<(usize, i64), Vec<usize>>,
}

fn snapshot(world: &World) -> String {
    // polled data of every (context type, entity slot, action) of the universe
    let uni = world.resource::<Universe>();
    let slots = world.resource::<Slots>();
    let sc = world.resource::<ScenarioRes>();
    let instances = world.resource::<ContextInstances>();
    let mut out = vec![];
    for &c in &uni.menu {
        for &e in &uni.ents {
            let Some(spec) = sc.cfg.get(&(c, e)) else { continue };
            let inst = slots.ents.get(&e).and_then(|&id| with_ctx!(c, C => instances.get::<C>(id)));
            let mut seen = vec![];
            for a in &spec.actions {
                if seen.contains(&a.aid) {
                    continue;
                }
                seen.push(a.aid);
                let d = inst.and_then(|i| with_action!(a.aid, A => i.action::<A>()));
                out.push(match d {
                    Some(d) => format!("(sn {} {} {} (Some {}))", c, e, a.aid, show_snap(d)),
                    None => format!("(sn {} {} {} None)", c, e, a.aid),
                });
            }
        }
    }
    format!("[{}]", out.join(" "))
}

fn mirror(world: &World) -> String {
    let uni = world.resource::<Universe>();
    let slots = world.resource::<Slots>();
    let instances = world.resource::<ContextInstances>();
    let mut out = vec![];
    for &c in &uni.menu {
        for &e in &uni.ents {
            let id = slots.ents.get(&e).copied();
            let got = id.map(|id| with_ctx!(c, C => instances.get::<C>(id).is_some())).unwrap_or(false);
            let has = id.map(|id| with_ctx!(c, C => world.get::<C>(id).is_some())).unwrap_or(false);
            out.push(format!("(mi {} {} {} {})", c, e, got, has));
        }
    }
    // stale ids: a despawned entity holds nothing - also after its slot was reused by a later spawn (same index, next
    // generation).  Reported (as pseudo-slot 100 + slot, present in the registry, absent from the world) only when the
    // registry answers for such an id, so nothing is printed on a correct crate
    for (&old, &slot) in slots.old.iter() {
        if world.get_entity(old).is_err() {
            for &c in &uni.menu {
                if with_ctx!(c, C => instances.get::<C>(old).is_some()) {
                    out.push(format!("(mi {} {} true false)", c, 100 + slot));
                }
            }
        }
    }
    format!("[{}]", out.join(" "))
}

impl Runner {
    pub fn new(sc: &Sx) -> Runner {
        Self::new_with_routes(sc, None)
    }
    pub fn new_with_routes(sc: &Sx, routes: Option<&Sx>) -> Runner {
        let (_, a) = sc.app(); // mkScenario [menu] [ents] [cfg] [steps]
        let menu: Vec<usize> = a[0].list().iter().map(|x| x.int() as usize).collect();
        let ents = ilist(&a[1]);
        let mut cfg = HashMap::default();
        let mut cfg_actions = HashMap::default();
        let mut npads = 0;
        for x in a[2].list() {
            let (_, p) = x.app(); // pair (pair c e) spec
            let (_, ce) = p[0].app();
            let mut spec = parse_spec(&p[1]);
            if let Some(rt) = routes {
                for entry in rt.list() {
                    let (_, q) = entry.app(); // pair (pair c e) [[routes] ..]
                    let (_, ce2) = q[0].app();
                    if ce2[0].int() == ce[0].int() && ce2[1].int() == ce[1].int() {
                        for (k, rl) in q[1].list().iter().enumerate() {
                            spec.actions[k].routes = Some(rl.list().to_vec());
                        }
                    }
                }
            }
            if let Some(p) = spec.pad {
                npads = npads.max(p + 1);
            }
            cfg_actions.insert((ce[0].int() as usize, ce[1].int()), spec.actions.iter().map(|s| s.aid).collect());
            cfg.insert((ce[0].int() as usize, ce[1].int()), spec);
        }
        // pads mentioned in frames
        fn scan_pads(s: &Sx, n: &mut i64) {
            match s {
                Sx::P(v) => {
                    // pads numbered 10 and up are "late": they are spawned when a frame lists them for the first time
                    // (typically into the entity slot a gamepad that just went away has freed)
                    if v.first().map(|h| matches!(h, Sx::A(x) if x == "mkPad")).unwrap_or(false) && v[1].int() < 10 {
                        *n = (*n).max(v[1].int() + 1);
                    }
                    v.iter().for_each(|x| scan_pads(x, n));
                }
                Sx::L(v) => v.iter().for_each(|x| scan_pads(x, n)),
                _ => {}
            }
        }
        scan_pads(&a[3], &mut npads);

        let mut app = App::new();
        app.add_plugins((MinimalPlugins, InputPlugin, EnhancedInputPlugin));
        let log = SharedLog::default();
        app.insert_resource(log.clone());
        app.insert_resource(ScenarioRes { cfg });
        app.insert_resource(Universe { menu: menu.clone(), ents });
        app.init_resource::<PendingOps>().init_resource::<PendingFirst>().init_resource::<ProbeSnaps>().init_resource::<Reactions>();
        app.insert_resource(ReactHook(world_op));
        let mut slots = Slots::default();
        for p in 0..npads {
            let id = app.world_mut().spawn(Gamepad::default()).id();
            slots.pads.insert(p, id);
        }
        app.insert_resource(slots);
        for &c in &menu {
            with_ctx!(c, C => { app.add_input_context::<C>(); });
        }
        register_observers(app.world_mut());
        app.add_systems(First, first_inject);
        app.add_systems(PreUpdate, (marker_a.before(EnhancedInputSystem), marker_b.after(EnhancedInputSystem)));
        app.add_systems(Update, (probe_update, update_ops).chain());
        app.insert_resource(TimeUpdateStrategy::ManualDuration(Duration::ZERO));
        app.finish();
        app.cleanup();
        // warm-up: the first update of Time<Real> always has a zero delta
        app.update();
        log.take();
        Runner { app, log, raw: RawState::default(), ui: vec![], cfg_actions }
    }

    fn show_log(&self, items: &[LogItem], is_op: bool) -> (Vec<String>, Vec<String>, Vec<String>, Vec<String>, Vec<String>) {
        let slots = self.app.world().resource::<Slots>();
        let ent = |e: Entity| slots.slot_of(e);
        let (mut pre, mut main, mut post, mut lg, mut built) = (vec![], vec![], vec![], vec![], vec![]);
        let mut phase = if is_op { 1 } else { 0 };
        for it in items {
            match it {
                LogItem::Mark("A") => phase = 1,
                LogItem::Mark("B") => phase = 2,
                LogItem::Mark(_) => {}
                LogItem::Ev { .. } => {
                    let s = show_item(it, &ent);
                    match phase {
                        0 => pre.push(s),
                        1 => main.push(s),
                        _ => post.push(s),
                    }
                }
                LogItem::Built(c, e) => built.push(format!("(pair {} {})", c, e)),
                _ => lg.push(show_item(it, &ent)),
            }
        }
        (pre, main, post, lg, built)
    }

    fn direct_op(&mut self, op: &Sx) {
        let world = self.app.world_mut();
        world_op(world, op);
        world.flush();
    }

    fn set_raw(&mut self, how: i64, raw: &Sx) {
        // how = injection mode + 4 * tap mask: bit i (i < 4) taps key i, bit 4 taps mouse button 0 - pressed and
        // released through window events before the frame, if it is not held in this frame (a sub-frame tap never
        // shows in ButtonInput::pressed, which is what the crate reads)
        let taps = how / 4;
        let how = how % 4;
        let (_, a) = raw.app(); // mkRaw [keys] [mb] (pair mx my) (pair wx wy) [pads] [ui]
        let keys = ilist(&a[0]);
        let mbs = ilist(&a[1]);
        let tapk: Vec<i64> = (0..4).filter(|i| taps & (1 << i) != 0 && !keys.contains(i) && !self.raw.keys.contains(i)).collect();
        let tapb: Vec<i64> = if taps & 16 != 0 && !mbs.contains(&0) && !self.raw.mbuttons.contains(&0) { vec![0] } else { vec![] };
        let kp: Vec<i64> = keys.iter().filter(|k| !self.raw.keys.contains(k)).copied().collect();
        let kr: Vec<i64> = self.raw.keys.iter().filter(|k| !keys.contains(k)).copied().collect();
        let bp: Vec<i64> = mbs.iter().filter(|k| !self.raw.mbuttons.contains(k)).copied().collect();
        let br: Vec<i64> = self.raw.mbuttons.iter().filter(|k| !mbs.contains(k)).copied().collect();
        let world = self.app.world_mut();
        let show = |v: &Vec<i64>| v.iter().map(|x| x.to_string()).collect::<Vec<_>>().join(" ");
        let ev = crate::sexp::parse(&format!("(rawev [{}] [{}] [{}] [{}])", show(&kp), show(&kr), show(&bp), show(&br)));
        match how {
            0 => {
                let mut ki = world.resource_mut::<ButtonInput<KeyCode>>();
                kp.iter().for_each(|&k| ki.press(key_of(k)));
                kr.iter().for_each(|&k| ki.release(key_of(k)));
                let mut mi = world.resource_mut::<ButtonInput<MouseButton>>();
                bp.iter().for_each(|&k| mi.press(mbutton_of(k)));
                br.iter().for_each(|&k| mi.release(mbutton_of(k)));
            }
            1 => apply_raw_events(world, &ev),
            _ => world.resource_mut::<PendingFirst>().0.push(ev),
        }
        if !tapk.is_empty() || !tapb.is_empty() {
            let show = |v: &Vec<i64>| v.iter().map(|x| x.to_string()).collect::<Vec<_>>().join(" ");
            let tap = crate::sexp::parse(&format!("(rawev [{}] [{}] [{}] [{}])", show(&tapk), show(&tapk), show(&tapb), show(&tapb)));
            if how == 2 {
                world.resource_mut::<PendingFirst>().0.push(tap);
            } else {
                apply_raw_events(world, &tap);
            }
        }
        self.raw.keys = keys;
        self.raw.mbuttons = mbs;
        // mouse motion and wheel can only arrive as events (the accumulators are rebuilt every frame)
        let (_, m) = a[2].app();
        let (mx, my) = (m[0].f(), m[1].f());
        if mx != 0.0 || my != 0.0 {
            // two events, to exercise the accumulation
            world.send_event(MouseMotion { delta: Vec2::new(mx / 2.0, my / 2.0) });
            world.send_event(MouseMotion { delta: Vec2::new(mx / 2.0, my / 2.0) });
        }
        let (_, w) = a[3].app();
        let (wx, wy) = (w[0].f(), w[1].f());
        if wx != 0.0 || wy != 0.0 {
            world.send_event(MouseWheel { unit: MouseScrollUnit::Line, x: wx, y: wy, window: Entity::PLACEHOLDER });
        }
        // gamepads: the listed ones exist with the listed state; the others are gone
        let pad_ents: Vec<(i64, Entity)> = world.resource::<Slots>().pads.iter().map(|(&k, &v)| (k, v)).collect();
        let listed: Vec<i64> = a[4].list().iter().map(|p| p.app().1[0].int()).collect();
        // the gamepads that are no longer listed go first, so that a late one can take over a freed entity slot
        for &(id, ent) in &pad_ents {
            if !listed.contains(&id) && world.get_entity(ent).is_ok() {
                world.despawn(ent);
            }
        }
        for &id in &listed {
            if id >= 10 && !world.resource::<Slots>().pads.contains_key(&id) {
                let ent = world.spawn(Gamepad::default()).id();
                world.resource_mut::<Slots>().pads.insert(id, ent);
            }
        }
        let pad_ents: Vec<(i64, Entity)> = world.resource::<Slots>().pads.iter().map(|(&k, &v)| (k, v)).collect();
        for p in a[4].list() {
            let (_, b) = p.app(); // mkPad id [buttons] [(pair axis q)]
            let id = b[0].int();
            let ent = pad_ents.iter().find(|x| x.0 == id).unwrap().1;
            if let Some(mut g) = world.get_mut::<Gamepad>(ent) {
                let pressed = ilist(&b[1]);
                for k in 0..8 {
                    if pressed.contains(&k) {
                        g.digital_mut().press(pbutton_of(k));
                    } else {
                        g.digital_mut().release(pbutton_of(k));
                    }
                }
                for k in 0..4 {
                    g.analog_mut().set(paxis_of(k), 0.0);
                }
                for ax in b[2].list() {
                    let (_, c) = ax.app();
                    g.analog_mut().set(paxis_of(c[0].int()), c[1].f());
                }
            }
        }
        // UI elements
        // the list gives the Interaction of each existing UI element; when it gets shorter the surplus elements
        // disappear while in whatever state they were: even positions are despawned, odd ones lose the component
        let ui = ilist(&a[5]);
        for i in 0..ui.len().max(self.ui.len()) {
            let want = ui.get(i).copied();
            let have = self.ui.get(i).copied().filter(|&e| world.get_entity(e).is_ok());
            match (want, have) {
                (Some(v), have) => {
                    let v = match v {
                        0 => Interaction::None,
                        1 => Interaction::Hovered,
                        _ => Interaction::Pressed,
                    };
                    let e = match have {
                        Some(e) => e,
                        None => {
                            let e = world.spawn_empty().id();
                            if i < self.ui.len() {
                                self.ui[i] = e;
                            } else {
                                self.ui.push(e);
                            }
                            e
                        }
                    };
                    match world.get_mut::<Interaction>(e) {
                        Some(mut cur) => {
                            if *cur != v {
                                *cur = v;
                            }
                        }
                        None => {
                            world.entity_mut(e).insert(v);
                        }
                    }
                }
                (None, Some(e)) => {
                    if i % 2 == 0 {
                        world.despawn(e);
                    } else {
                        world.entity_mut(e).remove::<Interaction>();
                    }
                }
                (None, None) => {}
            }
        }
    }

    /// runs one step; returns its `(out ..)` record
    pub fn step(&mut self, st: &Sx) -> String {
        let (h, a) = st.app();
        self.log.take();
        let mut probe_ok = true;
        let mut update_ok = true;
        let r = std::panic::catch_unwind(std::panic::AssertUnwindSafe(|| match h {
            "SOp" => {
                self.direct_op(&a[0]);
                (true, true)
            }
            "SFrame" => {
                let (_, f) = a[0].app(); // mkFrame real speed paused how raw [ops]
                {
                    let world = self.app.world_mut();
                    let nanos = (f[0].f64() * 1e9).round() as u64;
                    world.insert_resource(TimeUpdateStrategy::ManualDuration(Duration::from_nanos(nanos)));
                    let mut t = world.resource_mut::<Time<Virtual>>();
                    t.set_relative_speed_f64(f[1].f64());
                    if f[2].boolean() {
                        t.pause();
                    } else {
                        t.unpause();
                    }
                    world.resource_mut::<PendingOps>().0 = f[5].list().to_vec();
                    *world.resource_mut::<ProbeSnaps>() = ProbeSnaps::default();
                }
                self.set_raw(f[3].int(), &f[4]);
                self.app.update();
                let end = snapshot(self.app.world());
                let ps = self.app.world().resource::<ProbeSnaps>();
                // the probe after the crate's set sees the final data of the frame's evaluation; the one in
                // Update too (ops issued from Update are applied after it)
                let at_probe = ps.at_probe.clone().unwrap_or_default();
                let at_update = ps.at_update.clone().unwrap_or_default();
                let no_ops = f[5].list().is_empty();
                (at_probe == at_update, !no_ops || at_update == end)
            }
            o => panic!("bad step {o}"),
        }));
        let panicked = match r {
            Ok((p, u)) => {
                probe_ok = p;
                update_ok = u;
                false
            }
            Err(_) => true,
        };
        let items = self.log.take();
        let (pre, main, post, lg, built) = self.show_log(&items, h == "SOp");
        let world = self.app.world_mut();
        let snaps = snapshot(world);
        let mir = mirror(world);
        // forget the slots of despawned entities
        let dead: Vec<i64> = {
            let slots = world.resource::<Slots>();
            slots.ents.iter().filter(|(_, &e)| world.get_entity(e).is_err()).map(|(&k, _)| k).collect()
        };
        for k in dead {
            let mut slots = world.resource_mut::<Slots>();
            if let Some(e) = slots.ents.remove(&k) {
                slots.old.insert(e, k);
            }
        }
        let _ = &self.cfg_actions;
        format!(
            "(mkOut [{}] [{}] [{}] [{}] {} {} [{}] {} {} {})",
            pre.join(" "),
            main.join(" "),
            post.join(" "),
            lg.join(" "),
            snaps,
            mir,
            built.join(" "),
            probe_ok,
            update_ok,
            panicked
        )
    }
}

pub fn run_scenario(sc: &Sx) -> String {
    let (h, a) = sc.app();
    if h == "multi" || h == "rmulti" {
        // several scenarios judged together (C17): each runs in its own App
        let ts: Vec<String> = a[0].list().iter().map(run_scenario).collect();
        return format!("(mtrace [{}])", ts.join(" "));
    }
    if h == "reacting" {
        // (reacting [ (mkReact aid kind entity op) .. ] scenario)
        let (_, b) = a[1].app();
        let mut r = Runner::new(&a[1]);
        let rs: Vec<Reaction> = a[0]
            .list()
            .iter()
            .map(|x| {
                let (_, f) = x.app();
                let kind = match f[1].atom() {
                    "EStarted" => "EStarted",
                    "EOngoing" => "EOngoing",
                    "EFired" => "EFired",
                    "ECanceled" => "ECanceled",
                    _ => "ECompleted",
                };
                Reaction { aid: f[0].int() as usize, kind, slot: f[2].int(), op: f[3].clone(), fired: false }
            })
            .collect();
        r.app.world_mut().resource_mut::<Reactions>().0 = rs;
        let mut outs = vec![];
        for st in b[3].list() {
            let o = r.step(st);
            let stop = o.ends_with("true)");
            outs.push(o);
            if stop {
                break;
            }
        }
        return format!("(trace [{}])", outs.join(" "));
    }
    if h == "routed" {
        // (routed [routes per (c,e)] scenario): same steps, bindings built through the route expressions
        let (_, b) = a[1].app();
        let mut r = Runner::new_with_routes(&a[1], Some(&a[0]));
        let mut outs = vec![];
        for st in b[3].list() {
            let o = r.step(st);
            let stop = o.ends_with("true)");
            outs.push(o);
            if stop {
                break;
            }
        }
        return format!("(trace [{}])", outs.join(" "));
    }
    let mut r = Runner::new(sc);
    let mut outs = vec![];
    for st in a[3].list() {
        let o = r.step(st);
        let stop = o.ends_with("true)");
        outs.push(o);
        if stop {
            break; // after a panic the world is not to be trusted
        }
    }
    format!("(trace [{}])", outs.join(" "))
}

#[allow(dead_code)]
fn _unused(world: &mut World) {
    let _ = SystemState::<Commands>::new(world);
}

// ---------------------------------------------------------------------------------------------
// C19: construction routes.  A route expression is evaluated through the crate's own trait impls
// (tuples, slices, arrays, Vec, *_each wrappers, presets); `DynSet` only erases the static type.

pub trait DynSetT {
    fn binds(self: Box<Self>) -> Vec<InputBind>;
}
impl<T: InputBindSet> DynSetT for T {
    fn binds(self: Box<Self>) -> Vec<InputBind> {
        (*self).bindings().collect()
    }
}
pub struct DynSet(pub Box<dyn DynSetT>);
impl InputBindSet for DynSet {
    fn bindings(self) -> impl Iterator<Item = InputBind> {
        self.0.binds().into_iter()
    }
}

/// a logged modifier / condition that can be cloned (the `*_each` helpers clone their set per input)
pub struct CloneMod {
    id: i64,
    spec: Sx,
    log: SharedLog,
    inner: Box<dyn InputModifier>,
}
impl Clone for CloneMod {
    fn clone(&self) -> Self {
        CloneMod { id: self.id, spec: self.spec.clone(), log: self.log.clone(), inner: parse_mod(&self.spec) }
    }
}
impl std::fmt::Debug for CloneMod {
    fn fmt(&self, f: &mut std::fmt::Formatter<'_>) -> std::fmt::Result {
        write!(f, "CloneMod({})", self.id)
    }
}
impl InputModifier for CloneMod {
    fn apply(&mut self, a: &bevy_enhanced_input::input_context::context_instance::ActionsData, t: &Time<Virtual>, v: ActionValue) -> ActionValue {
        let seen = seen_states(a);
        let r = self.inner.apply(a, t, v);
        self.log.push(LogItem::Mod { id: self.id, vin: v, vout: r, seen });
        r
    }
}
pub enum CondInner {
    Typed(TypedCond),                // a built-in: cloned by the crate's own Clone
    Dyn(Box<dyn InputCondition>),    // scripted / generic ones: rebuilt from the case text
}
pub struct CloneCond {
    id: i64,
    spec: Sx,
    log: SharedLog,
    inner: CondInner,
}
fn cond_inner(s: &Sx) -> CondInner {
    match parse_cond_typed(s) {
        Some(t) => CondInner::Typed(t),
        None => CondInner::Dyn(parse_cond(s)),
    }
}
impl Clone for CloneCond {
    fn clone(&self) -> Self {
        let inner = match &self.inner {
            CondInner::Typed(t) => CondInner::Typed(t.clone()),
            CondInner::Dyn(_) => cond_inner(&self.spec),
        };
        CloneCond { id: self.id, spec: self.spec.clone(), log: self.log.clone(), inner }
    }
}
impl std::fmt::Debug for CloneCond {
    fn fmt(&self, f: &mut std::fmt::Formatter<'_>) -> std::fmt::Result {
        write!(f, "CloneCond({})", self.id)
    }
}
impl InputCondition for CloneCond {
    fn evaluate(&mut self, a: &bevy_enhanced_input::input_context::context_instance::ActionsData, t: &Time<Virtual>, v: ActionValue) -> ActionState {
        let seen = seen_states(a);
        let r = match &mut self.inner {
            CondInner::Typed(c) => c.evaluate(a, t, v),
            CondInner::Dyn(c) => c.evaluate(a, t, v),
        };
        self.log.push(LogItem::Cond { id: self.id, vin: v, res: r, seen });
        r
    }
    fn kind(&self) -> ConditionKind {
        match &self.inner {
            CondInner::Typed(c) => c.kind(),
            CondInner::Dyn(c) => c.kind(),
        }
    }
}
fn clone_mods(l: &Sx, log: &SharedLog) -> Vec<CloneMod> {
    id_list(l).into_iter().map(|(id, s)| CloneMod { id, inner: parse_mod(&s), spec: s, log: log.clone() }).collect()
}
fn clone_conds(l: &Sx, log: &SharedLog) -> Vec<CloneCond> {
    id_list(l).into_iter().map(|(id, s)| CloneCond { id, inner: cond_inner(&s), spec: s, log: log.clone() }).collect()
}

struct OwnedInputs(Vec<Input>, u8);
impl DynSetT for OwnedInputs {
    fn binds(self: Box<Self>) -> Vec<InputBind> {
        match self.1 {
            0 => (&self.0[..]).bindings().collect(),         // &[I]
            1 => (&self.0).bindings().collect(),             // &Vec<I>
            _ => match self.0.len() {                        // &[I; N]
                1 => { let a: [Input; 1] = [self.0[0]]; (&a).bindings().collect() }
                2 => { let a: [Input; 2] = [self.0[0], self.0[1]]; (&a).bindings().collect() }
                3 => { let a: [Input; 3] = [self.0[0], self.0[1], self.0[2]]; (&a).bindings().collect() }
                _ => (&self.0[..]).bindings().collect(),
            },
        }
    }
}

pub fn eval_route(s: &Sx, log: &SharedLog) -> DynSet {
    let (h, a) = s.app();
    match h {
        "RSingle" => {
            let (_, c) = a[0].app(); // mkBind input [mods] [conds]
            let mut ib = InputBind::new(parse_input(&c[0]));
            for (id, m) in id_list(&c[1]) {
                ib = ib.with_modifiers(logged_mod(id, &m, log));
            }
            for (id, cnd) in id_list(&c[2]) {
                ib = ib.with_conditions(logged_cond(id, &cnd, log));
            }
            DynSet(Box::new(ib))
        }
        "RRaw" => DynSet(Box::new(parse_input(&a[0]))), // a bare Input (Into<InputBind>)
        "RTuple" => {
            let mut v: Vec<DynSet> = a[0].list().iter().map(|x| eval_route(x, log)).collect();
            match v.len() {
                1 => { let x = v.remove(0); DynSet(Box::new((x,))) }
                2 => { let y = v.remove(1); let x = v.remove(0); DynSet(Box::new((x, y))) }
                3 => { let z = v.remove(2); let y = v.remove(1); let x = v.remove(0); DynSet(Box::new((x, y, z))) }
                4 => { let w = v.remove(3); let z = v.remove(2); let y = v.remove(1); let x = v.remove(0); DynSet(Box::new((x, y, z, w))) }
                n => panic!("tuple of {n} not supported by the harness"),
            }
        }
        "RSlice" => DynSet(Box::new(OwnedInputs(a[1].list().iter().map(parse_input).collect(), a[0].int() as u8))),
        "RModsEach" => {
            let inner = eval_route(&a[0], log);
            let mut ms = clone_mods(&a[1], log);
            match ms.len() {
                1 => DynSet(Box::new(inner.with_modifiers_each(ms.remove(0)))),
                2 => { let b = ms.remove(1); let a0 = ms.remove(0); DynSet(Box::new(inner.with_modifiers_each((a0, b)))) }
                n => panic!("mods_each with {n} modifiers not supported by the harness"),
            }
        }
        "RCondsEach" => {
            let inner = eval_route(&a[0], log);
            let mut cs = clone_conds(&a[1], log);
            match cs.len() {
                1 => DynSet(Box::new(inner.with_conditions_each(cs.remove(0)))),
                2 => { let b = cs.remove(1); let a0 = cs.remove(0); DynSet(Box::new(inner.with_conditions_each((a0, b)))) }
                n => panic!("conds_each with {n} conditions not supported by the harness"),
            }
        }
        "RCardinal" => DynSet(Box::new(Cardinal { north: eval_route(&a[0], log), east: eval_route(&a[1], log), south: eval_route(&a[2], log), west: eval_route(&a[3], log) })),
        "RBidirectional" => DynSet(Box::new(Bidirectional { positive: eval_route(&a[0], log), negative: eval_route(&a[1], log) })),
        "RStick" => DynSet(Box::new(if a[0].boolean() { GamepadStick::Left } else { GamepadStick::Right })),
        "RWasd" => DynSet(Box::new(Cardinal::wasd_keys())),
        "RArrows" => DynSet(Box::new(Cardinal::arrow_keys())),
        "RDpad" => DynSet(Box::new(Cardinal::dpad_buttons())),
        o => panic!("bad route {o}"),
    }
}
