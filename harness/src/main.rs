mod app;
mod common;
mod sexp;
mod types;
mod unit;

use std::io::{BufRead, Write};

fn main() {
    let mode = std::env::args().nth(1).unwrap_or_else(|| "unit".into());
    if std::env::var("BEI_PANIC").is_err() { std::panic::set_hook(Box::new(|_| {})); } // panics are caught and reported in the output
    let stdin = std::io::stdin();
    let stdout = std::io::stdout();
    let mut out = std::io::BufWriter::new(stdout.lock());
    match mode.as_str() {
        "unit" => {
            let mut cx = unit::UnitCtx::new();
            for line in stdin.lock().lines() {
                let line = line.unwrap();
                if line.trim().is_empty() {
                    continue;
                }
                let case = sexp::parse(&line);
                let r = std::panic::catch_unwind(std::panic::AssertUnwindSafe(|| unit::run_case(&mut cx, &case)));
                match r {
                    Ok(s) => writeln!(out, "{s}").unwrap(),
                    Err(_) => writeln!(out, "panic").unwrap(),
                }
            }
        }
        "app" => {
            for line in stdin.lock().lines() {
                let line = line.unwrap();
                if line.trim().is_empty() {
                    continue;
                }
                let sc = sexp::parse(&line);
                let r = std::panic::catch_unwind(std::panic::AssertUnwindSafe(|| app::run_scenario(&sc)));
                match r {
                    Ok(s) => writeln!(out, "{s}").unwrap(),
                    Err(_) => writeln!(out, "panic").unwrap(),
                }
            }
        }
        o => panic!("unknown mode {o}"),
    }
}
