//! Minimal S-expression reader/printer. `( .. )` is a constructor application, `[ .. ]` a list.
use std::fmt::Write;

#[derive(Clone, Debug, PartialEq)]
pub enum Sx {
    A(String),
    P(Vec<Sx>),
    L(Vec<Sx>),
}

impl Sx {
    pub fn atom(&self) -> &str {
        match self {
            Sx::A(s) => s,
            _ => panic!("expected atom, got {}", self),
        }
    }
    pub fn list(&self) -> &[Sx] {
        match self {
            Sx::L(v) => v,
            _ => panic!("expected [list], got {}", self),
        }
    }
    /// `(head a b c)` -> ("head", [a, b, c]); a bare atom is a nullary constructor.
    pub fn app(&self) -> (&str, &[Sx]) {
        match self {
            Sx::P(v) => (v[0].atom(), &v[1..]),
            Sx::A(s) => (s, &[]),
            _ => panic!("expected (app), got {}", self),
        }
    }
    pub fn int(&self) -> i64 {
        self.atom().parse().unwrap_or_else(|_| panic!("expected int, got {}", self))
    }
    pub fn boolean(&self) -> bool {
        match self.atom() {
            "true" => true,
            "false" => false,
            o => panic!("expected bool, got {o}"),
        }
    }
    /// rational `n/d` (or integer) to f32; exact when dyadic and small.
    pub fn f(&self) -> f32 {
        let s = self.atom();
        match s.split_once('/') {
            Some((n, d)) => (n.parse::<f64>().unwrap() / d.parse::<f64>().unwrap()) as f32,
            None => s.parse::<f64>().unwrap() as f32,
        }
    }
    pub fn f64(&self) -> f64 {
        let s = self.atom();
        match s.split_once('/') {
            Some((n, d)) => n.parse::<f64>().unwrap() / d.parse::<f64>().unwrap(),
            None => s.parse::<f64>().unwrap(),
        }
    }
}

impl std::fmt::Display for Sx {
    fn fmt(&self, f: &mut std::fmt::Formatter<'_>) -> std::fmt::Result {
        match self {
            Sx::A(s) => f.write_str(s),
            Sx::P(v) | Sx::L(v) => {
                let (o, c) = if matches!(self, Sx::P(_)) { ('(', ')') } else { ('[', ']') };
                f.write_char(o)?;
                for (i, x) in v.iter().enumerate() {
                    if i > 0 {
                        f.write_char(' ')?;
                    }
                    write!(f, "{x}")?;
                }
                f.write_char(c)
            }
        }
    }
}

pub fn parse(s: &str) -> Sx {
    let b = s.as_bytes();
    let mut i = 0;
    let r = parse_at(b, &mut i);
    r
}

fn skip(b: &[u8], i: &mut usize) {
    while *i < b.len() && (b[*i] as char).is_whitespace() {
        *i += 1;
    }
}

fn parse_at(b: &[u8], i: &mut usize) -> Sx {
    skip(b, i);
    match b[*i] {
        b'(' | b'[' => {
            let open = b[*i];
            let close = if open == b'(' { b')' } else { b']' };
            *i += 1;
            let mut v = vec![];
            loop {
                skip(b, i);
                if b[*i] == close {
                    *i += 1;
                    break;
                }
                v.push(parse_at(b, i));
            }
            if open == b'(' {
                Sx::P(v)
            } else {
                Sx::L(v)
            }
        }
        _ => {
            let st = *i;
            while *i < b.len() && !(b[*i] as char).is_whitespace() && !b"()[]".contains(&b[*i]) {
                *i += 1;
            }
            Sx::A(String::from_utf8(b[st..*i].to_vec()).unwrap())
        }
    }
}

/// Exact rational rendering of an f32: `n/d` with d a power of two; `nan` for non-finite values.
pub fn q(x: f32) -> String {
    if !x.is_finite() {
        return "nan".into();
    }
    let mut v = x as f64;
    let mut k = 0u32;
    while v.fract() != 0.0 {
        v *= 2.0;
        k += 1;
        if k > 120 {
            return "nan".into();
        }
    }
    if v.abs() >= 9.0e18 {
        return "nan".into();
    }
    let n = v as i64; // -0.0 becomes 0
    format!("{}/{}", n, 1u128 << k)
}
