//! Shared pieces: value/state printing, logged + scripted conditions and modifiers, observers.
use std::any::TypeId;
use std::sync::{Arc, Mutex};

use bevy::prelude::*;
use bevy::utils::HashMap;
use bevy_enhanced_input::input_context::context_instance::ActionsData;
use bevy_enhanced_input::prelude::*;

use crate::sexp::{q, Sx};
use crate::{for_all_actions, with_action};

pub fn parse_value(s: &Sx) -> ActionValue {
    let (h, a) = s.app();
    match h {
        "VB" => ActionValue::Bool(a[0].boolean()),
        "V1" => ActionValue::Axis1D(a[0].f()),
        "V2" => ActionValue::Axis2D(Vec2::new(a[0].f(), a[1].f())),
        "V3" => ActionValue::Axis3D(Vec3::new(a[0].f(), a[1].f(), a[2].f())),
        o => panic!("bad value {o}"),
    }
}
pub fn show_value(v: ActionValue) -> String {
    match v {
        ActionValue::Bool(b) => format!("(VB {b})"),
        ActionValue::Axis1D(x) => format!("(V1 {})", q(x)),
        ActionValue::Axis2D(v) => format!("(V2 {} {})", q(v.x), q(v.y)),
        ActionValue::Axis3D(v) => format!("(V3 {} {} {})", q(v.x), q(v.y), q(v.z)),
    }
}
pub fn parse_dim(s: &Sx) -> ActionValueDim {
    match s.atom() {
        "DBool" => ActionValueDim::Bool,
        "D1" => ActionValueDim::Axis1D,
        "D2" => ActionValueDim::Axis2D,
        "D3" => ActionValueDim::Axis3D,
        o => panic!("bad dim {o}"),
    }
}
pub fn show_dim(d: ActionValueDim) -> &'static str {
    match d {
        ActionValueDim::Bool => "DBool",
        ActionValueDim::Axis1D => "D1",
        ActionValueDim::Axis2D => "D2",
        ActionValueDim::Axis3D => "D3",
    }
}
pub fn parse_state(s: &Sx) -> ActionState {
    match s.atom() {
        "SNone" => ActionState::None,
        "SOngoing" => ActionState::Ongoing,
        "SFired" => ActionState::Fired,
        o => panic!("bad state {o}"),
    }
}
pub fn show_state(s: ActionState) -> &'static str {
    match s {
        ActionState::None => "SNone",
        ActionState::Ongoing => "SOngoing",
        ActionState::Fired => "SFired",
    }
}
pub fn show_opt(x: Option<f32>) -> String {
    match x {
        Some(x) => format!("(Some {})", q(x)),
        None => "None".into(),
    }
}
pub fn show_snap(d: &ActionData) -> String {
    format!(
        "(mkSnap {} {} {} {} {})",
        show_state(d.state()),
        d.events().bits(),
        show_value(d.value()),
        q(d.elapsed_secs()),
        q(d.fired_secs())
    )
}

// ---------------------------------------------------------------------------------------------
// Log shared by observers, conditions and modifiers

#[derive(Clone, Debug)]
pub enum LogItem {
    Ev {
        target: Entity,
        aid: usize,
        kind: &'static str,
        value: ActionValue,
        state: ActionState,
        elapsed: Option<f32>,
        fired: Option<f32>,
    },
    Cond { id: i64, vin: ActionValue, res: ActionState, seen: Vec<(usize, ActionState)> },
    Mod { id: i64, vin: ActionValue, vout: ActionValue, seen: Vec<(usize, ActionState)> },
    Mark(&'static str),
    Built(usize, i64),
}

#[derive(Resource, Clone, Default)]
pub struct SharedLog(pub Arc<Mutex<Vec<LogItem>>>);
impl SharedLog {
    pub fn push(&self, it: LogItem) {
        self.0.lock().unwrap().push(it);
    }
    pub fn take(&self) -> Vec<LogItem> {
        std::mem::take(&mut *self.0.lock().unwrap())
    }
}

/// action TypeId -> aid, for reporting what a condition is shown
pub fn type_table() -> &'static HashMap<TypeId, usize> {
    use std::sync::OnceLock;
    static T: OnceLock<HashMap<TypeId, usize>> = OnceLock::new();
    T.get_or_init(|| {
        let mut m = HashMap::default();
        for_all_actions!(aid, A => { m.insert(TypeId::of::<A>(), aid); });
        m
    })
}
pub fn seen_states(actions: &ActionsData) -> Vec<(usize, ActionState)> {
    let t = type_table();
    let mut v: Vec<(usize, ActionState)> =
        actions.0.iter().filter_map(|(ty, d)| t.get(ty).map(|&a| (a, d.state()))).collect();
    v.sort_by_key(|x| x.0);
    v
}

// ---------------------------------------------------------------------------------------------
// scenario entity slots <-> real entities; gamepad ids -> entities

#[derive(Resource, Default)]
pub struct Slots {
    pub ents: HashMap<i64, Entity>,
    pub pads: HashMap<i64, Entity>,
    /// entities that used to occupy a slot (despawned): events still in flight for them are reported under it
    pub old: HashMap<Entity, i64>,
}
impl Slots {
    pub fn slot_of(&self, e: Entity) -> i64 {
        self.ents.iter().find(|(_, &v)| v == e).map(|(&k, _)| k).or_else(|| self.old.get(&e).copied()).unwrap_or(-1)
    }
}

/// C02: operations requested from inside an observer of an action event; each fires once
pub struct Reaction {
    pub aid: usize,
    pub kind: &'static str,
    pub slot: i64, // -1: any entity
    pub op: Sx,
    pub fired: bool,
}
#[derive(Resource, Default)]
pub struct Reactions(pub Vec<Reaction>);
/// how an op is applied to the world (lives in app.rs; stored here to keep the modules acyclic)
#[derive(Resource, Clone, Copy)]
pub struct ReactHook(pub fn(&mut World, &Sx));

fn fire(aid: usize, kind: &'static str, target: Entity, commands: &mut Commands, reacts: Option<ResMut<Reactions>>, slots: Option<Res<Slots>>) {
    let (Some(mut reacts), Some(slots)) = (reacts, slots) else { return };
    let slot = slots.slot_of(target);
    for r in reacts.0.iter_mut() {
        if !r.fired && r.aid == aid && r.kind == kind && (r.slot == -1 || r.slot == slot) {
            r.fired = true;
            let op = r.op.clone();
            // issued through the observer's Commands: runs right after the triggering command
            commands.queue(move |world: &mut World| {
                let hook = *world.resource::<ReactHook>();
                (hook.0)(world, &op);
            });
            break;
        }
    }
}

// ---------------------------------------------------------------------------------------------
// Observers

pub fn register_observers(world: &mut World) {
    for_all_actions!(aid, A => register_for::<A>(world, aid));
}

fn register_for<A: InputAction>(world: &mut World, aid: usize)
where
    A::Output: Into<ActionValue>,
{
    world.add_observer(move |mut t: Trigger<Started<A>>, log: Res<SharedLog>, mut commands: Commands, reacts: Option<ResMut<Reactions>>, slots: Option<Res<Slots>>| {
        let e = t.event();
        log.push(LogItem::Ev { target: t.entity(), aid, kind: "EStarted", value: e.value.into(), state: e.state, elapsed: None, fired: None });
        // every recipient gets its OWN copy of the event: what this observer does to its copy (legal through
        // Trigger::event_mut) must not show in the payload any other recipient sees
        t.event_mut().state = ActionState::None;
        fire(aid, "EStarted", t.entity(), &mut commands, reacts, slots);
    });
    world.add_observer(move |mut t: Trigger<Ongoing<A>>, log: Res<SharedLog>, mut commands: Commands, reacts: Option<ResMut<Reactions>>, slots: Option<Res<Slots>>| {
        let e = t.event();
        log.push(LogItem::Ev { target: t.entity(), aid, kind: "EOngoing", value: e.value.into(), state: e.state, elapsed: Some(e.elapsed_secs), fired: None });
        // every recipient gets its OWN copy of the event: what this observer does to its copy (legal through
        // Trigger::event_mut) must not show in the payload any other recipient sees
        t.event_mut().state = ActionState::None;
        fire(aid, "EOngoing", t.entity(), &mut commands, reacts, slots);
    });
    world.add_observer(move |mut t: Trigger<Fired<A>>, log: Res<SharedLog>, mut commands: Commands, reacts: Option<ResMut<Reactions>>, slots: Option<Res<Slots>>| {
        let e = t.event();
        log.push(LogItem::Ev { target: t.entity(), aid, kind: "EFired", value: e.value.into(), state: e.state, elapsed: Some(e.elapsed_secs), fired: Some(e.fired_secs) });
        // every recipient gets its OWN copy of the event: what this observer does to its copy (legal through
        // Trigger::event_mut) must not show in the payload any other recipient sees
        t.event_mut().state = ActionState::None;
        fire(aid, "EFired", t.entity(), &mut commands, reacts, slots);
    });
    world.add_observer(move |mut t: Trigger<Canceled<A>>, log: Res<SharedLog>, mut commands: Commands, reacts: Option<ResMut<Reactions>>, slots: Option<Res<Slots>>| {
        let e = t.event();
        log.push(LogItem::Ev { target: t.entity(), aid, kind: "ECanceled", value: e.value.into(), state: e.state, elapsed: Some(e.elapsed_secs), fired: None });
        // every recipient gets its OWN copy of the event: what this observer does to its copy (legal through
        // Trigger::event_mut) must not show in the payload any other recipient sees
        t.event_mut().state = ActionState::None;
        fire(aid, "ECanceled", t.entity(), &mut commands, reacts, slots);
    });
    world.add_observer(move |mut t: Trigger<Completed<A>>, log: Res<SharedLog>, mut commands: Commands, reacts: Option<ResMut<Reactions>>, slots: Option<Res<Slots>>| {
        let e = t.event();
        log.push(LogItem::Ev { target: t.entity(), aid, kind: "ECompleted", value: e.value.into(), state: e.state, elapsed: Some(e.elapsed_secs), fired: Some(e.fired_secs) });
        // every recipient gets its OWN copy of the event: what this observer does to its copy (legal through
        // Trigger::event_mut) must not show in the payload any other recipient sees
        t.event_mut().state = ActionState::None;
        fire(aid, "ECompleted", t.entity(), &mut commands, reacts, slots);
    });
}

// ---------------------------------------------------------------------------------------------
// Conditions

#[derive(Debug)]
pub struct Scripted {
    pub kind: (u8, bool), // 0 explicit, 1 implicit, 2 blocker(events_only)
    pub results: Vec<ActionState>,
    pub idx: usize,
}
impl InputCondition for Scripted {
    fn evaluate(&mut self, _a: &ActionsData, _t: &Time<Virtual>, _v: ActionValue) -> ActionState {
        let r = self.results.get(self.idx).copied().unwrap_or(ActionState::None);
        self.idx += 1;
        r
    }
    fn kind(&self) -> ConditionKind {
        match self.kind {
            (0, _) => ConditionKind::Explicit,
            (1, _) => ConditionKind::Implicit,
            (_, eo) => ConditionKind::Blocker { events_only: eo },
        }
    }
}

/// Wraps any condition: delegates, and records what it was shown and what it returned.
pub struct Logged {
    pub id: i64,
    pub inner: Box<dyn InputCondition>,
    pub log: SharedLog,
}
impl std::fmt::Debug for Logged {
    fn fmt(&self, f: &mut std::fmt::Formatter<'_>) -> std::fmt::Result {
        write!(f, "Logged({}, {:?})", self.id, self.inner)
    }
}
impl InputCondition for Logged {
    fn evaluate(&mut self, a: &ActionsData, t: &Time<Virtual>, v: ActionValue) -> ActionState {
        let seen = seen_states(a);
        let r = self.inner.evaluate(a, t, v);
        self.log.push(LogItem::Cond { id: self.id, vin: v, res: r, seen });
        r
    }
    fn kind(&self) -> ConditionKind {
        self.inner.kind()
    }
}

pub fn parse_kind(s: &Sx) -> (u8, bool) {
    let (h, a) = s.app();
    match h {
        "KExplicit" => (0, false),
        "KImplicit" => (1, false),
        "KBlocker" => (2, a[0].boolean()),
        o => panic!("bad kind {o}"),
    }
}

/// FNV-1a of the printed S-expression: a deterministic, case-dependent choice (replays reproduce it)
pub fn text_hash(s: &Sx) -> u64 {
    let mut h: u64 = 0xcbf29ce484222325;
    for b in s.to_string().bytes() {
        h ^= b as u64;
        h = h.wrapping_mul(0x100000001b3);
    }
    h
}
/// the k-th permutation of 0..n
pub fn perm(n: usize, k: u64) -> Vec<usize> {
    let mut pool: Vec<usize> = (0..n).collect();
    let mut k = k;
    let mut out = Vec::new();
    while !pool.is_empty() {
        let i = (k % pool.len() as u64) as usize;
        k /= pool.len() as u64;
        out.push(pool.remove(i));
    }
    out
}

/// A built-in condition kept with its static type, so that cloning it (the `*_each` helpers clone their conditions for
/// every element) goes through the crate's OWN `Clone` implementation, not through a rebuild from the case text.
#[derive(Clone)]
pub enum TypedCond {
    Press(Press),
    JustPress(JustPress),
    Release(Release),
    Hold(Hold),
    HoldAndRelease(HoldAndRelease),
    Tap(Tap),
    Pulse(Pulse),
}
impl TypedCond {
    pub fn evaluate(&mut self, a: &ActionsData, t: &Time<Virtual>, v: ActionValue) -> ActionState {
        match self {
            TypedCond::Press(c) => c.evaluate(a, t, v),
            TypedCond::JustPress(c) => c.evaluate(a, t, v),
            TypedCond::Release(c) => c.evaluate(a, t, v),
            TypedCond::Hold(c) => c.evaluate(a, t, v),
            TypedCond::HoldAndRelease(c) => c.evaluate(a, t, v),
            TypedCond::Tap(c) => c.evaluate(a, t, v),
            TypedCond::Pulse(c) => c.evaluate(a, t, v),
        }
    }
    pub fn kind(&self) -> ConditionKind {
        match self {
            TypedCond::Press(c) => c.kind(),
            TypedCond::JustPress(c) => c.kind(),
            TypedCond::Release(c) => c.kind(),
            TypedCond::Hold(c) => c.kind(),
            TypedCond::HoldAndRelease(c) => c.kind(),
            TypedCond::Tap(c) => c.kind(),
            TypedCond::Pulse(c) => c.kind(),
        }
    }
    pub fn into_boxed(self) -> Box<dyn InputCondition> {
        match self {
            TypedCond::Press(c) => Box::new(c),
            TypedCond::JustPress(c) => Box::new(c),
            TypedCond::Release(c) => Box::new(c),
            TypedCond::Hold(c) => Box::new(c),
            TypedCond::HoldAndRelease(c) => Box::new(c),
            TypedCond::Tap(c) => Box::new(c),
            TypedCond::Pulse(c) => Box::new(c),
        }
    }
}

pub fn parse_cond(s: &Sx) -> Box<dyn InputCondition> {
    if let Some(t) = parse_cond_typed(s) {
        return t.into_boxed();
    }
    let (h, a) = s.app();
    match h {
        "c_chord" => with_action!(a[0].int() as usize, A => Box::new(Chord::<A>::default())),
        "c_block_by" => {
            let eo = a[1].boolean();
            with_action!(a[0].int() as usize, A => Box::new(if eo { BlockBy::<A>::events_only() } else { BlockBy::<A>::default() }))
        }
        "c_script" => Box::new(Scripted {
            kind: parse_kind(&a[0]),
            results: a[1].list().iter().map(parse_state).collect(),
            idx: 0,
        }),
        o => panic!("bad cond {o}"),
    }
}

pub fn parse_cond_typed(s: &Sx) -> Option<TypedCond> {
    let (h, a) = s.app();
    Some(match h {
        "c_press" => TypedCond::Press(Press::new(a[0].f())),
        "c_just_press" => TypedCond::JustPress(JustPress::new(a[0].f())),
        "c_release" => TypedCond::Release(Release::new(a[0].f())),
        // the builder methods are applied in an order derived from the text of the condition: every order must
        // configure the same condition
        "c_hold" => {
            let mut c = Hold::new(a[0].f());
            for i in perm(3, text_hash(s)) {
                c = match i {
                    0 => c.one_shot(a[1].boolean()),
                    1 => c.with_actuation(a[2].f()),
                    _ => c.relative_speed(a[3].boolean()),
                };
            }
            TypedCond::Hold(c)
        }
        "c_hold_and_release" => {
            let mut c = HoldAndRelease::new(a[0].f());
            for i in perm(2, text_hash(s)) {
                c = match i {
                    0 => c.with_actuation(a[1].f()),
                    _ => c.relative_speed(a[2].boolean()),
                };
            }
            TypedCond::HoldAndRelease(c)
        }
        "c_tap" => {
            let mut c = Tap::new(a[0].f());
            for i in perm(2, text_hash(s)) {
                c = match i {
                    0 => c.with_actuation(a[1].f()),
                    _ => c.relative_speed(a[2].boolean()),
                };
            }
            TypedCond::Tap(c)
        }
        "c_pulse" => {
            let mut c = Pulse::new(a[0].f());
            for i in perm(4, text_hash(s)) {
                c = match i {
                    0 => c.with_trigger_limit(a[1].int() as u32),
                    1 => c.trigger_on_start(a[2].boolean()),
                    2 => c.with_actuation(a[3].f()),
                    _ => c.relative_speed(a[4].boolean()),
                };
            }
            TypedCond::Pulse(c)
        }
        _ => return None,
    })
}

// ---------------------------------------------------------------------------------------------
// Modifiers

#[derive(Debug)]
pub struct ScriptedMod {
    pub outs: Vec<Option<ActionValue>>, // None = pass through
    pub idx: usize,
}
impl InputModifier for ScriptedMod {
    fn apply(&mut self, _a: &ActionsData, _t: &Time<Virtual>, v: ActionValue) -> ActionValue {
        let r = self.outs.get(self.idx).copied().flatten().unwrap_or(v);
        self.idx += 1;
        r
    }
}

pub struct LoggedMod {
    pub id: i64,
    pub inner: Box<dyn InputModifier>,
    pub log: SharedLog,
}
impl std::fmt::Debug for LoggedMod {
    fn fmt(&self, f: &mut std::fmt::Formatter<'_>) -> std::fmt::Result {
        write!(f, "LoggedMod({}, {:?})", self.id, self.inner)
    }
}
impl InputModifier for LoggedMod {
    fn apply(&mut self, a: &ActionsData, t: &Time<Virtual>, v: ActionValue) -> ActionValue {
        let seen = seen_states(a);
        let r = self.inner.apply(a, t, v);
        self.log.push(LogItem::Mod { id: self.id, vin: v, vout: r, seen });
        r
    }
}

pub fn parse_mod(s: &Sx) -> Box<dyn InputModifier> {
    let (h, a) = s.app();
    match h {
        "m_negate" => Box::new(Negate { x: a[0].boolean(), y: a[1].boolean(), z: a[2].boolean() }),
        "m_scale" => Box::new(Scale::new(Vec3::new(a[0].f(), a[1].f(), a[2].f()))),
        "m_swizzle" => Box::new(match a[0].atom() {
            "YXZ" => SwizzleAxis::YXZ,
            "ZYX" => SwizzleAxis::ZYX,
            "XZY" => SwizzleAxis::XZY,
            "YZX" => SwizzleAxis::YZX,
            "ZXY" => SwizzleAxis::ZXY,
            o => panic!("bad swizzle {o}"),
        }),
        "m_deadzone" => {
            let kind = match a[0].atom() {
                "Radial" => DeadZoneKind::Radial,
                "Axial" => DeadZoneKind::Axial,
                o => panic!("bad dz kind {o}"),
            };
            let mut m = DeadZone::new(kind);
            for i in perm(2, text_hash(s)) {
                m = match i {
                    0 => m.with_lower_threshold(a[1].f()),
                    _ => m.with_upper_threshold(a[2].f()),
                };
            }
            Box::new(m)
        }
        "m_exp" => Box::new(ExponentialCurve::new(Vec3::new(a[0].f(), a[1].f(), a[2].f()))),
        "m_delta_scale" => Box::new(DeltaScale),
        "m_delta_lerp" => Box::new(DeltaLerp::new(a[0].f())),
        "m_accumulate" => with_action!(a[0].int() as usize, A => Box::new(AccumulateBy::<A>::default())),
        "m_script" => Box::new(ScriptedMod {
            outs: a[0]
                .list()
                .iter()
                .map(|o| {
                    let (h, b) = o.app();
                    match h {
                        "MPass" => None,
                        "MSet" => Some(parse_value(&b[0])),
                        x => panic!("bad mod out {x}"),
                    }
                })
                .collect(),
            idx: 0,
        }),
        o => panic!("bad modifier {o}"),
    }
}

// newtype wrappers: Box<dyn ..> does not implement the traits itself
#[derive(Debug)]
pub struct CondBox(pub Box<dyn InputCondition>);
impl InputCondition for CondBox {
    fn evaluate(&mut self, a: &ActionsData, t: &Time<Virtual>, v: ActionValue) -> ActionState {
        self.0.evaluate(a, t, v)
    }
    fn kind(&self) -> ConditionKind {
        self.0.kind()
    }
}
#[derive(Debug)]
pub struct ModBox(pub Box<dyn InputModifier>);
impl InputModifier for ModBox {
    fn apply(&mut self, a: &ActionsData, t: &Time<Virtual>, v: ActionValue) -> ActionValue {
        self.0.apply(a, t, v)
    }
}

pub fn show_item(it: &LogItem, ent: &dyn Fn(Entity) -> i64) -> String {
    match it {
        LogItem::Ev { target, aid, kind, value, state, elapsed, fired } => format!(
            "(mkEv {} {} {} {} {} {} {})",
            ent(*target),
            aid,
            kind,
            show_value(*value),
            show_state(*state),
            show_opt(*elapsed),
            show_opt(*fired)
        ),
        LogItem::Cond { id, vin, res, seen } => {
            format!("(LCond {} {} {} {})", id, show_value(*vin), show_state(*res), show_seen(seen))
        }
        LogItem::Mod { id, vin, vout, seen } => {
            format!("(LMod {} {} {} {})", id, show_value(*vin), show_value(*vout), show_seen(seen))
        }
        LogItem::Mark(m) => format!("(LMark {m})"),
        LogItem::Built(c, e) => format!("(LBuilt {c} {e})"),
    }
}
fn show_seen(seen: &[(usize, ActionState)]) -> String {
    let v: Vec<String> = seen.iter().map(|(a, s)| format!("(pair {} {})", a, show_state(*s))).collect();
    format!("[{}]", v.join(" "))
}
