//! Unit mode: direct calls of the crate's public pure API, one case per input line.
use std::time::Duration;

use bevy::prelude::*;
use bevy_enhanced_input::input_context::context_instance::ActionsData;
use bevy_enhanced_input::prelude::*;

use crate::common::*;
use crate::sexp::{q, Sx};
use crate::with_action;

pub struct UnitCtx {
    world: World,
    log: SharedLog,
    ents: [Entity; 2],
}

impl UnitCtx {
    pub fn new() -> Self {
        let mut world = World::new();
        let log = SharedLog::default();
        world.insert_resource(log.clone());
        register_observers(&mut world);
        let ents = [world.spawn_empty().id(), world.spawn_empty().id()];
        world.flush();
        UnitCtx { world, log, ents }
    }
}

fn secs(x: f64) -> Duration {
    // exact for multiples of 2^-9 s (whole nanoseconds)
    Duration::from_nanos((x * 1e9).round() as u64)
}

/// Time<Virtual> as `bevy_time::virt::advance_with_raw_delta` would leave it.
fn advance(time: &mut Time<Virtual>, real: f64, speed: f64, paused: bool) {
    time.set_relative_speed_f64(speed);
    let max = time.max_delta();
    let mut d = secs(real);
    if d > max {
        d = max;
    }
    let eff = if paused { 0.0 } else { speed };
    let delta = if eff != 1.0 { d.mul_f64(eff) } else { d };
    time.advance_by(delta);
}

pub fn run_case(cx: &mut UnitCtx, case: &Sx) -> String {
    let (h, a) = case.app();
    match h {
        // (uval V T)
        "uval" => {
            let v = parse_value(&a[0]);
            let t = a[1].f();
            let dims = [ActionValueDim::Bool, ActionValueDim::Axis1D, ActionValueDim::Axis2D, ActionValueDim::Axis3D];
            let convs: Vec<String> = dims
                .iter()
                .map(|&d| {
                    let c = v.convert(d);
                    format!("(cv {} {} {})", show_value(c), show_value(c.convert(v.dim())), c.as_bool())
                })
                .collect();
            format!(
                "(rval [{}] {} {} {} {})",
                convs.join(" "),
                v.as_bool(),
                v.is_actuated(t),
                show_dim(v.dim()),
                show_value(ActionValue::zero(v.dim()))
            )
        }
        // (uevnew P C)
        "uevnew" => {
            let e = ActionEvents::new(parse_state(&a[0]), parse_state(&a[1]));
            let names: Vec<&str> = e.iter_names().map(|(n, _)| n).collect();
            format!("(revnew {} [{}])", e.bits(), names.join(" "))
        }
        // (udata AID [ (dstep S DT V) .. ])  : ActionData::update + trigger_events on a bare world
        "udata" => {
            let aid = a[0].int() as usize;
            let mut data = with_action!(aid, A => ActionData::new::<A>());
            let mut time = Time::<Virtual>::default();
            let mut out = vec![format!("(dres {} [])", show_snap(&data))];
            for st in a[1].list() {
                let (_, b) = st.app();
                let s = parse_state(&b[0]);
                time.advance_by(secs(b[1].f64()));
                let v = parse_value(&b[2]);
                data.update(&time, s, v);
                cx.log.take();
                let ents = cx.ents;
                let r = std::panic::catch_unwind(std::panic::AssertUnwindSafe(|| {
                    let mut commands = cx.world.commands();
                    data.trigger_events(&mut commands, &ents);
                    cx.world.flush();
                }));
                let evs: Vec<String> = cx
                    .log
                    .take()
                    .iter()
                    .map(|it| show_item(it, &|e| if e == ents[0] { 0 } else { 1 }))
                    .collect();
                if r.is_err() {
                    out.push("dpanic".into());
                    break;
                }
                out.push(format!("(dres {} [{}])", show_snap(&data), evs.join(" ")));
            }
            format!("(rdata [{}])", out.join(" "))
        }
        // (ucond COND [ (cstep V REALDT SPEED PAUSED) .. ])
        "ucond" => {
            let mut c = parse_cond(&a[0]);
            let actions = ActionsData::default();
            let mut time = Time::<Virtual>::default();
            let mut out = vec![];
            for st in a[1].list() {
                let (_, b) = st.app();
                advance(&mut time, b[1].f64(), b[2].f64(), b[3].boolean());
                out.push(show_state(c.evaluate(&actions, &time, parse_value(&b[0]))).to_string());
            }
            format!("(rcond [{}])", out.join(" "))
        }
        // (umod MOD REFAID EPS [ (mstep V VDT REFSTATE) .. ])
        "umod" => {
            let mut m = parse_mod(&a[0]);
            let refaid = a[1].int();
            let mut time = Time::<Virtual>::default();
            let mut out = vec![];
            for st in a[3].list() {
                let (_, b) = st.app();
                time.advance_by(secs(b[1].f64()));
                let mut actions = ActionsData::default();
                if refaid >= 0 {
                    with_action!(refaid as usize, A => {
                        let mut d = ActionData::new::<A>();
                        d.update(&time, parse_state(&b[2]), ActionValue::zero(ActionValueDim::Bool));
                        actions.insert_action::<A>(d);
                    });
                }
                out.push(show_value(m.apply(&actions, &time, parse_value(&b[0]))));
            }
            format!("(rmod [{}])", out.join(" "))
        }
        // (uexp EX EY EZ [ (mstep V VDT REFSTATE) .. ]) : ExponentialCurve with arbitrary exponents
        "uexp" => {
            let mut m = ExponentialCurve::new(Vec3::new(a[0].f(), a[1].f(), a[2].f()));
            let mut time = Time::<Virtual>::default();
            let actions = ActionsData::default();
            let mut out = vec![];
            for st in a[3].list() {
                let (_, b) = st.app();
                time.advance_by(secs(b[1].f64()));
                out.push(show_value(m.apply(&actions, &time, parse_value(&b[0]))));
            }
            format!("(rmod [{}])", out.join(" "))
        }
        o => panic!("unknown unit case {o}"),
    }
}

#[allow(dead_code)]
fn _unused(_: f32) -> String {
    q(0.0)
}
