"""C08 - a new context ignores inputs that were already held when it was created."""
import itertools
from fractions import Fraction as F
from scen import *

INPUTS = [('key', key(0), dict(keys=[0])), ('ctrl-key', key(1, CONTROL), dict(keys=[1, 102])), ('mbutton', mbutton(0), dict(mbuttons=[0])),
          ('pbutton', pbutton(0), dict(pads=[(0, [0], [])])), ('paxis', paxis(0), dict(pads=[(0, [], [(0, F(1, 2))])])), ('motion', motion(), dict(motion=(F(1), F(0)))),
          # analog inputs resting at a small non-zero value: active ("held") although below every actuation threshold
          ('paxis-low', paxis(1), dict(pads=[(0, [], [(1, F(1, 4))])])), ('paxis-neg', paxis(2), dict(pads=[(0, [], [(2, F(-1, 4))])]))]

def mkraw(active, ui=()):
    keys, mbs, pads_b, pads_a, mo = [], [], [], [], (F(0), F(0))
    for name, _, d in INPUTS:
        if name in active:
            keys += d.get('keys', []); mbs += d.get('mbuttons', [])
            for (_, bts, axs) in d.get('pads', []):
                pads_b += bts; pads_a += axs
            if 'motion' in d: mo = d['motion']
    if 'ctrl-only' in active: keys.append(103)
    if 'k1-only' in active: keys.append(1)
    return raw(keys=sorted(set(keys)), mbuttons=mbs, motion=mo, pads=[pad(0, pads_b, pads_a)], ui=list(ui))

def new_ctx_spec(ids, dimshift=0, grouped=None):
    acts = []
    if grouped:
        # several bindings per action (attached by successive `to` calls): the suppression is per binding, whatever
        # the other bindings of the same action do
        for j, group in enumerate(grouped):
            a = aid((j + dimshift) % 4, j // 4 + 2 * (dimshift % 2), False, j % 2 == 1)
            acts.append(action(ids, a, [bind(ids, INPUTS[i][1], [PROBE], []) for i in group]))
        return spec(acts)
    for j, (name, inp, _) in enumerate(INPUTS):
        a = aid((j + dimshift) % 4, j // 4 + 2 * (dimshift % 2), False, False)
        acts.append(action(ids, a, [bind(ids, inp, [PROBE], [])]))
    return spec(acts)

def upper_spec(ids, L, script):
    # consuming actions on the same inputs, state driven by a scripted explicit condition
    acts = []
    for j, (name, inp, _) in enumerate(INPUTS[:3]):
        a = aid(j % 4, 3, True, False)
        acts.append(action(ids, a, [bind(ids, inp, [PROBE], [])], [], [c_script('KExplicit', script)]))
    return spec(acts)

def scenario_for(rng, held_at_creation, pattern, how_created, with_upper, upper_script, ui_script, position, grouped=None):
    """pattern: list of sets of active inputs for the frames after creation"""
    ids = Ids()
    new_c = 2 if position == 'below' else 6          # priorities -10 / 15
    upper_c = 4 if position == 'below' else 3        # priorities 10 / 0: above or below the new context
    menu = sorted({new_c} | ({upper_c} if with_upper else set()))
    cfg = {(new_c, 0): new_ctx_spec(ids, grouped=grouped)}
    L = len(pattern) + 3
    if with_upper:
        cfg[(upper_c, 0)] = upper_spec(ids, L, (upper_script * L)[:L])
    steps = [sop(spawn(0, [upper_c] if with_upper else []))]
    steps.append(frame(mkraw(set())))                                   # the old context sees a release first
    steps.append(frame(mkraw(held_at_creation)))                         # inputs go down before creation
    if how_created == 'insert':
        steps.append(sop(insert(0, new_c)))
    elif how_created == 'insert-update':
        steps.append(frame(mkraw(held_at_creation), ops=[insert(0, new_c)]))
    else:
        steps.insert(1, sop(insert(0, new_c)))
        steps.append(sop(REBUILD))
    for k, act in enumerate(pattern):
        steps.append(frame(mkraw(act, ui=[ui_script[k % len(ui_script)]] if ui_script else ())))
    return scenario(menu, [0], cfg, steps)

def other_pad_scenario(rng, how_created, tied, own_first):
    """a context tied to gamepad 0 (or unrestricted) is created while ANOTHER gamepad holds the button / axis it binds: for the
    tied context that is not the input it names, so the first press on its own gamepad is reflected at once"""
    ids = Ids()
    sp = spec([action(ids, aid(0, 0, False, False), [bind(ids, pbutton(0), [PROBE], [])]),
               action(ids, aid(1, 0, False, False), [bind(ids, paxis(0), [PROBE], [])])], pad=0 if tied else None)
    def rw(own, other):
        return raw(pads=[pad(0, [0] if own else [], [(0, F(1, 2) if own else F(0))]), pad(1, [0] if other else [], [(0, F(-1) if other else F(0))])])
    steps = [sop(spawn(0, [] if how_created == 'insert' else [2])), frame(rw(False, False)), frame(rw(own_first, True))]
    steps.append(sop(insert(0, 2) if how_created == 'insert' else REBUILD))
    steps += [frame(rw(own_first, True)), frame(rw(True, True)), frame(rw(False, True)), frame(rw(True, True)), frame(rw(False, False)), frame(rw(True, False))]
    return scenario([2], [0], {(2, 0): sp}, steps)

NAMES = [n for n, _, _ in INPUTS]

def cases(tier, rng):
    plen = 4 if tier == 'thorough' else 3
    # one input at a time: held at creation, then every press/release pattern
    for name in NAMES:
        for pattern in itertools.product([0, 1], repeat=plen):
            for how in ('insert', 'rebuild'):
                pat = [({name} if p else set()) for p in pattern]
                yield (scenario_for(rng, {name}, pat, how, False, None, None, 'below'), 'single-input')
    for how in ('insert', 'rebuild'):
        for tied in (True, False):
            for own_first in (False, True):
                yield (other_pad_scenario(rng, how, tied, own_first), 'other-gamepad-held')
    # actions with several bindings, some held at creation and some not, then released one after the other
    n_in = len(INPUTS)
    for grouped in ([[0, 2], [1, 3], [4, 5, 6], [7]], [[0, 1, 2, 3], [4, 6, 7], [5]], [[2, 0], [3, 4], [5, 1], [6, 7]]):
        for held in ({'key'}, {'mbutton', 'ctrl-key'}, {'paxis', 'paxis-low'}, {'key', 'pbutton', 'motion'}):
            for how in ('insert', 'rebuild'):
                pat = [set(held), set(held) | {'mbutton', 'pbutton'}, set(held) - {'key', 'paxis'}, set(), set(held) | {'key'}]
                yield (scenario_for(rng, held, pat, how, False, None, None, 'below', grouped=grouped), 'several-bindings-per-action')
    # Ctrl+K: key first / modifier first / other side modifier
    for first in ({'k1-only'}, {'ctrl-only'}, {'ctrl-key'}):
        for pattern in itertools.product([set(), {'ctrl-key'}, {'k1-only'}, {'ctrl-only'}], repeat=2):
            yield (scenario_for(rng, first, list(pattern) + [{'ctrl-key'}, set(), {'ctrl-key'}], 'insert', False, None, None, 'below'), 'modifier-order')
    # an existing consuming context on the same inputs, above or below; its scripted state goes Fired, Ongoing, None while the input stays down
    for position in ('below', 'above'):
        for script in (['SFired', 'SFired', 'SOngoing', 'SNone', 'SNone', 'SFired'], ['SFired', 'SNone', 'SFired', 'SNone'], ['SNone', 'SFired', 'SFired', 'SNone']):
            for name in NAMES[:3]:
                for how in ('insert', 'insert-update', 'rebuild'):
                    pat = [{name}] * 5 + [set(), {name}, {name}]
                    yield (scenario_for(rng, {name}, pat, how, True, script, None, position), 'contested-%s' % position)
    # a shared context whose last holder left comes back to life (same or another entity) while inputs are held: a new
    # instance, suppressed like any other
    for c in (1, 3):
        for who in (0, 1):
            for held in ({'key'}, {'mbutton', 'pbutton'}, {'paxis-low', 'ctrl-key'}):
                ids = Ids()
                sp = new_ctx_spec(ids)
                cfg = {(c, 0): sp, (c, 1): sp}
                steps = [sop(spawn(0, [c])), sop(spawn(1, [])), frame(mkraw(set())), frame(mkraw(held)), frame(mkraw(set())), frame(mkraw(held)), frame(mkraw(set())),
                         sop(remove(0, c)), frame(mkraw(held)), sop(insert(who, c)), frame(mkraw(held)), frame(mkraw(held | {'motion'})), frame(mkraw(set())), frame(mkraw(held))]
                yield (scenario([c], [0, 1], cfg, steps), 'shared-second-life')
    # UI hover over a held mouse button
    for ui in ([1, 1, 0, 0, 0], [0, 2, 2, 0, 1], [1, 0, 1, 0, 0]):
        for how in ('insert', 'rebuild'):
            yield (scenario_for(rng, {'mbutton', 'motion'}, [{'mbutton', 'motion'}] * 5 + [set(), {'mbutton'}], how, False, None, ui, 'below'), 'ui-masked')
    for _ in range(1500 if tier == 'thorough' else 150):
        held = {n for n in NAMES if rng.random() < .5}
        pat = []
        cur = set(held)
        for _ in range(rng.randint(3, 10)):
            for n in NAMES:
                if rng.random() < .25: cur ^= {n}
            pat.append(set(cur))
        grouped = None
        if rng.random() < .4:
            idx = list(range(n_in)); rng.shuffle(idx); grouped = []
            while idx:
                k = rng.randint(1, 3); grouped.append(idx[:k]); idx = idx[k:]
        yield (scenario_for(rng, held, pat, rng.choice(['insert', 'insert-update', 'rebuild']), rng.random() < .5,
                            [rng.choice(STATES) for _ in range(5)], [rng.choice([0, 0, 1, 2]) for _ in range(4)] if rng.random() < .3 else None,
                            rng.choice(['below', 'above']), grouped=grouped), 'random')

def nontrivial(case, out):
    return 'LMod' in out

STAGES = [dict(name='suppression', mode='app', coq='Check.C08w', profile=('Proofs.JudgeC08P', 'JudgeC08P.profile_C08b', 'C08_app_judgement_sound / C08_app_judgement_transfer'), cases=cases, nontrivial=nontrivial, shard=25,
               exhaustive={'thorough': True, 'quick': True},
               rule='a context with one probed binding per input kind (key, Ctrl+key, mouse button, gamepad button, gamepad axis at 1/2, mouse motion, gamepad axes resting at 1/4 and -1/4) is inserted (directly or through Commands) or rebuilt while a '
                    'chosen subset of its inputs is held; then every press/release pattern of length 3 (quick) / 4 (thorough) per input; Ctrl+K with the key or the modifier pressed first; an existing '
                    'consuming context on the same inputs above or below the new one whose scripted state goes Fired, Ongoing and None while the input stays down; UI hover over a held mouse button; actions with 2-4 bindings (successive `to` calls) of which some are held at creation; a context tied to one gamepad created while another gamepad holds the same button / axis; a shared context coming back to life after its last holder left; random mixes. '
                    'non-trivial = some binding gets driven; distinct = distinct scenario text')]
def route_cases(tier, rng):
    import C19
    for x in C19.held_route_cases(tier, rng):
        yield x

STAGES.append(dict(name='routes', mode='app', coq='Check.C08r', profile=('Proofs.JudgeC08P', 'JudgeC08P.profile_C08rb', 'C08_routes_judgement_sound'), noshrink=True, cases=route_cases, nontrivial=nontrivial, shard=20,
                   exhaustive={'thorough': False, 'quick': False},
                   rule='actions built through the crate\'s binding routes (repeated to() calls, tuples, slices, with_conditions_each / with_modifiers_each) in a context inserted while some of the bound keys are down'))
CLAUSES = {12: 'no new instance was built where the join / leave history requires one (or one was built where it does not): the suppression applies to a new instance', 1: 'a binding was driven although the input it names has been physically active in every frame since its instance was created',
           2: 'a binding was not driven although its input has been inactive at least once since creation', 8: 'panic', 9: 'malformed trace', 10: 'panic'}
def describe(stage, clause): return CLAUSES.get(clause, 'clause %d' % clause)
def matches_known(k, case, verdict): return False
TRUSTED = TRUSTED_BASE
ASSUMES = ['"active" is judged from the raw device state of the scenario (key/button down or axis/delta non-zero, and every required modifier has a variant down), not from what the reader returns after consumption or UI masking']
