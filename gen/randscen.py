"""Broad random scenarios used to validate the model against the implementation."""
from fractions import Fraction as F
from scen import *

def rand_cond(rng, L, aids):
    r = rng.random()
    if r < 0.45:
        return c_script(rng.choice(KINDS), [rng.choice(STATES) for _ in range(L)])
    act = q(rng.choice([F(1, 2), F(1, 4), F(1)]))
    t = q(rng.choice([F(1, 8), F(1, 16), F(1, 4)]))
    rel = b(rng.random() < 0.3)
    k = rng.randrange(9)
    if k == 0: return '(c_press %s)' % act
    if k == 1: return '(c_just_press %s)' % act
    if k == 2: return '(c_release %s)' % act
    if k == 3: return '(c_hold %s %s %s %s)' % (t, b(rng.random() < .5), act, rel)
    if k == 4: return '(c_hold_and_release %s %s %s)' % (t, act, rel)
    if k == 5: return '(c_tap %s %s %s)' % (t, act, rel)
    if k == 6: return '(c_pulse %s %d %s %s %s)' % (t, rng.randrange(4), b(rng.random() < .5), act, rel)
    if k == 7: return '(c_chord %d)' % rng.choice(aids)
    return '(c_block_by %d %s)' % (rng.choice(aids), b(rng.random() < .5))

def rand_mod(rng, L, aids):
    k = rng.randrange(9)
    if k == 0: return '(m_negate %s %s %s)' % tuple(b(rng.random() < .5) for _ in range(3))
    if k == 1: return '(m_scale %s %s %s)' % tuple(q(rng.choice([F(-2), F(0), F(1, 2), F(3), F(1)])) for _ in range(3))
    if k == 2: return '(m_swizzle %s)' % rng.choice(['YXZ', 'ZYX', 'XZY', 'YZX', 'ZXY'])
    if k == 3: return '(m_deadzone Axial %s %s)' % rng.choice([('1/4', '3/4'), ('0/1', '1/1'), ('1/2', '1/1')])
    if k == 4: return 'm_delta_scale'
    if k == 5: return '(m_accumulate %d)' % rng.choice(aids)
    if k == 6: return m_script([None if rng.random() < .5 else rand_value(rng, rng.randrange(4)) for _ in range(L)])
    if k == 7: return PROBE
    return '(m_exp %d %d %d)' % tuple(rng.choice([1, 2]) for _ in range(3))

def rand_input(rng):
    k = rng.randrange(10)
    mods = rng.choice([0, 0, 0, CONTROL, SHIFT, CONTROL | SHIFT, ALT])
    if k < 4: return key(rng.randrange(4), mods)
    if k < 6: return mbutton(rng.randrange(2), mods)
    if k == 6: return motion(mods)
    if k == 7: return wheel(mods)
    if k == 8: return pbutton(rng.randrange(2))
    return paxis(rng.randrange(2))

def rand_raw(rng, prev_keys):
    keys = set(prev_keys)
    for k in list(range(4)) + [100, 101, 102, 103, 104, 105]:
        if rng.random() < 0.3:
            keys ^= {k}
    mb = [k for k in range(2) if rng.random() < 0.3]
    mo = (rng.choice([F(0), F(0), F(1), F(-3, 2)]), rng.choice([F(0), F(0), F(2), F(1, 2)]))
    wh = (F(0), rng.choice([F(0), F(0), F(1), F(-1)]))
    pads = []
    for p in range(2):
        pads.append(pad(p, [k for k in range(2) if rng.random() < 0.3],
                        [(a, rng.choice([F(0), F(0), F(1, 2), F(-1), F(1, 4)])) for a in range(2)] if p == 0 else []))
    ui = [rng.choice([0, 0, 0, 0, 1, 2])]
    return keys, raw(keys, mb, mo, wh, pads, ui)

def gen(rng):
    nctx = rng.randint(1, 3)
    menu = sorted(rng.sample(range(8), nctx))
    ents = [0, 1, 2][:rng.randint(1, 3)]
    L = rng.randint(3, 10)
    ids = Ids()
    cfg = {}
    slots = {}            # per dimension/shape slot allocation
    allaids = []
    def fresh_aid():
        while True:
            a = aid(rng.randrange(4), rng.randrange(4), rng.random() < .5, rng.random() < .3)
            if a not in allaids:
                allaids.append(a)
                return a
    for c in menu:
        per_ctx = [fresh_aid() for _ in range(rng.randint(1, 3))]
        for e in ents:
            if ctx_shared(c) and e != ents[0] and rng.random() < 0.7:
                # shared contexts are built from the first holder; give the others the same config
                pass
            acts = []
            order = per_ctx[:]
            if rng.random() < 0.2: order.append(rng.choice(per_ctx))     # bind an action twice
            for a in order:
                binds = []
                refs = per_ctx + [aid(0, 3)]
                amods = [rand_mod(rng, L, refs) for _ in range(rng.choice([0, 0, 1, 2]))]
                aconds = [rand_cond(rng, L, refs) for _ in range(rng.choice([0, 0, 1, 2]))]
                # ids: action-level first, as scen.action() does
                am = idlist(ids, amods); ac = idlist(ids, aconds)
                for _ in range(rng.randint(0, 3)):
                    binds.append(bind(ids, rand_input(rng), [rand_mod(rng, L, refs) for _ in range(rng.choice([0, 1, 1, 2]))],
                                      [rand_cond(rng, L, refs) for _ in range(rng.choice([0, 0, 1, 2]))]))
                acts.append('(mkAction %d %s %s %s)' % (a, am, ac, lst(binds)))
            cfg[(c, e)] = spec(acts, pad=rng.choice([None, None, 0, 1]))
    steps = []
    keys = set()
    alive = set()
    for i in range(L):
        if rng.random() < 0.5 or i == 0:
            r = rng.random()
            e = rng.choice(ents)
            if r < 0.4 or i == 0:
                o = spawn(e, rng.sample(menu, rng.randint(1, len(menu)))) if e not in alive else insert(e, rng.choice(menu))
                alive.add(e)
            elif r < 0.6: o = remove(e, rng.choice(menu))
            elif r < 0.7:
                o = despawn(e); alive.discard(e)
            elif r < 0.8: o = REBUILD
            else: o = insert(e, rng.choice(menu))
            steps.append(sop(o))
        keys, rw = rand_raw(rng, keys)
        uops = []
        if rng.random() < 0.15:
            uops.append(rng.choice([remove(rng.choice(ents), rng.choice(menu)), insert(rng.choice(ents), rng.choice(menu)), REBUILD]))
        steps.append(frame(rw, rand_dt(rng, maxe=7) if rng.random() < .8 else F(1, 2), rng.choice([F(1), F(1), F(1, 2), F(2), F(0)]),
                           rng.random() < 0.1, rng.randrange(3), uops))
    return scenario(menu, ents, cfg, steps)
