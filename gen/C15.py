"""C15 - bindings read exactly the device, key and modifier combination they name."""
import itertools
from fractions import Fraction as F
from scen import *

MODKEYS = [100, 101, 102, 103, 104, 105, 106, 107]

def one_ctx(ids, binds_inputs, pad=None, a_slot=0):
    acts = []
    for j, inp in enumerate(binds_inputs):
        acts.append((inp, j))
    # non-consuming actions; group inputs four per action (16 non-consuming types per dimension)
    out = []
    for g in range(0, len(binds_inputs), 4):
        a = aid((g // 4) % 4, (g // 16 + a_slot) % 4, False, (g // 4) % 2 == 1)
        out.append(action(ids, a, [bind(ids, inp, [PROBE], []) for inp in binds_inputs[g:g + 4]]))
    return spec(out, pad=pad)

def cases(tier, rng):
    masks = list(range(16))
    # keyboard key and mouse button under all 16 masks, one scenario per subset family of the 8 modifier keys
    ids = Ids()
    inputs = [key(0, m) for m in masks] + [mbutton(0, m) for m in masks]
    cfg = {(0, 0): one_ctx(ids, inputs)}
    subsets = list(itertools.product([0, 1], repeat=8))
    if tier != 'thorough':
        # left / right / both / none per modifier (4^4 = 256) instead of all 256 subsets x 4 = same count; sample half
        rng.shuffle(subsets); subsets = subsets[:96]
    frames_per = 16
    combos = [(sub, kd, un) for sub in subsets for kd in (0, 1) for un in (0, 1)]
    for i in range(0, len(combos), frames_per):
        steps = [sop(spawn(0, [0])), frame(raw())]
        for sub, kd, un in combos[i:i + frames_per]:
            keys = [MODKEYS[j] for j in range(8) if sub[j]] + ([0] if kd else []) + ([5] if un else [])
            steps.append(frame(raw(keys=keys, mbuttons=[0] if kd else [])))
            steps.append(frame(raw()))       # release so that nothing stays suppressed / to vary edges
        yield (scenario([0], [0], cfg, steps), 'modifier-masks')
    # motion / wheel under masks, quiet frames
    ids = Ids()
    inputs = [motion(m) for m in (0, 1, 2, 6, 15)] + [wheel(m) for m in (0, 4, 8, 12)]
    cfg = {(0, 0): one_ctx(ids, inputs)}
    for _ in range(40 if tier == 'thorough' else 8):
        steps = [sop(spawn(0, [0])), frame(raw())]
        for _ in range(12):
            keys = [k for k in MODKEYS if rng.random() < .4]
            mo = (rng.choice([F(0), F(1), F(-3, 2)]), rng.choice([F(0), F(2), F(1, 2)])) if rng.random() < .6 else (F(0), F(0))
            wh = (F(0), rng.choice([F(1), F(-1), F(2)])) if rng.random() < .5 else (F(0), F(0))
            steps.append(frame(raw(keys=keys, motion=mo, wheel=wh), how=rng.randrange(3)))
        yield (scenario([0], [0], cfg, steps), 'motion-wheel')
    # gamepads: Any and Single contexts side by side, 1-3 pads appearing and disappearing
    for _ in range(300 if tier == 'thorough' else 40):
        ids = Ids()
        npads = rng.randint(1, 3)
        pin = [pbutton(0), pbutton(1), paxis(0), paxis(1)]
        cfg = {(0, 0): one_ctx(ids, pin, pad=None), (2, 0): one_ctx(ids, pin, pad=0, a_slot=1), (4, 0): one_ctx(ids, pin, pad=npads - 1, a_slot=2)}
        steps = [sop(spawn(0, [0, 2, 4]))]
        alive = list(range(npads))
        # every pad mentioned once at the start so that it exists
        steps.append(frame(raw(pads=[pad(p) for p in alive])))
        late = 10
        for _ in range(10):
            if len(alive) > 1 and rng.random() < .15:
                alive.remove(rng.choice(alive))
                # a gamepad connected right afterwards takes over the entity slot that was just freed (same index,
                # next generation): a context tied to the gamepad that went away must not adopt it
                if rng.random() < .6:
                    alive.append(late); late += 1
            ps = []
            hot = rng.choice(alive)          # at most one pad reports a non-zero value per axis
            for p in alive:
                axes = [(a, rng.choice([F(-1), F(-1, 2), F(1, 4), F(1)]) if (p == hot and rng.random() < .7) else F(0)) for a in range(2)]
                ps.append(pad(p, [bt for bt in range(2) if rng.random() < .4], axes))
            steps.append(frame(raw(pads=ps)))
        yield (scenario([0, 2, 4], [0], cfg, steps), 'gamepads')
    for x in extra_cases(tier, rng):
        yield x
    for x in mouse_combo_cases(tier, rng):
        yield x
    for x in ui_chord_cases(tier, rng):
        yield x

def extra_cases(tier, rng):
    # (a) a context created while only part of a combination is down: the combination is not active, so the binding is not
    # "held"; once the rest goes down it reads active at once (and a fully held combination stays ignored until released)
    for first, then in (([1], [1, 102]), ([102], [1, 102]), ([1, 103], [1, 103]), ([1], [1, 103, 104]), ([], [1, 102])):
        for how in ('insert', 'rebuild'):
            ids = Ids()
            cfg = {(0, 0): one_ctx(ids, [key(1, CONTROL), key(1), key(1, CONTROL | SHIFT), motion(SHIFT)])}
            mo = (F(1), F(-1, 2))
            steps = [sop(spawn(0, [0] if how == 'rebuild' else [])), frame(raw()), frame(raw(keys=first, motion=mo))]
            steps.append(sop(insert(0, 0) if how == 'insert' else REBUILD))
            steps += [frame(raw(keys=first, motion=mo)), frame(raw(keys=then, motion=mo)), frame(raw(keys=then + [104], motion=mo)), frame(raw(motion=mo)), frame(raw(keys=then))]
            yield (scenario([0], [0], cfg, steps), 'late-context-partial-combination')
    # (b) consuming actions in contexts tied to different gamepads (and an unrestricted one below them): what one consumes
    # on its gamepad hides nothing on the other
    for _ in range(60 if tier == 'thorough' else 12):
        ids = Ids()
        pin = [pbutton(0), paxis(0)]
        def cons(slot, padno):
            return spec([action(ids, aid(j % 2, slot, True, False), [bind(ids, inp, [PROBE], [])]) for j, inp in enumerate(pin)], pad=padno)
        cfg = {(0, 0): cons(0, 0), (4, 0): cons(1, 1)}
        with_any = rng.random() < .5
        if with_any: cfg[(2, 0)] = cons(2, None)
        menu = sorted(c for c, _ in cfg)
        steps = [sop(spawn(0, menu)), frame(raw(pads=[pad(0), pad(1)]))]
        for _ in range(8):
            hot = rng.randrange(2)
            # with an unrestricted context present at most one gamepad reports the axis (the property says nothing else)
            ps = [pad(p, [0] if rng.random() < .6 else [], [(0, rng.choice([F(-1), F(1, 2), F(3, 4)]) if (not with_any or p == hot) else F(0))]) for p in range(2)]
            steps.append(frame(raw(pads=ps)))
        yield (scenario(menu, [0], cfg, steps), 'consuming-per-gamepad')

def mouse_combo_cases(tier, rng):
    # (c) CONSUMING actions on mouse inputs that need modifier keys (Ctrl+click, Shift+wheel, Alt+motion) above, listeners
    # on keyboard / mouse combinations with the same and with other modifiers below: what is consumed (the button / wheel /
    # motion and the modifier keys of the combination) is hidden for the rest of that frame only
    for _ in range(80 if tier == 'thorough' else 16):
        ids = Ids()
        top = [mbutton(0, CONTROL), wheel(SHIFT), motion(ALT)]
        rng.shuffle(top)
        hi = spec([action(ids, aid(j % 4, 0, True, False), [bind(ids, inp, [PROBE], [])]) for j, inp in enumerate(top[:rng.randint(1, 3)])])
        low = [key(1, CONTROL), key(2, SHIFT), key(3, ALT), mbutton(1, CONTROL), mbutton(0, CONTROL), wheel(SHIFT), key(1), key(2, CONTROL | SHIFT)]
        lo = spec([action(ids, aid(j % 4, 1 + j // 4, rng.random() < .25, False), [bind(ids, inp, [PROBE], [])]) for j, inp in enumerate(low)])
        cfg = {(0, 0): hi, (3, 0): lo}
        steps = [sop(spawn(0, [0, 3])), frame(raw())]
        for _ in range(12):
            steps.append(frame(raw(keys=[k for k in [1, 2, 3] if rng.random() < .6] + [k for k in [100, 102, 103, 104] if rng.random() < .6],
                                   mbuttons=[b_ for b_ in [0, 1] if rng.random() < .5],
                                   motion=(rng.choice([F(0), F(1)]), rng.choice([F(0), F(-1, 2)])), wheel=(F(0), rng.choice([F(0), F(0), F(1)]))), how=rng.randrange(3)))
        yield (scenario([0, 3], [0], cfg, steps), 'consuming-mouse-combinations')

def ui_chord_cases(tier, rng):
    # (d) key combinations while a UI element is hovered or pressed: the mouse is captured, the keyboard is not - a key
    # with modifier keys reads exactly as without the UI (mouse bindings in the same context read inactive)
    masks = [0, CONTROL, SHIFT | ALT, CONTROL | SHIFT, SUPER, 15]
    for ui in ([1], [2], [0, 1]):
        ids = Ids()
        inputs = [key(0, m) for m in masks] + [mbutton(0, m) for m in masks[:2]] + [key(1)]
        cfg = {(0, 0): one_ctx(ids, inputs)}
        steps = [sop(spawn(0, [0])), frame(raw())]
        for _ in range(14 if tier == 'thorough' else 8):
            keys = [k for k in MODKEYS if rng.random() < .5] + [k for k in (0, 1) if rng.random() < .8]
            steps.append(frame(raw(keys=keys, mbuttons=[0] if rng.random() < .7 else [], ui=ui if rng.random() < .8 else [])))
            if rng.random() < .3: steps.append(frame(raw()))
        yield (scenario([0], [0], cfg, steps), 'key-combinations-under-ui')

def nontrivial(case, out):
    return 'VB true' in out or 'V1 1' in out or 'V2 ' in out

STAGES = [dict(name='reads', mode='app', coq='Check.C15c', profile=('Proofs.JudgeProfiles', 'JudgeProfiles.prof_C15', 'C15_app_judgement_sound_all (C15_app_judgement_sound / _transfer for non-consuming profiles)'), cases=cases, nontrivial=nontrivial, shard=6,
               exhaustive={'thorough': True, 'quick': False},
               rule='real contexts with non-consuming actions and a probe modifier on every binding; input through the real Bevy input resources/events. '
                    'Keyboard key and mouse button under all 16 modifier masks x subsets of the eight modifier keys (all 256 in thorough, 96 sampled in quick) x bound key up/down x an unrelated key up/down; '
                    'mouse motion and wheel under masks with quiet frames, three injection modes; unrestricted and single-gamepad contexts side by side with 1-3 gamepads disappearing and new ones connecting into the freed entity slot, '
                    'axis values in [-1,1], at most one gamepad non-zero per axis; contexts created while part of a key combination is down; consuming actions in contexts tied to different gamepads; consuming actions on mouse inputs with modifier keys (Ctrl+click, Shift+wheel, Alt+motion) above listeners on keyboard and mouse combinations; key combinations while a UI element is hovered or pressed. non-trivial = some binding reads active; distinct = distinct scenario text')]
CLAUSES = {1: 'a keyboard binding read differs from "key down and, for every required modifier, left or right variant down"',
           2: 'a mouse binding read differs from its specification (button / accumulated motion / wheel under the modifier mask)',
           3: 'a gamepad binding read differs from its specification (single gamepad only; any gamepad: button on any, first non-zero axis)',
           11: 'with consuming actions: a read differs from the raw input of the named device / combination although nothing related was consumed before it (or was not hidden although something was)',
           12: 'a binding of a context created in mid-run was (not) driven although the combination it names was not (was) fully active in every frame since creation',
           8: 'panic', 9: 'malformed trace', 10: 'panic'}
def describe(stage, clause): return CLAUSES.get(clause, 'clause %d' % clause)
def matches_known(k, case, verdict): return False
TRUSTED = TRUSTED_BASE + ['Bevy ButtonInput / AccumulatedMouseMotion / Gamepad modelled as sets and maps']
ASSUMES = ['UI interaction only in the key-combinations-under-ui family; consuming actions only in the per-gamepad and mouse-combination families (judged by the consumption-aware judgement)', 'at most one gamepad reports a non-zero value per axis for unrestricted contexts (the property claims nothing else)']
