"""C12 - every condition and modifier is invoked exactly once per frame, in order."""
from fractions import Fraction as F
from scen import *

def rnd_cond(rng, L):
    return c_script(rng.choice(KINDS), [rng.choice(['SNone', 'SNone', 'SOngoing', 'SFired']) for _ in range(L)])
def rnd_mod(rng, L):
    return m_script([None if rng.random() < .5 else rand_value(rng, rng.randrange(4)) for _ in range(L)])

def gen(rng, L=10):
    nctx = rng.randint(1, 3)
    # one exclusive holder per exclusive type; shared types may have two holders with the same configuration
    menu = sorted(rng.sample(range(8), nctx))
    ids = Ids()
    cfg = {}
    used = []
    # in a quarter of the cases every context is tied to gamepad 0, which is unplugged at some point (for good: a gamepad
    # that connects later is another entity)
    tied = rng.random() < .25
    gone_from = rng.randrange(1, L) if tied else L + 1
    gone_to = L + 1
    holders = {}
    for c in menu:
        acts = []
        for _ in range(rng.randint(1, 3)):
            while True:
                a = aid(rng.randrange(4), rng.randrange(4), rng.random() < .6, rng.random() < .3)
                if a not in used: break
            used.append(a)
            binds = []
            am = [rnd_mod(rng, L) for _ in range(rng.randint(0, 3))]
            ac = [rnd_cond(rng, L) for _ in range(rng.randint(0, 3))]
            amx = idlist(ids, am); acx = idlist(ids, ac)
            for _ in range(rng.randint(0, 3)):
                inp = rng.choice([key(rng.randrange(3)), key(rng.randrange(3)), mbutton(0), key(0, CONTROL), pbutton(0), motion()])
                binds.append(bind(ids, inp, [rnd_mod(rng, L) for _ in range(rng.randint(0, 3))], [rnd_cond(rng, L) for _ in range(rng.randint(0, 3))]))
            acts.append('(mkAction %d %s %s %s)' % (a, amx, acx, lst(binds)))
        s = spec(acts, pad=0 if tied else None)
        hs = [0, 1] if ctx_shared(c) and rng.random() < .5 else [rng.choice([0, 1])]
        holders[c] = hs
        for e in hs:
            cfg[(c, e)] = s
    steps = []
    keys = set()
    spawned = set()
    late = rng.random() < 0.5         # create some contexts while inputs are held
    def pressed(i=0):
        nonlocal keys
        for k in [0, 1, 2, 102]:
            if rng.random() < 0.35: keys ^= {k}
        return raw(keys, [0] if rng.random() < .3 else [], (rng.choice([F(0), F(1)]), F(0)), (0, 0), [] if gone_from <= i < gone_to else [pad(0, [0] if rng.random() < .4 else [])], [])
    first = True
    for c in menu:
        for e in holders[c]:
            if late and not first and rng.random() < .5:
                continue
            steps.append(sop(spawn(e, [c]) if e not in spawned else insert(e, c)))
            spawned.add(e)
            first = False
    for i in range(L):
        steps.append(frame(pressed(i)))
        if late and i == 2:
            for c in menu:
                for e in holders[c]:
                    steps.append(sop(spawn(e, [c]) if e not in spawned else insert(e, c)))
                    spawned.add(e)
        if i == 5 and rng.random() < .3:
            steps.append(sop(REBUILD))
    return scenario(menu, [0, 1], cfg, steps)

def cases(tier, rng):
    for _ in range(2000 if tier == 'thorough' else 300):
        yield (gen(rng, rng.randint(6, 10)), 'random')

def nontrivial(case, out):
    return 'LCond' in out and 'LMod' in out

STAGES = [dict(name='invocations', mode='app', coq='Check.C12c', profile=('Proofs.JudgeC12P', 'JudgeC12P.profile_C12b', 'C12_app_judgement_sound / C12_app_judgement_transfer'), cases=cases, nontrivial=nontrivial, shard=25,
               exhaustive={'thorough': False, 'quick': False},
               rule='fully scripted configurations: 1-3 context types, 1-3 actions each, 0-3 inputs, 0-3 modifiers and 0-3 conditions at each level, every one an instrumented '
                    'scripted condition/modifier with random results (failing blockers, all-None rows, dimension-changing values), contested consuming inputs, inactive inputs, '
                    'contexts created while inputs are held, rebuilds; in a quarter of the cases every context is tied to a gamepad that gets unplugged; 6-10 frames; non-trivial = both conditions and modifiers invoked; distinct = distinct scenario text')]
CLAUSES = {1: 'the invocation log of a frame is not: per evaluated instance in priority order, per action in binding order, per un-suppressed input its modifiers then its conditions, then action-level modifiers, then action-level conditions - each exactly once',
           8: 'panic', 9: 'malformed trace', 10: 'panic'}
def describe(stage, clause): return CLAUSES.get(clause, 'clause %d' % clause)
def matches_known(k, case, verdict): return False
TRUSTED = TRUSTED_BASE + ['the Logged wrappers of the harness delegate faithfully and record every call']
ASSUMES = ['one holder per exclusive type (the order among instances of one exclusive type is fixed by no property)',
           'an input may be skipped only while it has been physically active in every frame since its instance was built (C08)']
