"""C01 - events are the documented function of the transition. Unit stage (ActionData) + app stage."""
import itertools
from fractions import Fraction as F
from scen import *
import C10 as _c10

def unit_cases(tier, rng):
    # all 9 transitions x 4 output types, twice over with different values; then the C10 histories
    for dim in range(4):
        for p, c in itertools.product(STATES, repeat=2):
            steps = ' '.join('(dstep %s %s %s)' % (s, q(dt), rand_value(rng, dim)) for s, dt in [(p, F(1, 8)), (c, F(1, 64)), (p, F(1, 4)), (c, F(0))])
            yield ('(udata %d [%s])' % (aid(dim, 1), steps), 'transition')
    for c in _c10.cases('quick', rng):
        yield c

def app_case(rng, scripts, nctx, nents, with_blocker, L, with_ops=False):
    ids = Ids()
    menu = sorted(rng.sample(range(8), nctx))
    ents = list(range(nents))
    cfg = {}
    used = []
    k = 0
    for c in menu:
        acts_for_ctx = []
        for j in range(rng.randint(1, 2)):
            dim = (k + j) % 4
            a = aid(dim, len([u for u in used if u // 16 == dim]) % 4, False, rng.random() < .3)
            while a in used:
                a = aid(dim, rng.randrange(4), rng.random() < .5, rng.random() < .5)
            used.append(a)
            acts_for_ctx.append(a)
        k += 1
        # every holder of a type gets the same configuration (shared instances are built from one of them)
        def build():
            acts = []
            for a in acts_for_ctx:
                sc = scripts[(len(acts) + c) % len(scripts)]
                sc = (list(sc) * (L // len(sc) + 1))[:L]
                mods = [m_script([None if rng.random() < .3 else rand_value(rng, rng.randrange(4)) for _ in range(L)])]
                conds = [c_script('KExplicit', sc)]
                if with_blocker:
                    conds.append(c_script('(KBlocker true)', [rng.choice(['SFired', 'SFired', 'SNone']) for _ in range(L)]))
                if rng.random() < 0.4:
                    # a plain blocker: when it fails the state drops to None and the terminal event must still be delivered
                    conds.append(c_script('(KBlocker false)', [rng.choice(['SFired', 'SFired', 'SFired', 'SNone']) for _ in range(L)]))
                acts.append(action(ids, a, [], mods, conds))
            return spec(acts)
        if ctx_shared(c):
            sp = build()                  # one instance serves every holder
            for e in ents:
                cfg[(c, e)] = sp
        else:
            for e in ents:
                cfg[(c, e)] = build()     # per-entity instances get their own log ids
    steps = []
    for e in ents:
        steps.append(sop(spawn(e, [c for c in menu if rng.random() < .8] or [menu[0]])))
    # now and then a holder leaves (component removed or entity despawned) or joins between two frames: the others go on
    # from the state they had after the previous frame
    opsat = {}
    if with_ops:
        for _ in range(rng.randint(1, 3)):
            e = rng.choice(ents); c = rng.choice(menu)
            opsat.setdefault(rng.randrange(1, L), []).append(rng.choice([remove(e, c), remove(e, c), despawn(e), insert(e, c)]))
    paused = False
    for i in range(L):
        for o in opsat.get(i, []):
            steps.append(sop(o))
        # now and then the virtual clock is paused: evaluation and delivery go on all the same
        if with_ops and rng.random() < 0.15: paused = not paused
        steps.append(frame(raw(), rand_dt(rng), F(1), paused))
    return scenario(menu, ents, cfg, steps)

def app_cases(tier, rng):
    maxlen = 5 if tier == 'thorough' else 3
    allscripts = [s for n in range(1, maxlen + 1) for s in itertools.product(STATES, repeat=n)]
    # every state script drives some action: pack several scripts per scenario
    for i in range(0, len(allscripts), 3):
        chunk = allscripts[i:i + 3]
        L = max(len(s) for s in chunk)
        yield (app_case(rng, chunk, rng.randint(1, 3), rng.randint(1, 3), i % 2 == 1, L), 'exhaustive-scripts')
    for _ in range(800 if tier == 'thorough' else 80):
        L = rng.randint(5, 30)
        scripts = []
        for _ in range(3):
            st, s = 'SNone', []
            for _ in range(L):
                if rng.random() < 0.4: st = rng.choice(STATES)
                s.append(st)
            scripts.append(s)
        yield (app_case(rng, scripts, rng.randint(1, 3), rng.randint(1, 3), rng.random() < .4, L, rng.random() < .5), 'random')

def nontrivial(case, out):
    return 'EStarted' in out or 'SFired' in out

STAGES = [dict(name='data', mode='unit', coq='Check.C01u', profile=('Proofs.JudgeBoolP', 'JudgeBoolP.c01u_caseb', 'C01_unit_judgement_sound_exact / C01_unit_judgement_transfer (JudgeBoolP.C01u_judgement_transfer_b)'), cases=unit_cases, nontrivial=nontrivial, shard=300,
               exhaustive={'thorough': True, 'quick': True},
               rule='ActionData::update + trigger_events on a bare world with two recipients: all 9 transitions x 4 output types and all state histories of length <= 4; '
                    'kinds, order and every payload field compared'),
          dict(name='frames', mode='app', coq='Check.C01c', profile=('Proofs.JudgeC01P', 'JudgeC01P.profile_C01b', 'C01_app_judgement_sound / C01_app_judgement_transfer'), cases=app_cases, nontrivial=nontrivial, shard=25,
               exhaustive={'thorough': True, 'quick': True},
               rule='real App: 1-3 context types (exclusive and shared), 1-3 entities, actions of all four output types, each driven by a scripted explicit condition, '
                    'a scripted modifier producing values of arbitrary dimension, optionally a scripted events-only blocker and a scripted plain blocker; every state script over {None,Ongoing,Fired} of length '
                    '<= 3 (quick) / <= 5 (thorough) drives some action, plus sticky random scripts of 5..30 frames, half of them with 1-3 component removals / despawns / insertions between frames and with the virtual clock paused for some frames; non-trivial = an episode starts; distinct = distinct scenario text')]

CLAUSES = {1: 'events of a frame are not the transition table of (previous polled state, polled state), Started first, one per holder, payload = polled data (or delivered although events-blocked)',
           2: 'polled event flags differ from the table', 3: 'polled value does not have the declared output type', 4: 'an action event was delivered before the frame\'s evaluation',
           5: 'data polled by the probe after the set / in Update differs from the end of the frame',
           6: 'an operation between two frames (a holder leaving or joining) changed the polled data of an instance it neither built nor removed: the next frame does not start from the state after the previous frame', 8: 'panic', 9: 'malformed trace', 10: 'panic'}
def describe(stage, clause): return CLAUSES.get(clause, 'clause %d' % clause)
def matches_known(k, case, verdict): return False
TRUSTED = TRUSTED_BASE + ['Bevy 0.15 observer dispatch and command flushing (modelled operationally, validated by the traces)']
ASSUMES = ['events-only blockers at action level only in this profile', 'deltas m*2^-e s so that f32 sums are exact']


def blocked_input_cases(tier, rng):
    """several inputs of different significance, events-only blockers at input level: a blocker on an input that does not
    contribute (a less significant one) suppresses nothing - the events of the transition are delivered"""
    import C03
    for c, tag in C03.cases(tier, rng):
        if tag.startswith('random-2') or tag.startswith('random-3'):
            yield (c, 'multi-input-' + tag)
    # explicit: input 0 Ongoing with a failing events-only blocker, input 1 Fired without one (both orders)
    from scen import Ids, bind, key, PROBE, c_script, spec, sop, spawn, frame, raw, scenario, idlist
    for order in (0, 1):
        for lose in ('SOngoing', 'SNone'):
            ids = Ids(); L = 6
            am = idlist(ids, [PROBE]); ac = idlist(ids, [])
            b_lose = lambda: bind(ids, key(0), [PROBE], [c_script('KExplicit', [lose] * (L + 1)), c_script('(KBlocker true)', ['SFired', 'SNone', 'SNone', 'SFired', 'SNone', 'SNone', 'SNone'])])
            b_win = lambda: bind(ids, key(1), [PROBE], [c_script('KExplicit', ['SNone', 'SFired', 'SFired', 'SFired', 'SNone', 'SFired', 'SOngoing'])])
            binds = [b_lose(), b_win()] if order == 0 else [b_win(), b_lose()]
            act = '(mkAction %d %s %s %s)' % (C03.A, am, ac, lst(binds))
            steps = [sop(spawn(0, [0])), frame(raw())] + [frame(raw(keys=[0, 1])) for _ in range(L)]
            yield (scenario([0], [0], {(0, 0): spec([act])}, steps), 'blocker-on-losing-input')

STAGES.append(dict(name='blocked', mode='app', coq='Check.C03c', profile=('Proofs.JudgeC03P', 'JudgeC03P.profile_C03b', 'C03_app_judgement_sound / C03_app_judgement_transfer (the stage is judged by Check.C03c)'),
                   cases=blocked_input_cases, nontrivial=lambda case, out: 'SFired' in out, shard=40, exhaustive={'thorough': False, 'quick': False},
                   rule='one action with 2-3 key inputs whose scripted conditions give them different own states, events-only blockers at input level (also on inputs that do not contribute); the events of a frame are delivered iff no events-only blocker of a CONTRIBUTING input or of the action level failed, and then they are the table of the transition'))
_describe1 = describe
def describe(stage, clause):
    if stage == 'blocked':
        return {1: 'the state is not the law of the contributing and action-level results', 2: 'events were withheld although no applicable events-only blocker failed (or delivered although one did), or their number is not that of the transition table'}.get(clause, 'clause %d' % clause)
    return _describe1(stage, clause)
