"""C10 - durations follow the state history. Unit stage: ActionData::update over histories."""
import itertools
from fractions import Fraction as F
from sx import q
from common import *

def hist_case(a, dim, states, dts, rng):
    steps = ' '.join('(dstep %s %s %s)' % (s, q(dt), rand_value(rng, dim)) for s, dt in zip(states, dts))
    return '(udata %d [%s])' % (a, steps)

def cases(tier, rng):
    maxlen = 6 if tier == 'thorough' else 4
    k = 0
    for n in range(1, maxlen + 1):
        for states in itertools.product(STATES, repeat=n):
            dim = k % 4
            dts = [DT_GRID[(k + i) % 4] for i in range(n)]
            k += 1
            yield (hist_case(aid(dim), dim, states, dts, rng), 'exhaustive-len%d' % n)
    for _ in range(2000 if tier == 'thorough' else 150):
        n = rng.randint(5, 30)
        dim = rng.randrange(4)
        # sticky random walk so that long episodes occur
        st, states = 'SNone', []
        for _ in range(n):
            if rng.random() < 0.45:
                st = rng.choice(STATES)
            states.append(st)
        dts = [rand_dt(rng) for _ in range(n)]
        yield (hist_case(aid(dim, rng.randrange(4), rng.random() < .5, rng.random() < .5), dim, states, dts, rng), 'random')

def app_cases(tier, rng):
    from scen import Ids, action, spec, c_script, sop, spawn, frame, raw, scenario, REBUILD, remove, insert, despawn
    SPEEDS = [F(0), F(1, 4), F(1, 2), F(1), F(1), F(2), F(4)]
    for _ in range(1500 if tier == 'thorough' else 120):
        ids = Ids()
        L = rng.randint(6, 30)
        acts = []
        for j in range(rng.randint(1, 3)):
            st, script = 'SNone', []
            for _ in range(L + 1):
                if rng.random() < 0.4: st = rng.choice(STATES)
                script.append(st)
            conds = [c_script('KExplicit', script)]
            if rng.random() < 0.4:     # events-only blocker: the events are withheld on some frames, the durations must not notice
                conds.append(c_script('(KBlocker true)', [rng.choice(['SFired', 'SFired', 'SNone']) for _ in range(L + 1)]))
            if rng.random() < 0.2:     # plain blocker: forces None on some frames
                conds.append(c_script('(KBlocker false)', [rng.choice(['SFired', 'SFired', 'SFired', 'SNone']) for _ in range(L + 1)]))
            acts.append(action(ids, aid(j % 4, j, False, False), [], [], conds))
        # an action bound again after another one was bound in between (A, B, A - the documented way to extend an
        # action's mappings): still one action, evaluated once per frame
        if len(acts) >= 2 and rng.random() < .4:
            acts.append(action(ids, aid(0, 0, False, False), [], [], []))
        c = rng.choice([0, 1])
        sp = spec(acts)
        # a shared context with three holders, one or two of which leave in mid-run: the durations of the remaining
        # holders go on as if nothing had happened
        holders = [0, 1, 2] if c == 1 and rng.random() < .6 else [0]
        cfg = {(c, e): sp for e in holders}
        steps = [sop(spawn(e, [c])) for e in holders]
        leave = {rng.randrange(1, L): rng.choice([remove(e, c), despawn(e)]) for e in holders[1:] if rng.random() < .7}
        # everybody leaves and somebody comes back: a new life of the context starts from zero
        comeback = len(holders) == 3 and rng.random() < .4
        if comeback:
            k0 = rng.randrange(2, max(3, L - 3))
            leave = {k0: remove(0, c), k0 + 1: remove(1, c), k0 + 2: remove(2, c)}
            back = {k0 + 2: insert(rng.choice([0, 1, 2]), c)}
        else:
            back = {}
        speed, paused = F(1), False
        for i in range(L):
            if rng.random() < 0.25: speed = rng.choice(SPEEDS)
            if rng.random() < 0.15: paused = not paused
            real = rand_dt(rng, maxe=7) if rng.random() < .85 else rng.choice([F(1, 2), F(3, 8)])     # beyond the 250 ms clamp
            if i in leave: steps.append(sop(leave[i]))
            if i in back: steps.append(sop(back[i]))
            steps.append(frame(raw(), real, speed, paused))
            if i == L // 2 and rng.random() < 0.3:
                steps.append(sop(REBUILD))
        yield (scenario([c], holders, cfg, steps), 'virtual-time')

def nontrivial(case, out):
    return ('SFired' in case or 'SOngoing' in case)

STAGES = [dict(name='data', mode='unit', coq='Check.C10c', profile=('Proofs.JudgeBoolP', 'JudgeBoolP.c10_caseb', 'C10_judgement_sound / C10_judgement_transfer (JudgeBoolP.C10_judgement_transfer_b)'), cases=cases, nontrivial=nontrivial, shard=300,
               exhaustive={'thorough': True, 'quick': True},
               rule='ActionData::update + trigger_events driven directly: every state history over {None,Ongoing,Fired} of length <= 6 '
                    '(thorough, 1092) / <= 4 (quick, 120) with deltas cycling through {0,1/64,1/8,1/4}, plus sticky random histories of '
                    'length 5..30 with deltas m*2^-e s (odd m < 8, e <= 9); all four output types; non-trivial = some frame not None; distinct = distinct case text')]

STAGES.append(dict(name='virtual', mode='app', coq='Check.C10a', profile=('Proofs.JudgeC10P', 'JudgeC10P.profile_C10b', 'C10_app_judgement_sound / C10_app_judgement_transfer'), cases=app_cases, nontrivial=nontrivial, shard=25,
                   exhaustive={'thorough': False, 'quick': False},
                   rule='real App with TimeUpdateStrategy::ManualDuration: 1-3 actions driven by sticky scripted states (some with a scripted events-only or plain blocker) over 6-30 frames, real deltas m*2^-e s and some beyond '
                        'the 250 ms clamp, relative speed changing among {0,1/4,1/2,1,2,4}, pauses, a rebuild in the middle; shared contexts with three holders some of which leave in mid-run; polled durations and event payloads are recomputed '
                        'from the polled states and (clamped real delta x speed, 0 while paused)'))
CLAUSES_A = {31: 'an entity that got the context when nobody else held it sees non-zero durations or a state other than None (an earlier instance survived)', 30: 'an operation between two frames (a holder leaving) changed the polled durations / state of an instance it neither built nor removed', 1: 'polled elapsed differs from the sum of virtual deltas since the action left None', 2: 'polled fired differs from the sum of virtual deltas over the latest run of frames whose previous state was Fired',
             3: 'not 0 <= fired <= elapsed', 4: 'durations carried by an event differ from the polled ones', 8: 'panic', 9: 'malformed trace', 10: 'panic'}
CLAUSES = {1: 'polled state is not the state passed to update', 2: 'elapsed differs from the sum of deltas since the action left None',
           3: 'fired differs from the sum of deltas over the latest run of frames whose previous state was Fired',
           4: 'not 0 <= fired <= elapsed', 5: 'durations not zero on a frame whose previous state is None',
           6: 'durations carried by an event differ from the polled ones', 7: 'fresh ActionData has non-zero durations',
           9: 'malformed output', 10: 'panic'}
def describe(stage, clause): return (CLAUSES_A if stage == 'virtual' else CLAUSES).get(clause, 'clause %d' % clause)
def matches_known(k, case, verdict): return False
TRUSTED = TRUSTED_BASE
ASSUMES = ['deltas are m*2^-e s with odd m < 8, e <= 9, up to 250 ms: Duration::as_secs_f32 and the f32 sums are exact on them (9/512 s is not: its nanosecond count needs 25 bits)',
           'f32 overflow of durations after ~1e38 s is outside the model',
           'virtual delta = clamped real delta x relative speed, 0 while paused (Bevy formula), exercised by the app stage']
