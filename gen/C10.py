"""C10 - durations follow the state history. Unit stage: ActionData::update over histories."""
import itertools
from fractions import Fraction as F
from sx import q
from common import *

def hist_case(a, dim, states, dts, rng):
    steps = ' '.join('(dstep %s %s %s)' % (s, q(dt), rand_value(rng, dim)) for s, dt in zip(states, dts))
    return '(udata %d [%s])' % (a, steps)

def cases(tier, rng):
    maxlen = 6 if tier == 'thorough' else 4
    k = 0
    for n in range(1, maxlen + 1):
        for states in itertools.product(STATES, repeat=n):
            dim = k % 4
            dts = [DT_GRID[(k + i) % 4] for i in range(n)]
            k += 1
            yield (hist_case(aid(dim), dim, states, dts, rng), 'exhaustive-len%d' % n)
    for _ in range(2000 if tier == 'thorough' else 150):
        n = rng.randint(5, 30)
        dim = rng.randrange(4)
        # sticky random walk so that long episodes occur
        st, states = 'SNone', []
        for _ in range(n):
            if rng.random() < 0.45:
                st = rng.choice(STATES)
            states.append(st)
        dts = [rand_dt(rng) for _ in range(n)]
        yield (hist_case(aid(dim, rng.randrange(4), rng.random() < .5, rng.random() < .5), dim, states, dts, rng), 'random')

def nontrivial(case, out):
    return ('SFired' in case or 'SOngoing' in case)

STAGES = [dict(name='data', mode='unit', coq='Check.C10c', cases=cases, nontrivial=nontrivial, shard=300,
               exhaustive={'thorough': True, 'quick': True},
               rule='ActionData::update + trigger_events driven directly: every state history over {None,Ongoing,Fired} of length <= 6 '
                    '(thorough, 1092) / <= 4 (quick, 120) with deltas cycling through {0,1/64,1/8,1/4}, plus sticky random histories of '
                    'length 5..30 with deltas m*2^-e s (odd m < 8, e <= 9); all four output types; non-trivial = some frame not None; distinct = distinct case text')]

CLAUSES = {1: 'polled state is not the state passed to update', 2: 'elapsed differs from the sum of deltas since the action left None',
           3: 'fired differs from the sum of deltas over the latest run of frames whose previous state was Fired',
           4: 'not 0 <= fired <= elapsed', 5: 'durations not zero on a frame whose previous state is None',
           6: 'durations carried by an event differ from the polled ones', 7: 'fresh ActionData has non-zero durations',
           9: 'malformed output', 10: 'panic'}
def describe(stage, clause): return CLAUSES.get(clause, 'clause %d' % clause)
def matches_known(k, case, verdict): return False
TRUSTED = TRUSTED_BASE
ASSUMES = ['deltas are m*2^-e s with odd m < 8, e <= 9, up to 250 ms: Duration::as_secs_f32 and the f32 sums are exact on them (9/512 s is not: its nanosecond count needs 25 bits)',
           'f32 overflow of durations after ~1e38 s is outside the model',
           'app-level tie (virtual time = real*speed, pauses) is checked by the app stage once the pipeline model exists']
