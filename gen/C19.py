"""C19 - equivalent binding constructions behave identically; presets match the compass."""
import itertools
from fractions import Fraction as F
from scen import *

# ---- route expressions and their denotation (mirrors coq/Model/Bind.v) ----
def r_single(inp, mods=(), conds=()): return ('single', inp, list(mods), list(conds))
def r_raw(inp): return ('raw', inp)
def r_tuple(*l): return ('tuple', list(l))
def r_slice(kind, inputs): return ('slice', kind, list(inputs))
def r_mods_each(s, mods): return ('mods_each', s, list(mods))
def r_conds_each(s, conds): return ('conds_each', s, list(conds))
def r_cardinal(n, e, s, w): return ('cardinal', n, e, s, w)
def r_bidir(p, n): return ('bidir', p, n)
def r_stick(left): return ('stick', left)

NEG = (-1, '(m_negate true true true)'); SWZ = (-1, '(m_swizzle YXZ)')
def cardinal_d(n, e, s, w):
    return [(i, m + [SWZ], c) for i, m, c in n] + e + [(i, m + [NEG, SWZ], c) for i, m, c in s] + [(i, m + [NEG], c) for i, m, c in w]
def denote(r):
    k = r[0]
    if k == 'single': return [(r[1], list(r[2]), list(r[3]))]
    if k == 'raw': return [(r[1], [], [])]
    if k == 'tuple': return [b for x in r[1] for b in denote(x)]
    if k == 'slice': return [(i, [], []) for i in r[2]]
    if k == 'mods_each': return [(i, m + list(r[2]), c) for i, m, c in denote(r[1])]
    if k == 'conds_each': return [(i, m, c + list(r[2])) for i, m, c in denote(r[1])]
    if k == 'cardinal': return cardinal_d(denote(r[1]), denote(r[2]), denote(r[3]), denote(r[4]))
    if k == 'bidir': return denote(r[1]) + [(i, m + [NEG], c) for i, m, c in denote(r[2])]
    if k == 'stick':
        x, y = (0, 1) if r[1] else (2, 3)
        return [(paxis(x), [], []), (paxis(y), [SWZ], [])]
    if k == 'wasd': return cardinal_d([(key(10), [], [])], [(key(13), [], [])], [(key(12), [], [])], [(key(11), [], [])])
    if k == 'arrows': return cardinal_d([(key(14), [], [])], [(key(17), [], [])], [(key(16), [], [])], [(key(15), [], [])])
    if k == 'dpad': return cardinal_d([(pbutton(4), [], [])], [(pbutton(7), [], [])], [(pbutton(6), [], [])], [(pbutton(5), [], [])])
    raise Exception(k)
def idl(l): return lst(pair(i, x) for i, x in l)
def show(r):
    k = r[0]
    if k == 'single': return '(RSingle (mkBind %s %s %s))' % (r[1], idl(r[2]), idl(r[3]))
    if k == 'raw': return '(RRaw %s)' % r[1]
    if k == 'tuple': return '(RTuple %s)' % lst(show(x) for x in r[1])
    if k == 'slice': return '(RSlice %d %s)' % (r[1], lst(r[2]))
    if k == 'mods_each': return '(RModsEach %s %s)' % (show(r[1]), idl(r[2]))
    if k == 'conds_each': return '(RCondsEach %s %s)' % (show(r[1]), idl(r[2]))
    if k == 'cardinal': return '(RCardinal %s %s %s %s)' % tuple(show(x) for x in r[1:])
    if k == 'bidir': return '(RBidirectional %s %s)' % (show(r[1]), show(r[2]))
    if k == 'stick': return '(RStick %s)' % b(r[1])
    return {'wasd': 'RWasd', 'arrows': 'RArrows', 'dpad': 'RDpad'}[k]
def bind_text(bd): return '(mkBind %s %s %s)' % (bd[0], idl(bd[1]), idl(bd[2]))

def routed_scenario(actions, steps):
    """actions: list of (aid, [routes]) for context 0 on entity 0"""
    acts = ['(mkAction %d [] [] %s)' % (a, lst(bind_text(bd) for r in routes for bd in denote(r))) for a, routes in actions]
    sc = scenario([0], [0], {(0, 0): spec(acts)}, steps)
    rt = lst([pair(pair(0, 0), lst(lst(show(r) for r in routes) for a, routes in actions))])
    return '(routed %s %s)' % (rt, sc)

# ---- equivalent routes for one logical binding sequence ----
def equivalent_routes(rng, logical, each_mods, each_conds=()):
    each_conds = list(each_conds)
    if each_conds:
        # conditions attached to every element through with_conditions_each, on top of the elements' own ones
        n = len(logical)
        base = [r_single(i, m + list(each_mods), c) for i, m, c in logical]
        full = [r_single(i, m + list(each_mods), c + each_conds) for i, m, c in logical]
        out = [('repeated-to-conds', full)]
        if n <= 4:
            out.append(('conds-each-tuple', [r_conds_each(r_tuple(*base), each_conds)]))
            out.append(('conds-each-single', [r_conds_each(b_, each_conds) for b_ in base]))
            if len(each_conds) == 2:
                out.append(('conds-each-twice', [r_conds_each(r_conds_each(r_tuple(*base), each_conds[:1]), each_conds[1:])]))
            if each_mods:
                plain = [r_single(i, m, c) for i, m, c in logical]
                out.append(('mods-and-conds-each', [r_conds_each(r_mods_each(r_tuple(*plain), list(each_mods)), each_conds)]))
        return out
    return _equivalent_routes(rng, logical, each_mods)

def _equivalent_routes(rng, logical, each_mods):
    """logical: list of (input, own mods, own conds); each_mods: modifiers appended to every element"""
    n = len(logical)
    full = [r_single(i, m + each_mods, c) for i, m, c in logical]
    base = [r_single(i, m, c) for i, m, c in logical]
    plain = all(not m and not c for _, m, c in logical)
    out = [('repeated-to', full)]
    if n <= 4: out.append(('flat-tuple', [r_tuple(*full)]))
    if n == 3: out += [('nested-tuple', [r_tuple(full[0], r_tuple(full[1], full[2]))]), ('nested-tuple', [r_tuple(r_tuple(full[0], full[1]), full[2])])]
    if n == 4: out += [('nested-tuple', [r_tuple(r_tuple(full[0], full[1]), r_tuple(full[2], full[3]))]), ('mixed-to', [r_tuple(full[0], full[1]), full[2], r_tuple(full[3])])]
    if n >= 2: out.append(('mixed-to', [full[0], r_tuple(*full[1:])] if n <= 5 else full))
    if each_mods and n <= 4:
        out.append(('mods-each-tuple', [r_mods_each(r_tuple(*base), each_mods)]))
        out.append(('mods-each-nested', [r_mods_each(r_tuple(base[0], r_tuple(*base[1:])), each_mods)] if n >= 2 else [r_mods_each(base[0], each_mods)]))
    if plain:
        inputs = [i for i, _, _ in logical]
        for kind, name in ((0, 'slice'), (1, 'vec'), (2, 'array')):
            if kind == 2 and n > 3: continue
            rr = r_slice(kind, inputs)
            out.append((name + ('-mods-each' if each_mods else ''), [r_mods_each(rr, each_mods) if each_mods else rr]))
        if n >= 2:
            rr = r_tuple(r_slice(0, inputs[:1]), r_slice(1, inputs[1:]))
            out.append(('tuple-of-slices', [r_mods_each(rr, each_mods) if each_mods else rr]))
    return out

def held_route_cases(tier, rng):
    """routes compared on contexts created while one of the inputs is down: several `to` calls, one tuple, slices, and
    conditions / modifiers attached through the *_each helpers - the start-up rule is per binding whatever the route"""
    for _ in range(24 if tier == 'thorough' else 10):
        ids = Ids()
        n = rng.randint(2, 4)
        ks = rng.sample([0, 1, 2, 3], n)
        L = rng.randint(5, 8)
        logical = [(key(k), [(ids.next(), PROBE)], []) for k in ks]
        each_c = [(ids.next(), c_script('KExplicit', ['SFired'] * (L + 3)))] if rng.random() < .5 else []
        heldk = [k for k in ks if rng.random() < .5] or [ks[-1]]
        steps = [sop(spawn(0, [])), frame(raw(pads=[pad(0)])), frame(raw(keys=heldk, pads=[pad(0)])), sop(insert(0, 0))]
        cur = set(heldk)
        for _ in range(L):
            steps.append(frame(raw(keys=sorted(cur), pads=[pad(0)]), rand_dt(rng)))
            for k in ks:
                if rng.random() < .3: cur ^= {k}
        a = aid(rng.randrange(4), 0, False, rng.random() < .3)
        variants = equivalent_routes(rng, logical, [], each_c)
        yield ('(rmulti [%s])' % ' '.join(routed_scenario([(a, routes)], steps) for _, routes in variants), 'routes-created-while-held')

def repeated_input_cases(tier, rng):
    """the same input bound more than once in one list: every occurrence is a binding of its own (with Cumulative
    accumulation they add up), whatever the route - tuple, repeated calls, slice, Vec, array"""
    for _ in range(30 if tier == 'thorough' else 8):
        n = rng.randint(2, 4)
        ks = [rng.choice([0, 1, 2]) for _ in range(n - 1)]
        ks.insert(rng.randrange(n), rng.choice(ks))            # at least one repeat
        inputs = [key(k) if rng.random() < .8 else rng.choice([mbutton(0), paxis(0)]) for k in ks]
        logical = [(i, [], []) for i in inputs]
        a = aid(rng.choice([1, 2, 3]), 0, False, False)        # Cumulative, numeric output
        steps = rand_frames(rng, rng.randint(5, 8), keys=(0, 1, 2))
        variants = _equivalent_routes(rng, logical, [])
        yield ('(rmulti [%s])' % ' '.join(routed_scenario([(a, routes)], steps) for _, routes in variants), 'repeated-inputs-x%d' % len(variants))

def held_preset_cases(tier, rng):
    """presets against their hand-written expansion on contexts created (or rebuilt) while sticks are deflected / keys are
    down: the bindings a preset produces start out ignored like any other binding"""
    def handwritten(r):
        return [r_single(i, m, c) for i, m, c in denote(r)]
    for _ in range(24 if tier == 'thorough' else 8):
        kind = rng.choice(['stick-left', 'stick-right', 'cardinal', 'bidir', 'dpad'])
        if kind.startswith('stick'): r = r_stick(kind == 'stick-left')
        elif kind == 'cardinal': r = ('cardinal', r_raw(key(0)), r_raw(key(1)), r_raw(key(2)), r_raw(key(3)))
        elif kind == 'bidir': r = ('bidir', r_raw(key(0)), r_raw(paxis(1)))
        else: r = ('dpad',)
        def rnd_raw():
            return raw(keys=[k for k in range(4) if rng.random() < .5],
                       pads=[pad(0, [b_ for b_ in range(4, 8) if rng.random() < .4], [(a_, rng.choice([F(0), F(1, 2), F(-1), F(1, 4)])) for a_ in range(4)])])
        how = rng.choice(['insert', 'rebuild'])
        held = rnd_raw()
        steps = [sop(spawn(0, [0] if how == 'rebuild' else [])), frame(raw(pads=[pad(0)])), frame(held), sop(insert(0, 0) if how == 'insert' else REBUILD), frame(held), frame(held)]
        for _ in range(rng.randint(4, 7)):
            steps.append(frame(rnd_raw() if rng.random() < .8 else raw(pads=[pad(0)])))
        a = aid(rng.choice([2, 2, 3, 1]), 0, False, rng.random() < .3)
        yield ('(rmulti [%s %s])' % (routed_scenario([(a, [r])], steps), routed_scenario([(a, handwritten(r))], steps)), 'presets-created-while-held')

def timed_each_cases(tier, rng):
    """stateful built-in conditions with non-default settings (Hold / Tap / HoldAndRelease / Pulse measured in the virtual
    time base, one-shot, limits) attached to every element through with_conditions_each, against the same conditions
    attached per input, under time dilation and pauses: the helper hands every element the condition as configured"""
    for _ in range(30 if tier == 'thorough' else 10):
        ids = Ids()
        n = rng.randint(1, 3)
        ks = rng.sample([0, 1, 2, 3], n)
        logical = [(key(k), [(ids.next(), PROBE)], []) for k in ks]
        rel = 'true' if rng.random() < .75 else 'false'
        cond = rng.choice(['(c_hold 1/8 false 1/2 %s)' % rel, '(c_hold 1/16 true 1/2 %s)' % rel, '(c_tap 1/8 1/2 %s)' % rel,
                           '(c_hold_and_release 1/8 1/2 %s)' % rel, '(c_pulse 1/16 2 true 1/2 %s)' % rel, '(c_pulse 1/8 0 false 1/2 %s)' % rel])
        each_c = [(ids.next(), cond)]
        steps = [sop(spawn(0, [0])), frame(raw(pads=[pad(0)]))]
        cur = set(); speed = rng.choice([F(1, 2), F(2), F(1, 4), F(4)])
        for i in range(rng.randint(8, 14)):
            for k in ks:
                if rng.random() < .3: cur ^= {k}
            if rng.random() < .15: speed = rng.choice([F(1, 2), F(2), F(1), F(1, 4)])
            steps.append(frame(raw(keys=sorted(cur), pads=[pad(0)]), rng.choice([F(1, 32), F(1, 16)]), speed, rng.random() < .1))
        a = aid(rng.randrange(4), 0, False, rng.random() < .3)
        variants = equivalent_routes(rng, logical, [], each_c)
        yield ('(rmulti [%s])' % ' '.join(routed_scenario([(a, routes)], steps) for _, routes in variants), 'timed-conditions-each')

def rand_frames(rng, L, keys=(0, 1, 2, 3)):
    steps = [sop(spawn(0, [0])), frame(raw(pads=[pad(0)]))]
    for _ in range(L):
        steps.append(frame(raw(keys=[k for k in keys if rng.random() < .5], mbuttons=[0] if rng.random() < .4 else [],
                               motion=(rng.choice([F(0), F(1)]), F(0)), pads=[pad(0, [0] if rng.random() < .5 else [], [(0, rng.choice([F(0), F(1, 2)]))])]), rand_dt(rng)))
    return steps

def cases(tier, rng):
    for c, tag in _cases(tier, rng):
        yield (c if c.startswith('(rmulti') else '(rmulti [%s])' % c, tag)

def _cases(tier, rng):
    # (a) construction routes
    for _ in range(120 if tier == 'thorough' else 25):
        ids = Ids()
        n = rng.randint(1, 4)
        plain = rng.random() < .4
        L = rng.randint(4, 8)
        pool = [key(0), key(1), key(2, CONTROL), key(3), mbutton(0), motion(), pbutton(0), paxis(0)]
        logical = []
        for _ in range(n):
            inp = rng.choice(pool)
            if plain: logical.append((inp, [], []))
            else:
                logical.append((inp, [(ids.next(), m_script([None if rng.random() < .5 else rand_value(rng, rng.randrange(4)) for _ in range(L + 1)]))] if rng.random() < .6 else [],
                                [(ids.next(), c_script(rng.choice(KINDS), [rng.choice(STATES) for _ in range(L + 1)])) for _ in range(rng.choice([0, 1, 1, 2]))]))
        each = [(ids.next(), rng.choice(['(m_negate true false false)', '(m_scale 1/2 3/1 1/1)', '(m_swizzle YXZ)']))] if rng.random() < .6 else []
        if each and rng.random() < .4: each.append((ids.next(), '(m_scale -2/1 1/1 1/1)'))
        each_c = [(ids.next(), c_script(rng.choice(KINDS), [rng.choice(STATES) for _ in range(L + 1)])) for _ in range(rng.choice([0, 0, 1, 2]))]
        st = rng.getstate()
        steps = rand_frames(rng, L)
        a = aid(rng.randrange(4), 0, rng.random() < .5, rng.random() < .3)
        variants = equivalent_routes(rng, logical, each, each_c)
        yield ('(rmulti [%s])' % ' '.join(routed_scenario([(a, routes)], steps) for _, routes in variants), 'routes-x%d' % len(variants))
    for x in held_route_cases(tier, rng):
        yield x
    for x in repeated_input_cases(tier, rng):
        yield x
    for x in timed_each_cases(tier, rng):
        yield x
    for x in held_preset_cases(tier, rng):
        yield x
    # binding an action a second time extends it in place: P (consuming), Q (same key, listens), then P again with one more
    # input; whether Q sees the key depends on P keeping its place in the evaluation order
    for _ in range(40 if tier == 'thorough' else 10):
        ids = Ids()
        P = aid(rng.randrange(4), 1, True, False); Q = aid(rng.randrange(4), 2, False, False); R = aid(0, 3, False, False)
        k0, k1 = rng.sample([0, 1, 2, 3], 2)
        steps = rand_frames(rng, rng.randint(5, 9))
        first = [r_single(key(k0), [(ids.next(), PROBE)], [])]
        again = [r_single(key(k1), [(ids.next(), PROBE)], [])]
        qb = [r_single(key(k0), [(ids.next(), PROBE)], []), r_single(key(k1), [(ids.next(), PROBE)], [(ids.next(), '(c_block_by %d false)' % P)])]
        rb = [r_single(key(k1), [(ids.next(), PROBE)], [(ids.next(), '(c_chord %d)' % P)])]
        # the same action bound once with both inputs must behave identically
        yield ('(rmulti [%s %s])' % (routed_scenario([(P, first + again), (Q, qb), (R, rb)], steps),
                                     routed_scenario([(P, first), (Q, qb), (R, rb), (P, again)], steps)), 'rebind-in-place')
    # (b) presets: Cardinal from four arbitrary distinct keys, all assignments, every subset of directions
    A2 = aid(2, 0, False, False)
    def compass_steps(inputs_down):
        steps = [sop(spawn(0, [0])), frame(raw(pads=[pad(0)]))]
        for sub in itertools.product([0, 1], repeat=4):
            steps.append(frame(inputs_down(sub)))
        return steps
    perms = list(itertools.permutations([0, 1, 2, 3]))
    if tier != 'thorough': perms = perms[::4]
    for p in perms:
        r = ('cardinal', r_raw(key(p[0])), r_raw(key(p[1])), r_raw(key(p[2])), r_raw(key(p[3])))
        yield (routed_scenario([(A2, [r])], compass_steps(lambda sub: raw(keys=[p[i] for i in range(4) if sub[i]], pads=[pad(0)]))), 'cardinal-keys')
    for out_dim in (1, 2, 3):
        r = ('cardinal', r_raw(key(0)), r_raw(key(1)), r_raw(key(2)), r_raw(key(3)))
        yield (routed_scenario([(aid(out_dim, 1, False, False), [r])], compass_steps(lambda sub: raw(keys=[i for i in range(4) if sub[i]], pads=[pad(0)]))), 'cardinal-other-output')
    r = ('cardinal', r_raw(pbutton(0)), r_raw(pbutton(1)), r_raw(pbutton(2)), r_raw(pbutton(3)))
    yield (routed_scenario([(A2, [r])], compass_steps(lambda sub: raw(pads=[pad(0, [i for i in range(4) if sub[i]])]))), 'cardinal-buttons')
    # slices of two keys per direction (as the type's documentation shows)
    r = ('cardinal', r_slice(1, [key(0), key(4)]), r_slice(1, [key(1), key(5)]), r_slice(1, [key(2), key(6)]), r_slice(1, [key(3), key(7)]))
    yield (routed_scenario([(A2, [r])], compass_steps(lambda sub: raw(keys=[i + 4 * (j % 2) for j, i in enumerate(range(4)) if sub[i]], pads=[pad(0)]))), 'cardinal-slices')
    for pz, ng in ((0, 1), (3, 2)):
        r = ('bidir', r_raw(key(pz)), r_raw(key(ng)))
        for out_dim in (1, 2):
            yield (routed_scenario([(aid(out_dim, 2, False, False), [r])], compass_steps(lambda sub: raw(keys=[i for i in range(4) if sub[i]], pads=[pad(0)]))), 'bidirectional')
    # (c) presets over fields that are already decorated bindings, *_each wrappers or two-dimensional inputs, against the
    # hand-written sequence the documentation gives (north: swizzle, south: negate + swizzle, west / negative: negate all
    # axes; whatever the field carried is kept)
    def preset_frames(L):
        steps = [sop(spawn(0, [0])), frame(raw(pads=[pad(0)]))]
        for _ in range(L):
            steps.append(frame(raw(keys=[k for k in range(8) if rng.random() < .45], mbuttons=[0] if rng.random() < .4 else [],
                                   motion=(rng.choice([F(0), F(1), F(-1, 2)]), rng.choice([F(0), F(1, 2)])) if rng.random() < .5 else (F(0), F(0)),
                                   wheel=(F(0), rng.choice([F(1), F(-1)])) if rng.random() < .5 else (F(0), F(0)), pads=[pad(0)]), rand_dt(rng)))
        return steps
    def field(ids, L, k, two_d=False):
        r = rng.random()
        if two_d and r < .5: return r_raw(rng.choice([wheel(), motion()]))
        if two_d and r < .7: return r_single(key(k), [(ids.next(), '(m_swizzle YXZ)')], [])
        if r < .2: return r_raw(key(k))
        if r < .65:
            return r_single(key(k), [(ids.next(), rng.choice(['(m_scale 3/1 3/1 3/1)', '(m_scale 1/2 2/1 1/1)', '(m_swizzle YXZ)']))] if rng.random() < .7 else [],
                            [(ids.next(), rng.choice(['(c_just_press 1/2)', '(c_press 1/2)', c_script('KExplicit', [rng.choice(STATES) for _ in range(L + 1)])]))] if rng.random() < .6 else [])
        if r < .85: return r_mods_each(r_slice(1, [key(k), key(k + 4)]), [(ids.next(), '(m_scale 2/1 2/1 2/1)')])
        return r_conds_each(r_tuple(r_raw(key(k)), r_raw(key(k + 4))), [(ids.next(), '(c_press 1/2)')])
    def handwritten(r):
        return [r_single(i, m, c) for i, m, c in denote(r)]
    for _ in range(60 if tier == 'thorough' else 16):
        ids = Ids(); L = rng.randint(6, 10)
        r = ('cardinal', field(ids, L, 0), field(ids, L, 1), field(ids, L, 2), field(ids, L, 3))
        a = aid(rng.choice([2, 2, 3, 1]), 0, False, rng.random() < .3)
        steps = preset_frames(L)
        yield ('(rmulti [%s %s])' % (routed_scenario([(a, [r])], steps), routed_scenario([(a, handwritten(r))], steps)), 'cardinal-decorated-fields')
    for _ in range(60 if tier == 'thorough' else 16):
        ids = Ids(); L = rng.randint(6, 10)
        r = ('bidir', field(ids, L, 0, rng.random() < .3), field(ids, L, 1, True))
        a = aid(rng.choice([2, 2, 3, 1]), 0, False, rng.random() < .3)
        steps = preset_frames(L)
        yield ('(rmulti [%s %s])' % (routed_scenario([(a, [r])], steps), routed_scenario([(a, handwritten(r))], steps)), 'bidirectional-2d-and-decorated')
    # built-in key sets and sticks
    for name, downs in (('wasd', lambda sub: raw(keys=[10 + i for i in range(4) if sub[i]], pads=[pad(0)])), ('arrows', lambda sub: raw(keys=[14 + i for i in range(4) if sub[i]], pads=[pad(0)])),
                        ('dpad', lambda sub: raw(pads=[pad(0, [4 + i for i in range(4) if sub[i]])]))):
        yield (routed_scenario([(A2, [(name,)])], compass_steps(downs)), 'builtin-' + name)
    for left in (True, False):
        steps = [sop(spawn(0, [0])), frame(raw(pads=[pad(0)]))]
        for x, y in itertools.product([F(-1), F(0), F(1, 2)], repeat=2):
            ax = [(0, x), (1, y)] if left else [(2, x), (3, y)]
            steps.append(frame(raw(pads=[pad(0, [], ax)])))
        yield (routed_scenario([(A2, [r_stick(left)])], steps), 'stick')

def nontrivial(case, out):
    return 'SFired' in out

STAGES = [dict(name='routes', mode='app', coq='Check.C19m', profile=('Proofs.JudgeC19P', 'JudgeC19P.profile_C19mb', 'C19_routes_judgement_sound (needs in addition that all routes of a case carry the same scenario: every family except rebind-in-place) / C19_app_judgement_transfer per route'), noshrink=True, cases=cases, nontrivial=nontrivial, shard=20,
               exhaustive={'thorough': False, 'quick': False},
               rule='(a) for each of 25 (quick) / 120 (thorough) generated logical binding sequences of 1-4 inputs (with own scripted modifiers/conditions and 0-2 modifiers attached to every element), the action is '
                    'built through every route of the menu that denotes it - repeated to() calls, flat tuple, nested tuples, mixed calls, with_modifiers_each over tuples, slices, &Vec, arrays, tuples of slices - all through '
                    'the crate\'s own InputBindSet impls, and run on the same random script; every trace must equal the model\'s run of the logical sequence. with_conditions_each (once, twice, combined with with_modifiers_each) over elements that already carry conditions; an action bound, others bound, then the first bound again with one more input while a later action listens on its consumed key; routes compared on contexts created while one of the inputs is held; lists in which the same input occurs more than once (every occurrence counts); built-in timed conditions in the virtual time base attached through with_conditions_each under time dilation and pauses; presets against their hand-written expansion on contexts created or rebuilt while sticks are deflected / keys are down. (b) Cardinal built from four arbitrary distinct keys in every '
                    '(quick: every 4th) assignment, from gamepad buttons, from two-key Vecs per direction, on all output types; Bidirectional; both sticks; the built-in WASD / arrow / d-pad sets; every subset of directions pressed. (c) Cardinal and Bidirectional whose fields are decorated bindings (own modifiers / conditions), *_each wrappers over slices and tuples, mouse wheel / motion or swizzled keys (two-dimensional values on the negative side), each compared with the hand-written sequence of the documentation. '
                    'non-trivial = some action fires; distinct = distinct case text')]
CLAUSES = {1: 'internal: a route of the generator does not denote the logical binding sequence of the case (Model/Bind.denote)', 2: 'a preset does not match the compass: expected (east - west, north - south) / (positive - negative)', 3: 'two construction routes that denote the same binding sequence (or binding an action once vs. twice) behave differently',
           8: 'panic', 9: 'malformed trace', 10: 'panic'}
def describe(stage, clause): return CLAUSES.get(clause, 'clause %d' % clause)
def matches_known(k, case, verdict): return False
TRUSTED = TRUSTED_BASE + ['the route AST of coq/Model/Bind.v is a reading of the Rust trait impls (type-level programs); it is tied to them only by this behavioural comparison (partial)',
                          'DynSet in the harness erases static types only; every route goes through the crate\'s tuple / slice / array / Vec / *_each / preset impls']
ASSUMES = ['tuples up to 4 elements and 1-2 modifiers per *_each in the harness menu']
