"""C17 - input-disjoint contexts do not interfere; evaluation is deterministic."""
from fractions import Fraction as F
from scen import *
import randscen

R_INPUTS = [key(0), key(1), key(0, CONTROL), key(1, SUPER), mbutton(0), mbutton(0, CONTROL), motion(), motion(CONTROL), pbutton(0), paxis(0)]
D_INPUTS = [key(2), key(3), key(2, SHIFT), key(3, ALT), mbutton(1), mbutton(1, SHIFT), wheel(), wheel(ALT), pbutton(1), paxis(1)]
NOISE_KEYS = [6, 7, 9]

def gen_pair(rng):
    n = rng.randint(2, 5)
    menu = sorted(rng.sample(range(8), n))
    nd = rng.randint(1, n - 1)
    D = set(rng.sample(menu, nd))
    ents = [0, 1][:rng.randint(1, 2)]
    L = rng.randint(4, 10)
    ids = Ids(); used = []
    cfg = {}
    for c in menu:
        pool = D_INPUTS if c in D else R_INPUTS
        def build():
            acts = []
            for _ in range(rng.randint(1, 3)):
                while True:
                    a = aid(rng.randrange(4), rng.randrange(4), rng.random() < .6, rng.random() < .3)
                    if a not in used: break
                used.append(a)
                refs = [a]
                am = idlist(ids, [randscen.rand_mod(rng, L, refs) for _ in range(rng.choice([0, 1]))])
                ac = idlist(ids, [randscen.rand_cond(rng, L, refs) for _ in range(rng.choice([0, 0, 1]))])
                binds = [bind(ids, rng.choice(pool), [PROBE] + [randscen.rand_mod(rng, L, refs) for _ in range(rng.choice([0, 1]))],
                              [randscen.rand_cond(rng, L, refs) for _ in range(rng.choice([0, 0, 1]))]) for _ in range(rng.randint(1, 3))]
                acts.append('(mkAction %d %s %s %s)' % (a, am, ac, lst(binds)))
            return spec(acts, pad=rng.choice([None, 0]))
        if ctx_shared(c):
            s = build()
            for e in ents: cfg[(c, e)] = s
        else:
            for e in ents: cfg[(c, e)] = build()
    def steps_for(noise):
        rs = rng.getstate()
        steps = []
        keys = set()
        for e in ents:
            steps.append(sop(spawn(e, [c for c in menu])))
        steps.append(frame(raw(pads=[pad(0)])))
        for i in range(L):
            for k in [0, 1, 2, 3, 100, 102, 103, 104, 106]:
                if rng.random() < .3: keys ^= {k}
            ks = set(keys)
            mb = [k for k in range(2) if rng.random() < .4]
            mo = (rng.choice([F(0), F(1)]), rng.choice([F(0), F(1, 2)]))
            wh = (F(0), rng.choice([F(0), F(1)]))
            pb = [k for k in range(2) if rng.random() < .4]
            pa = [(0, rng.choice([F(0), F(1, 2)])), (1, rng.choice([F(0), F(-1)]))]
            if noise:
                ks |= {k for k in NOISE_KEYS if (i + k) % 2}
                # modifier keys that no remaining binding requires (Shift and Alt belong to the deleted contexts) are
                # unbound activity like any other key
                ks |= {k for k in (101, 105) if (i + k) % 3 == 0}
                mb = mb + [2]
                pb = pb + [3]
                pa = pa + [(3, F(1, 4))]
            steps.append(frame(raw(ks, mb, mo, wh, [pad(0, pb, pa)], []), rand_dt(rng, maxe=7), how=i % 3))
            if i == L // 2:
                c = rng.choice(menu)
                steps.append(sop(rng.choice([remove(0, c), REBUILD, insert(0, c)])))
        rng.setstate(rs)
        return steps
    st = rng.getstate()
    full = scenario(menu, ents, cfg, steps_for(False))
    rng.setstate(st)
    sub_steps = steps_for(True)
    # advance the generator state as the full run did
    sub = scenario([c for c in menu if c not in D], ents, {k: v for k, v in cfg.items() if k[0] not in D}, sub_steps)
    # consume randomness deterministically for the next case
    rng.random()
    return '(multi [%s %s %s])' % (full, sub, full)

def gen_gamepad_pair(rng):
    """contexts tied to different gamepads binding the SAME buttons and axes are input-disjoint: deleting the consuming
    one on gamepad 1 changes nothing for the listener on gamepad 0"""
    ids = Ids()
    hi, lo = rng.choice([(0, 3), (1, 2), (6, 7), (4, 5)])          # hi has the higher priority
    L = rng.randint(5, 9)
    def ctx(slot, padno, consume):
        return spec([action(ids, aid(j % 2, slot, consume, False), [bind(ids, inp, [PROBE], [])]) for j, inp in enumerate([pbutton(0), paxis(0)])], pad=padno)
    cfg = {(hi, 0): ctx(0, 1, True), (lo, 0): ctx(1, 0, rng.random() < .5)}
    raws = [raw(pads=[pad(p, [0] if rng.random() < .6 else [], [(0, rng.choice([F(0), F(1, 2), F(-1)]))]) for p in range(2)]) for _ in range(L)]
    def steps(menu):
        return [sop(spawn(0, menu)), frame(raw(pads=[pad(0), pad(1)]))] + [frame(r) for r in raws]
    full = scenario(sorted([hi, lo]), [0], cfg, steps(sorted([hi, lo])))
    sub = scenario([lo], [0], {k: v for k, v in cfg.items() if k[0] == lo}, steps([lo]))
    return '(multi [%s %s %s])' % (full, sub, full)

def gen_entity_pair(rng):
    """per-player instances of one exclusive type with disjoint bindings (and a rebuild in the middle): the instance of
    player 0 behaves the same whether or not player 1 exists"""
    ids = Ids()
    c = rng.choice([0, 2, 4, 6])
    L = rng.randint(6, 10)
    def player(pool):
        ks = rng.sample(pool, 2)
        return spec([action(ids, aid(j % 2, 0, rng.random() < .5, False), [bind(ids, key(k), [PROBE], [])]) for j, k in enumerate(ks)])
    first = rng.choice([0, 1])                     # which player comes first in the group
    cfg = {(c, 0): player([0, 1]), (c, 1): player([2, 3])}
    raws = [raw(keys=[k for k in range(4) if rng.random() < .5]) for _ in range(L)]
    def steps(ents):
        order = [e for e in ([first, 1 - first]) if e in ents]
        st = [sop(spawn(e, [c])) for e in order] + [frame(raw())]
        for i, r in enumerate(raws):
            st.append(frame(r))
            if i == L // 2: st.append(sop(REBUILD)); st.append(frame(raw()))
        return st
    kept = rng.choice([0, 1])
    full = scenario([c], [0, 1], cfg, steps([0, 1]))
    sub = scenario([c], [kept], {k: v for k, v in cfg.items() if k[1] == kept}, steps([kept]))
    return '(multi [%s %s %s])' % (full, sub, full)

def gen_late_pair(rng):
    """a consuming context above and a listener below share a key; an input-disjoint context of a priority in between arrives
    (its bindings still under the start-up test) just before the key goes down, or leaves again: deleting it changes nothing"""
    ids = Ids()
    cs = sorted(rng.sample([0, 2, 4, 6, 1, 3], 3), key=lambda c: -CTX_PRIO[c])      # hi, mid, lo by priority
    hi, mid, lo = cs
    k = rng.randrange(2)
    def one(a_, inp, consume):
        return spec([action(ids, aid(a_ % 4, a_ // 4, consume, False), [bind(ids, inp, [PROBE], [])])])
    cfg = {(hi, 0): one(0, key(k), True), (lo, 0): one(1, key(k), rng.random() < .5), (mid, 0): one(2, rng.choice([key(2), key(3), mbutton(1), wheel()]), rng.random() < .5)}
    L = rng.randint(5, 8)
    raws = [raw(keys=[k] if rng.random() < .75 else [], pads=[pad(0)]) for _ in range(L)]
    when = rng.randrange(1, L - 1); gone = rng.choice([None, rng.randrange(when + 1, L)])
    def steps(with_mid):
        st = [sop(spawn(0, [hi, lo])), frame(raw(pads=[pad(0)]))]
        for i, r in enumerate(raws):
            # the sub run keeps the same steps (an operation on a deleted type is a no-op there), as in gen_pair
            if i == when: st.append(sop(insert(0, mid)))
            if gone is not None and i == gone: st.append(sop(remove(0, mid)))
            st.append(frame(r))
        return st
    menu = sorted(cs)
    full = scenario(menu, [0], cfg, steps(True))
    sub = scenario(sorted([hi, lo]), [0], {k_: v for k_, v in cfg.items() if k_[0] != mid}, steps(False))
    return '(multi [%s %s %s])' % (full, sub, full)

def gen_emptied_pair(rng):
    """an input-disjoint context type of the HIGHEST (or of a middle) priority loses its last holder in mid-run: the order in
    which the remaining types are evaluated - a consumer above a listener on the same key - is what it was"""
    ids = Ids()
    cs = sorted(rng.sample([0, 2, 4, 6, 1, 3, 7], rng.choice([3, 4])), key=lambda c: -CTX_PRIO[c])
    gone_t = cs[rng.choice([0, 0, 1])]                      # the type that empties: the first group, or the second
    rest = [c for c in cs if c != gone_t]
    hi, lo = rest[0], rest[-1]
    k = rng.randrange(2)
    def one(a_, inp, consume):
        return spec([action(ids, aid(a_ % 4, a_ // 4, consume, False), [bind(ids, inp, [PROBE], [])])])
    cfg = {(hi, 0): one(0, key(k), True), (lo, 0): one(1, key(k), False), (gone_t, 0): one(2, key(3), True)}
    for j, c in enumerate(rest[1:-1]): cfg[(c, 0)] = one(4 + j, key(2), False)
    L = rng.randint(5, 8); when = rng.randrange(1, L - 1)
    raws = [raw(keys=[k] if rng.random() < .8 else [], pads=[pad(0)]) for _ in range(L)]
    def steps(spawned):
        st = [sop(spawn(0, spawned)), frame(raw(pads=[pad(0)]))]
        for i, r in enumerate(raws):
            if i == when: st.append(sop(remove(0, gone_t)))
            st.append(frame(r))
        return st
    full = scenario(sorted(cs), [0], cfg, steps(sorted(cs)))
    sub = scenario(sorted(rest), [0], {k_: v for k_, v in cfg.items() if k_[0] != gone_t}, steps(sorted(rest)))
    return '(multi [%s %s %s])' % (full, sub, full)

def cases(tier, rng):
    for _ in range(40 if tier == 'thorough' else 8):
        yield (gen_emptied_pair(rng), 'pair-disjoint-type-empties')
    for _ in range(60 if tier == 'thorough' else 12):
        yield (gen_late_pair(rng), 'pair-late-disjoint-context')
    for _ in range(60 if tier == 'thorough' else 8):
        yield (gen_gamepad_pair(rng), 'pair-per-gamepad')
    for _ in range(60 if tier == 'thorough' else 8):
        yield (gen_entity_pair(rng), 'pair-per-entity')
    for _ in range(2000 if tier == 'thorough' else 100):
        yield (gen_pair(rng), 'pair')

def nontrivial(case, out):
    return 'SFired' in out

STAGES = [dict(name='pairs', mode='app', coq='Check.C17c', profile=('Proofs.JudgeC17eP', '(fun mc => JudgeC17P.profile_C17b mc || JudgeC17eP.profile_C17eb mc)', 'C17_app_judgement_sound (context-type deletion) / C17_entity_judgement_sound (entity deletion); determinism clauses hold trivially on the model; transfer is false for them by design'), cases=cases, nontrivial=nontrivial, shard=10, noshrink=True, across_processes=40,
               exhaustive={'thorough': False, 'quick': False},
               rule='random configurations of 2-5 context types split into a kept set R and a deleted set D whose bound inputs are disjoint (different keys, different required modifier keys, different '
                    'mouse and gamepad inputs), interleaved in priority, with consuming actions, built-in and scripted conditions and modifiers, 1-2 entities, a component op or rebuild in the middle; contexts tied to different gamepads that bind the same buttons and axes (the consuming one deleted); per-player instances of one exclusive type with disjoint keys, a rebuild in the middle, one player deleted; an input-disjoint context of a priority between a consumer and a listener that arrives just before the contested key goes down, or leaves again; an input-disjoint type of the highest priority whose last holder leaves; three runs '
                    'per case: the full configuration, the configuration with D deleted and with extra activity on keys, modifier keys, a mouse button and gamepad inputs that nobody binds, and the full configuration again; all cases are run a second time in fresh processes and the traces compared byte by byte. '
                    'non-trivial = some action fires; distinct = distinct case text')]
CLAUSES = {2: 'main-segment events of the kept contexts differ when the disjoint contexts are deleted / unbound inputs are active', 3: 'later events of the kept contexts differ', 4: 'the invocation log (reads, values, results) of the kept contexts differs',
           5: 'polled states, values or durations of the kept contexts differ', 6: 'the registry lookup of the kept contexts differs', 7: 'instances of the kept contexts were built differently', 9: 'traces of different length', 10: 'panic flag differs',
           21: 'two runs of the same configuration differ (events before the evaluation)', 22: 'two runs of the same configuration differ (main events)', 23: 'two runs differ (later events)', 24: 'two runs differ (invocation log)',
           25: 'two runs differ (polled data)', 26: 'two runs differ (registry lookup)', 27: 'two runs differ (instances built)', 29: 'two runs of different length', 30: 'malformed case', 40: 'the same cases run in a second operating-system process gave a different trace (byte comparison of the harness output: hash seeds, addresses and the like differ between processes)', 1: 'events before the evaluation differ'}
def describe(stage, clause): return CLAUSES.get(clause, 'clause %d' % clause)
def matches_known(k, case, verdict): return False
TRUSTED = TRUSTED_BASE + ['determinism: non-determinism from hash-map iteration or the scheduler cannot be exhibited by a functional model; the double run in one process and the byte comparison of the traces of two separate processes are supporting evidence (partial)']
ASSUMES = ['disjointness as defined by Spec/ReadSpec.related in both directions']
