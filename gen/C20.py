"""C20 - value conversions. Unit mode; exhaustive grid in each dimension."""
import itertools
from sx import q
from fractions import Fraction as F

GRID = [F(-2), F(-1), F(-1, 2), F(0), F(1, 2), F(1), F(2)]
SMALL = [F(-1), F(0), F(1, 2), F(2)]

def values(grid):
    yield '(VB true)'; yield '(VB false)'
    for x in grid: yield '(V1 %s)' % q(x)
    for x, y in itertools.product(grid, repeat=2): yield '(V2 %s %s)' % (q(x), q(y))
    for x, y, z in itertools.product(grid, repeat=3): yield '(V3 %s %s %s)' % (q(x), q(y), q(z))

def cases(tier, rng):
    if tier == 'thorough':
        for v in values(GRID):
            for t in GRID:
                yield ('(uval %s %s)' % (v, q(t)), 'grid')
    else:
        for v in values(SMALL):
            for t in SMALL:
                yield ('(uval %s %s)' % (v, q(t)), 'grid')
        vs = list(values(GRID))
        for _ in range(300):
            yield ('(uval %s %s)' % (rng.choice(vs), q(rng.choice(GRID))), 'grid-sample')
    # tiny magnitudes (2^-30 is below f32::EPSILON, 2^-100 has a square that underflows): non-zero is non-zero. Thresholds
    # 0 and 1/2 only - next to a tiny threshold the squares of is_actuated underflow, which the rational model does not do
    for tiny in (F(1, 2 ** 30), F(1, 2 ** 100), -F(1, 2 ** 100), F(1, 2 ** 120)):
        for d in (1, 2, 3):
            for pos in range(d):
                comps = [tiny if i == pos else F(0) for i in range(d)]
                for t in (F(0), F(1, 2)):
                    yield ('(uval (V%d %s) %s)' % (d, ' '.join(q(c) for c in comps), q(t)), 'tiny')
    # random dyadic values on a finer grid, thresholds near the magnitude
    n = 2000 if tier == 'thorough' else 300
    for _ in range(n):
        d = rng.choice([1, 2, 3])
        comps = [F(rng.randint(-256, 256), 64) if rng.random() < 0.8 else F(0) for _ in range(d)]
        v = '(V%d %s)' % (d, ' '.join(q(c) for c in comps))
        m2 = sum(c * c for c in comps)
        # threshold on, just below, just above an integer-ish root, or random
        t = rng.choice([F(rng.randint(-256, 256), 64), F(1, 2), -F(1, 2)])
        if d == 1 and rng.random() < 0.5:
            t = comps[0] + rng.choice([F(0), F(1, 64), -F(1, 64)])
        yield ('(uval %s %s)' % (v, q(t)), 'random')

def nontrivial(case, out):
    # a case is non-trivial when the value is not all-zero and not all-ones
    import re
    v = re.search(r'\(V\w ([^)]*)\)', case).group(1).split()
    return not all(tok in ('0/1', '1/1', 'true', 'false') for tok in v)

STAGES = [dict(name='value', mode='unit', coq='Check.C20c', profile=('Proofs.JudgeC20P', '(fun _ => true)', 'C20_judgement_sound / C20_judgement_transfer (no hypothesis on the case)'), cases=cases, nontrivial=nontrivial,
               exhaustive={'thorough': False, 'quick': False},
               rule='every value with components in the grid {-2,-1,-1/2,0,1/2,1,2} (thorough: all 401 values x 7 thresholds; '
                    'quick: 4-point grid plus a sample) and random dyadic values with thresholds on/around the magnitude; values with one tiny non-zero component (2^-30, +-2^-100, 2^-120); '
                    'each is converted to all four dimensions and back by the real ActionValue API; non-trivial = not made of 0/1 only; '
                    'distinct = distinct case text')]

CLAUSES = {1: 'convert(d, v) does not have dimension d', 2: 'converting to the same dimension is not the identity',
           3: 'widening then narrowing back does not return the original', 4: 'narrowing/widening changed, permuted or failed to zero-fill axes',
           5: 'truthiness is not "some component is non-zero"', 6: 'truthiness not preserved by widening',
           7: 'is_actuated(v, t) differs from |v|^2 >= |t|^2', 8: 'dim() wrong', 9: 'malformed output', 10: 'panic'}
def describe(stage, clause): return CLAUSES.get(clause, 'clause %d' % clause)
def matches_known(k, case, verdict): return False
TRUSTED = ['Coq 8.16.1 kernel and vm_compute', 'Rust harness (harness/src/unit.rs: case parser, exact f32->rational printer)',
           'f32 modelled as exact rationals on dyadic inputs (DESIGN.md section 3)']
ASSUMES = ['inputs are dyadic rationals on which f32 arithmetic is exact', 'NaN/infinity are outside the model']


def tracker_cases(tier, rng):
    """conversions as the action evaluation uses them: every value entering the running tracker is converted to the
    action\'s dimension (bool as 0/1 on X) before it is merged, shown to action-level conditions or stored"""
    import C04
    for c, tag in C04.cases(tier, rng):
        if tag in ('mixed-dimensions', 'random') or tag.startswith('exhaustive-states-values-2'):
            yield (c, 'tracker-' + tag)

STAGES.append(dict(name='tracker', mode='app', coq='Check.C04c', profile=('Proofs.JudgeC04P', 'JudgeC04P.profile_C04b', 'C04_app_judgement_sound / C04_app_judgement_transfer (the stage is judged by Check.C04c)'),
                   cases=tracker_cases, nontrivial=lambda case, out: 'SFired' in out, shard=8, exhaustive={'thorough': False, 'quick': False},
                   rule='the merge scenarios of C04 in which values of every dimension meet every output type (two inputs, all state / value combinations; dimension-changing modifiers; random): the stored and merged values are the conversions the property describes'))
_describe20 = describe
def describe(stage, clause):
    if stage == 'tracker':
        return {1: 'a value was not converted to the action\'s dimension (bool as 0/1 on X) before it was merged', 2: 'the stored value is not the conversion of the merged value', 3: 'the polled value has another dimension than the action declares'}.get(clause, 'clause %d' % clause)
    return _describe20(stage, clause)
