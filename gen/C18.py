"""C18 - built-in modifiers. Unit stage: InputModifier::apply driven directly."""
import itertools
from fractions import Fraction as F
from sx import q
from common import *

G = [F(-2), F(-1), F(-1, 2), F(-1, 4), F(0), F(1, 4), F(1, 2), F(1), F(2)]
GS = [F(-1), F(-1, 4), F(0), F(1, 2), F(2)]
EPS = F(1, 2 ** 16)
def b(x): return 'true' if x else 'false'

def grid_values(g3=GS):
    yield '(VB true)'; yield '(VB false)'
    for x in G: yield value(1, [x])
    for x, y in itertools.product(G, repeat=2): yield value(2, [x, y])
    for x, y, z in itertools.product(g3, repeat=3): yield value(3, [x, y, z])

def case(m, steps, refaid=-1, eps=F(0)):
    return '(umod %s %d %s [%s])' % (m, refaid, q(eps), ' '.join(steps))
def st(v, dt=F(0), rs='SNone'): return '(mstep %s %s %s)' % (v, q(dt), rs)

def chunks(l, n):
    for i in range(0, len(l), n): yield l[i:i + n]

def cases(tier, rng):
    vals = list(grid_values(G if tier == 'thorough' else GS))
    # memoryless modifiers: many values per case
    mods = []
    for fx, fy, fz in itertools.product([False, True], repeat=3):
        mods.append(('negate', '(m_negate %s %s %s)' % (b(fx), b(fy), b(fz)), F(0)))
    for f in [(F(-2), F(1, 2), F(3)), (F(0), F(3), F(-2)), (F(1, 2), F(1, 2), F(1, 2)), (F(3), F(0), F(1, 2)), (F(1), F(-1), F(1, 4)), (F(1), F(1), F(1))]:   # the neutral factor too: a bool still becomes 1D
        mods.append(('scale', '(m_scale %s %s %s)' % tuple(q(x) for x in f), F(0)))
    for k in ['YXZ', 'ZYX', 'XZY', 'YZX', 'ZXY']:
        mods.append(('swizzle', '(m_swizzle %s)' % k, F(0)))
    for lo, hi in [(F(1, 4), F(3, 4)), (F(0), F(1)), (F(1, 2), F(1))]:
        mods.append(('deadzone-axial', '(m_deadzone Axial %s %s)' % (q(lo), q(hi)), F(0)))
        mods.append(('deadzone-radial', '(m_deadzone Radial %s %s)' % (q(lo), q(hi)), EPS))
    mods.append(('deadzone-radial', '(m_deadzone Radial 1/5 1/1)', EPS))
    mods.append(('deadzone-axial', '(m_deadzone Axial 1/5 1/1)', EPS))
    for e in [(1, 1, 1), (2, 2, 2), (3, 3, 3), (2, 3, 1)]:
        mods.append(('exp', '(m_exp %d %d %d)' % e, EPS))
    for name, m, eps in mods:
        vs = vals[:]
        rng.shuffle(vs)
        for ch in chunks(vs, 12):
            yield (case(m, [st(v) for v in ch], eps=eps), name)
    # ExponentialCurve with exponents below one and mixed ones, on its fixed points: every component in {0, 1, -1}
    import itertools as _it
    fixed = ['(VB true)', '(VB false)'] + [value(1, [x]) for x in (F(0), F(1), F(-1))] + \
            [value(2, list(c)) for c in _it.product((F(0), F(1), F(-1)), repeat=2)] + [value(3, list(c)) for c in _it.product((F(0), F(1), F(-1)), repeat=3)]
    for ex in [(F(1, 2), F(1, 2), F(1, 2)), (F(1, 4), F(2), F(3, 2)), (F(3, 4), F(1, 8), F(1)), (F(5, 2), F(1, 2), F(3))]:
        for ch in chunks(fixed, 14):
            yield ('(uexp %s %s %s [%s])' % (q(ex[0]), q(ex[1]), q(ex[2]), ' '.join(st(v) for v in ch)), 'exp-fixed-points')
    # fine grid for the dead zones (monotonicity needs many magnitudes) and radial on Pythagorean vectors
    fine = [F(i, 16) for i in range(-20, 21)]
    for lo, hi in [(F(1, 4), F(3, 4)), (F(0), F(1)), (F(1, 2), F(1))]:
        yield (case('(m_deadzone Axial %s %s)' % (q(lo), q(hi)), [st(value(1, [x])) for x in fine]), 'deadzone-axial')
        pyth = [(F(3), F(4), F(0)), (F(4), F(3), F(0)), (F(6), F(8), F(0)), (F(1), F(2), F(2)), (F(2), F(3), F(6)), (F(0), F(5), F(12))]
        steps = []
        for (x, y, z) in pyth:
            for s in [F(1, 16), F(1, 8), F(1, 5), -F(1, 10), F(1, 4)]:
                if z == 0: steps.append(st(value(2, [x * s, y * s])))
                steps.append(st(value(3, [x * s, y * s, z * s])))
        for ch in chunks(steps, 12):
            yield (case('(m_deadzone Radial %s %s)' % (q(lo), q(hi)), ch, eps=EPS), 'deadzone-radial')
    # delta scale
    for dt in DT_GRID:
        vs = vals[:]; rng.shuffle(vs)
        for ch in chunks(vs[:120 if tier != 'thorough' else len(vs)], 12):
            yield (case('m_delta_scale', [st(v, dt) for v in ch]), 'delta-scale')
    # delta lerp: sequences
    nseq = 3000 if tier == 'thorough' else 300
    for i in range(nseq):
        spd = rng.choice([F(0), F(1), F(4), F(8), F(2)])
        d = rng.choice([0, 1, 1, 2, 3])
        L = rng.randint(1, 8)
        steps, tgt = [], None
        for _ in range(L):
            if tgt is None or rng.random() < 0.4:
                tgt = rand_value(rng, d)
            steps.append(st(tgt, rng.choice(DT_GRID)))
        yield (case('(m_delta_lerp %s)' % q(spd), steps, eps=F(1, 2 ** 18)), 'delta-lerp')
    # the documented default speed with the largest frame
    yield (case('(m_delta_lerp 8/1)', [st('(V1 1/1)', F(1, 4)), st('(V1 1/1)', F(1, 4))], eps=F(1, 2 ** 18)), 'delta-lerp')
    # accumulate-by
    for i in range(1500 if tier == 'thorough' else 200):
        d = rng.randrange(4)
        ref = aid(rng.randrange(4), rng.randrange(4))
        present = rng.random() < 0.8
        steps = []
        s = 'SNone'
        for _ in range(rng.randint(1, 8)):
            if rng.random() < 0.5: s = rng.choice(STATES)
            steps.append(st(rand_value(rng, d), F(0), s))
        m = '(m_accumulate %d)' % ref
        yield (case(m, steps, refaid=ref if present else -1), 'accumulate')

def app_cases(tier, rng):
    from scen import Ids, action, bind, spec, sop, spawn, frame, raw, scenario, key, mbutton, paxis, motion, pad, REBUILD, c_script
    MODS = (['(m_negate %s %s %s)' % (b(x), b(y), b(z)) for x in (0, 1) for y in (0, 1) for z in (0, 1)] +
            ['(m_scale 1/2 3/1 -2/1)', '(m_scale 0/1 1/1 1/2)', '(m_scale 1/1 1/1 1/1)'] + ['(m_swizzle %s)' % k for k in ['YXZ', 'ZYX', 'XZY', 'YZX', 'ZXY']] +
            ['(m_deadzone Axial 1/4 3/4)', '(m_deadzone Axial 0/1 1/1)', '(m_exp 2 2 2)', '(m_exp 1 3 1)', 'm_delta_scale', '(m_delta_lerp 4/1)', '(m_delta_lerp 8/1)'])   # with deltas 1/8, 1/4: alpha in {1/2, 1, clamped}, exact in f32 over the run
    for _ in range(1200 if tier == 'thorough' else 100):
        ids = Ids()
        L = rng.randint(6, 16)
        acts = []
        allaids = [aid(j % 4, j, False, False) for j in range(3)]
        for j in range(3):
            inp = rng.choice([key(j), mbutton(j % 2), paxis(j % 2), motion()])
            ms = [rng.choice(MODS + ['(m_accumulate %d)' % rng.choice(allaids + [aid(0, 3)])]) for _ in range(rng.randint(1, 2))]
            am = [rng.choice(MODS) for _ in range(rng.randint(0, 1))]
            acts.append(action(ids, allaids[j], [bind(ids, inp, ms, [])], am, [c_script('KExplicit', [rng.choice(['SFired', 'SFired', 'SOngoing', 'SNone']) for _ in range(L + 1)])] if rng.random() < .5 else []))
        cfg = {(0, 0): spec(acts)}
        steps = [sop(spawn(0, [0])), frame(raw(pads=[pad(0)]))]
        # time dilation and pauses (the frame delta the modifiers see is the virtual one); not next to DeltaLerp, whose
        # factor delta*speed would leave the exactly representable grid
        dilate = 'm_delta_lerp' not in ''.join(acts) and rng.random() < .6
        tspeed, paused = F(1), False
        for i in range(L):
            if dilate and rng.random() < .3: tspeed = rng.choice([F(1, 2), F(2), F(1), F(1, 4)])
            if dilate and rng.random() < .1: paused = not paused
            steps.append(frame(raw(keys=[k for k in range(3) if rng.random() < .6], mbuttons=[k for k in range(2) if rng.random() < .5],
                                   motion=(rng.choice([F(0), F(1), F(-1, 2)]), rng.choice([F(0), F(1, 4)])),
                                   pads=[pad(0, [], [(a, rng.choice([F(0), F(1, 4), F(3, 4), F(-1)])) for a in range(2)])]), rng.choice([F(1, 8), F(1, 4)]), tspeed, paused))
            if i == L // 2 and rng.random() < .2: steps.append(sop(REBUILD))
        yield (scenario([0], [0], cfg, steps), 'bound-in-context')

def nontrivial(case, out):
    return any(t not in ('0/1', '1/1') for t in out.replace('(', ' ').replace(')', ' ').split() if '/' in t)

STAGES = [dict(name='mod', mode='unit', coq='Check.C18c', profile=('Proofs.JudgeBoolP', 'JudgeBoolP.c18_weak_caseb', "C18_judgement_sound / C18_judgement_transfer_exact (JudgeBoolP.C18_judgement_sound_weak_b: any output Qeq to the model's is accepted)"), cases=cases, nontrivial=nontrivial, shard=150,
               exhaustive={'thorough': False, 'quick': False},
               rule='InputModifier::apply called directly on every value of the grid {-2,-1,-1/2,-1/4,0,1/4,1/2,1,2}^axes (3D on a 5-point grid in quick) for all 8 Negate masks, '
                    '5 Scale triples, 5 swizzles, 4 dead-zone threshold pairs x {axial, radial}, 4 exponent triples, DeltaScale x 4 deltas; fine 1/16 grid for monotonicity; '
                    'radial dead zone on scaled Pythagorean vectors (tolerance 2^-16); random DeltaLerp sequences of length <= 8 (speeds 0,1,2,4,8; tolerance 2^-18); '
                    'random AccumulateBy sequences with the referenced action present/absent. non-trivial = some output component other than 0 or 1; distinct = distinct case text')]

STAGES.append(dict(name='context', mode='app', coq='Check.C18w', profile=('Proofs.JudgeC18AppP', 'JudgeC18AppP.profile_C18b', 'C18_app_judgement_sound / C18_app_judgement_transfer'), cases=app_cases, nontrivial=nontrivial, shard=25,
                   exhaustive={'thorough': False, 'quick': False},
                   rule='the same modifiers bound in a real context at input and action level on keys, mouse buttons, mouse motion and gamepad axes over 6-16 frames with rebuilds, time dilation (relative speed 1/4 .. 2) and pauses; '
                        'every application recorded by the wrapper (value in, value out, action states shown) is judged by the laws'))
CLAUSES = {1: 'Negate does not flip exactly the selected axes', 2: 'Scale is not the per-axis product', 3: 'SwizzleAxis is not the stated permutation of the zero-padded input truncated to the documented dimension',
           4: 'axial DeadZone: non-zero inside the lower threshold, magnitude above one, or sign lost', 5: 'radial DeadZone: non-zero inside the lower threshold, magnitude above one, or direction lost',
           6: 'ExponentialCurve: sign lost or 0/+-1 not fixed', 7: 'DeltaScale is not value * delta', 8: 'axial DeadZone is not monotone in the magnitude',
           9: 'DeltaLerp output not between its previous output and the input, or not snapped when close', 10: 'AccumulateBy is not "running sum while Fired, input otherwise, unchanged if absent"',
           11: 'a stateful modifier (DeltaLerp, AccumulateBy) of an evaluated instance was not applied in a frame although it sits at action level or the input of its binding was inactive in that frame (so the binding cannot be one that is still ignored): the running sum / the previous output is not what the value sequence gives',
           18: 'panic', 19: 'malformed output', 20: 'zero input mapped to non-zero output'}
def describe(stage, clause): return CLAUSES.get(clause, 'clause %d' % clause)
def matches_known(k, case, verdict): return False
TRUSTED = TRUSTED_BASE + ['radial dead zone and non-dyadic parameters compared up to a relative tolerance (2^-16); integer exponents only']
ASSUMES = ['0 <= lower < upper; exponents positive integers; speeds and deltas non-negative', 'inputs dyadic; libm powf assumed exact to 2^-16 on them']
