"""Builders for app-mode scenarios (S-expressions mirroring coq/Model/Frame.v)."""
from fractions import Fraction as F
from sx import q
from common import *

def b(x): return 'true' if x else 'false'
def lst(xs): return '[%s]' % ' '.join(str(x) for x in xs)
def pair(a, c): return '(pair %s %s)' % (a, c)

# inputs
def key(k, mods=0): return '(IKey %d %d)' % (k, mods)
def mbutton(k, mods=0): return '(IMouseButton %d %d)' % (k, mods)
def motion(mods=0): return '(IMotion %d)' % mods
def wheel(mods=0): return '(IWheel %d)' % mods
def pbutton(k): return '(IPadButton %d)' % k
def paxis(k): return '(IPadAxis %d)' % k
ALT, CONTROL, SHIFT, SUPER = 1, 2, 4, 8
def modkey(bit_index, right=False): return 100 + 2 * bit_index + (1 if right else 0)

class Ids:
    """log ids of conditions and modifiers, unique within a scenario"""
    def __init__(self): self.n = 0
    def next(self):
        self.n += 1
        return self.n

def idlist(ids, xs): return lst(pair(ids.next(), x) for x in xs)

def bind(ids, inp, mods=(), conds=()):
    return '(mkBind %s %s %s)' % (inp, idlist(ids, mods), idlist(ids, conds))
def action(ids, a, binds=(), mods=(), conds=()):
    # order of id assignment: action-level first (mods, conds), then the binds (already built by the caller)
    return '(mkAction %d %s %s %s)' % (a, idlist(ids, mods), idlist(ids, conds), lst(binds))
def spec(actions, pad=None):
    return '(mkSpec %s %s)' % ('None' if pad is None else '(Some %d)' % pad, lst(actions))

def pad(i, buttons=(), axes=()):
    return '(mkPad %d %s %s)' % (i, lst(buttons), lst(pair(a, q(v)) for a, v in axes))
def raw(keys=(), mbuttons=(), motion=(0, 0), wheel=(0, 0), pads=(), ui=()):
    return '(mkRaw %s %s %s %s %s %s)' % (lst(sorted(keys)), lst(sorted(mbuttons)), pair(q(motion[0]), q(motion[1])),
                                         pair(q(wheel[0]), q(wheel[1])), lst(pads), lst(ui))
def frame(rw, real=F(1, 64), speed=F(1), paused=False, how=0, ops=()):
    return '(SFrame (mkFrame %s %s %s %d %s %s))' % (q(real), q(speed), b(paused), how, rw, lst(ops))
def spawn(e, cs): return '(OSpawn %d %s)' % (e, lst(cs))
def insert(e, c): return '(OInsert %d %d)' % (e, c)
def remove(e, c): return '(ORemove %d %d)' % (e, c)
def despawn(e): return '(ODespawn %d)' % e
REBUILD = 'ORebuild'
def sop(o): return '(SOp %s)' % o

def scenario(menu, ents, cfg, steps):
    return '(mkScenario %s %s %s %s)' % (lst(sorted(menu)), lst(ents),
                                        lst(pair(pair(c, e), s) for (c, e), s in cfg.items()), lst(steps))

# scripted conditions / modifiers
def c_script(kind, states): return '(c_script %s %s)' % (kind, lst(states))
def m_script(outs): return '(m_script %s)' % lst('MPass' if o is None else '(MSet %s)' % o for o in outs)
PROBE = '(m_script [])'          # identity modifier that records the raw read
KINDS = ['KExplicit', 'KImplicit', '(KBlocker false)', '(KBlocker true)']
CTX_PRIO = [30, 20, -10, 0, 10, -2 ** 63, 2 ** 63 - 1, 5]
def ctx_shared(c): return c % 2 == 1

# ---- well-formedness of a scenario text (used to reject shrink candidates that stop making sense) ----
import re as _re
def wf(case):
    """entities and context types used by the configuration and the steps are declared; multi/routed wrappers are checked inside"""
    try:
        import sx
        t = sx.parse(case)
        def scen_ok(s):
            if isinstance(s, str) or s[1][0] != 'mkScenario': return True
            menu = set(s[1][1][1]); ents = set(s[1][2][1])
            for entry in s[1][3][1]:
                ce = entry[1][1]
                if ce[1][1] not in menu or ce[1][2] not in ents: return False
            txt = sx.show(s[1][4])
            for m in _re.finditer(r'\((OInsert|ORemove) (\d+) (\d+)\)', txt):
                if m.group(2) not in ents or m.group(3) not in menu: return False
            for m in _re.finditer(r'\(ODespawn (\d+)\)', txt):
                if m.group(1) not in ents: return False
            for m in _re.finditer(r'\(OSpawn (\d+) \[([^\]]*)\]\)', txt):
                if m.group(1) not in ents or any(c not in menu for c in m.group(2).split()): return False
            return True
        def walk(x):
            if isinstance(x, str): return True
            if x[0] == '(' and x[1] and x[1][0] == 'mkScenario': return scen_ok(x)
            return all(walk(i) for i in x[1])
        return walk(t)
    except Exception:
        return False
