"""C16 - while the UI is interacted with, mouse input is masked and nothing else is."""
import itertools
from fractions import Fraction as F
from scen import *
import C15 as _c15

def cases(tier, rng):
    inputs = [mbutton(0), mbutton(1, CONTROL), motion(), motion(SHIFT), wheel(), wheel(ALT), key(0), key(1, CONTROL), pbutton(0), paxis(0),
              mbutton(2), mbutton(3), mbutton(4, CONTROL), mbutton(5)]   # middle, back, forward and a vendor-specific button too
    seqs = list(itertools.product([0, 1, 2], repeat=2))          # Interaction of one element over two frames ...
    n = 3 if tier == 'thorough' else 2
    allseq = list(itertools.product(list(itertools.product([0, 1, 2], repeat=2)), repeat=n))   # two elements, n frames
    for chunk in range(0, len(allseq), 6):
        ids = Ids()
        cfg = {(0, 0): _c15.one_ctx(ids, inputs), (3, 0): _c15.one_ctx(ids, inputs[:4] + inputs[6:8], a_slot=2)}
        steps = [sop(spawn(0, [0, 3])), frame(raw(pads=[pad(0)]))]
        for seq in allseq[chunk:chunk + 6]:
            for ui in seq:
                steps.append(frame(raw(keys=[0, 1, 102], mbuttons=[0, 1, 2, 3, 4, 5], motion=(F(1), F(-1, 2)), wheel=(F(0), F(1)),
                                       pads=[pad(0, [0], [(0, F(1, 2))])], ui=list(ui))))
            steps.append(frame(raw(pads=[pad(0)], ui=[0, 0])))
        yield (scenario([0, 3], [0], cfg, steps), 'ui-sequences')
    # UI elements that disappear while hovered / pressed (despawned, or losing the Interaction component), and re-appear
    held = dict(keys=[0, 1, 102], mbuttons=[0, 1, 2, 3, 4, 5], motion=(F(1), F(-1, 2)), wheel=(F(0), F(1)))
    for seq in ([[2], [], [], [1], []], [[0, 1], [0], [0], [0, 2], []], [[1, 2, 1], [1], [], [0, 0, 2], [0, 0]], [[2], [2], [], [], [2]]):
        ids = Ids()
        cfg = {(0, 0): _c15.one_ctx(ids, inputs), (3, 0): _c15.one_ctx(ids, inputs[:4] + inputs[6:8], a_slot=2)}
        steps = [sop(spawn(0, [0, 3])), frame(raw(pads=[pad(0)]))]
        for ui in seq:
            steps.append(frame(raw(pads=[pad(0, [0], [(0, F(1, 2))])], ui=ui, **held)))
        yield (scenario([0, 3], [0], cfg, steps), 'ui-disappears')
    # a context created or rebuilt while the UI is hovered and the mouse is held: the suppression test of its bindings
    # must not disturb the mask for the bindings evaluated after it
    for how in ('insert', 'rebuild'):
        for ui in ([1], [2, 0]):
            ids = Ids()
            cfg = {(0, 0): _c15.one_ctx(ids, inputs), (4, 0): _c15.one_ctx(ids, [key(3), mbutton(1), key(2)], a_slot=1), (3, 0): _c15.one_ctx(ids, inputs[:4] + inputs[6:8], a_slot=2)}
            steps = [sop(spawn(0, [0, 3] if how == 'insert' else [0, 4, 3])), frame(raw(pads=[pad(0)])),
                     frame(raw(pads=[pad(0)], ui=ui, keys=[0, 1, 102], mbuttons=[0], motion=(F(1), F(-1, 2)), wheel=(F(0), F(1)))),
                     sop(insert(0, 4) if how == 'insert' else REBUILD)]
            for _ in range(3):
                steps.append(frame(raw(pads=[pad(0)], ui=ui, keys=[0, 1, 102], mbuttons=[0], motion=(F(1), F(-1, 2)), wheel=(F(0), F(1)))))
            steps.append(frame(raw(pads=[pad(0)], ui=[0] * len(ui), keys=[0, 1, 102], mbuttons=[0], motion=(F(1), F(-1, 2)), wheel=(F(0), F(1)))))
            yield (scenario([0, 3, 4], [0], cfg, steps), 'late-context')
    for x in consuming_cases(tier, rng):
        yield x
    for _ in range(600 if tier == 'thorough' else 60):
        ids = Ids()
        cfg = {(0, 0): _c15.one_ctx(ids, inputs), (3, 0): _c15.one_ctx(ids, inputs[:4] + inputs[6:8], a_slot=2)}
        steps = [sop(spawn(0, [0, 3])), frame(raw(pads=[pad(0)]))]
        for _ in range(12):
            nui = rng.randint(0, 3)      # elements come and go, also while interacted
            steps.append(frame(raw(keys=[k for k in [0, 1, 102, 104, 100] if rng.random() < .6], mbuttons=[b_ for b_ in [0, 1, 2, 3, 4, 5] if rng.random() < .6],
                                   motion=(rng.choice([F(0), F(1)]), rng.choice([F(0), F(2)])), wheel=(F(0), rng.choice([F(0), F(1)])),
                                   pads=[pad(0, [0] if rng.random() < .5 else [], [(0, rng.choice([F(0), F(1, 2)]))])],
                                   ui=[rng.choice([0, 0, 1, 2]) for _ in range(nui)]), how=rng.randrange(3)))
        yield (scenario([0, 3], [0], cfg, steps), 'random')

def consuming_cases(tier, rng):
    """consuming actions above, listeners on the same inputs below: while the UI is hovered or pressed the keyboard and
    gamepad inputs are consumed and hidden exactly as without the UI (and the mouse ones are masked for both)"""
    inputs = [key(0), key(1, CONTROL), pbutton(0), paxis(0), mbutton(0), wheel()]
    for _ in range(60 if tier == 'thorough' else 12):
        ids = Ids()
        hi = spec([action(ids, aid(j % 4, 0, True, False), [bind(ids, inp, [PROBE], [])]) for j, inp in enumerate(inputs)])
        lo = spec([action(ids, aid(j % 4, 1, rng.random() < .3, False), [bind(ids, inp, [PROBE], [])]) for j, inp in enumerate(inputs + [key(2, CONTROL)])])
        cfg = {(0, 0): hi, (3, 0): lo}
        steps = [sop(spawn(0, [0, 3])), frame(raw(pads=[pad(0)]))]
        for _ in range(10):
            steps.append(frame(raw(keys=[k for k in [0, 1, 2, 102] if rng.random() < .7], mbuttons=[0] if rng.random() < .6 else [],
                                   wheel=(F(0), rng.choice([F(0), F(1)])), pads=[pad(0, [0] if rng.random() < .6 else [], [(0, rng.choice([F(0), F(1, 2)]))])],
                                   ui=[rng.choice([0, 1, 2]) for _ in range(rng.randint(0, 2))])))
        yield (scenario([0, 3], [0], cfg, steps), 'consuming-under-ui')

def nontrivial(case, out):
    return ('VB true' in out or 'V2 1' in out)

STAGES = [dict(name='ui', mode='app', coq='Check.C15c', profile=('Proofs.JudgeProfiles', 'JudgeProfiles.prof_C15', 'C16_app_judgement_sound_all (C16_app_judgement_sound / _transfer for non-consuming profiles)'), cases=cases, nontrivial=nontrivial, shard=6,
               exhaustive={'thorough': True, 'quick': True},
               rule='two contexts with mouse, keyboard and gamepad bindings (with and without modifier masks), all inputs held; UI entities carrying bevy_ui Interaction: '
                    'every sequence of length 2 (quick) / 3 (thorough) of (none, hovered, pressed) for two elements, each followed by an idle frame; elements disappearing while hovered or pressed (despawn / component removed) and re-appearing; a context inserted or rebuilt while the UI is hovered and the mouse is held; random scripts with 0-3 elements whose number changes from frame to frame; a consuming context above a listening one on keyboard, gamepad and mouse inputs with elements hovered / pressed; '
                    'every binding read is compared with the masked specification. non-trivial = some binding reads active; distinct = distinct scenario text')]
CLAUSES = {1: 'a keyboard read changed with UI interaction (or differs from its specification)', 2: 'a mouse-sourced read is not masked exactly while some UI element is hovered or pressed',
           3: 'a gamepad read changed with UI interaction (or differs from its specification)',
           11: 'with consuming actions: a keyboard / gamepad read under UI interaction is not what it is without the UI (hidden exactly by what was consumed before it), or a mouse read is not masked',
           12: 'a binding of a context created in mid-run was (not) driven although its input was not (was) active in every frame since creation', 8: 'panic', 9: 'malformed trace', 10: 'panic'}
def describe(stage, clause): return CLAUSES.get(clause, 'clause %d' % clause)
def matches_known(k, case, verdict): return False
TRUSTED = TRUSTED_BASE + ['UI detection through bevy_ui Interaction components; the egui feature is not built and not claimed']
ASSUMES = ['consuming actions only in the consuming-under-ui family (judged by the consumption-aware judgement of C05, which applies the same mask)']
