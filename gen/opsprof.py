"""Operation-history profiles shared by C02, C06, C07, C14: scripted states, component ops between frames."""
import itertools
from fractions import Fraction as F
from scen import *

CYCLE = ['SNone', 'SOngoing', 'SFired', 'SFired', 'SOngoing', 'SOngoing', 'SNone', 'SFired', 'SNone', 'SNone', 'SOngoing', 'SNone']

def make_cfg(rng, menu, ents, L, nact=2, keyed=False, scripts=None, blockers=False, pad=None):
    """every context type gets nact actions driven by scripted explicit conditions; holders of a shared type share one spec"""
    ids = Ids()
    cfg = {}
    used = []
    def build(c):
        acts = []
        for j in range(nact):
            sc = scripts[(c + j) % len(scripts)] if scripts else [CYCLE[(i + j * 2 + c) % len(CYCLE)] for i in range(L + 2)]
            conds = [c_script('KExplicit', sc)]
            if blockers and (c + j) % 2 == 0:
                # a plain (not events-only) blocker that fails now and then: the action drops to None and must deliver its terminal event
                conds.append(c_script('(KBlocker false)', [rng.choice(['SFired', 'SFired', 'SFired', 'SNone']) for _ in range(L + 2)]))
            acts.append(action(ids, per_ctx[c][j], [bind(ids, key(c % 4), [], [])] if keyed else [], [], conds))
        return spec(acts, pad=pad)
    per_ctx = {}
    for c in menu:
        per_ctx[c] = []
        for j in range(nact):
            while True:
                a = aid((c + j) % 4, rng.randrange(4), False, False)
                if a not in used: break
            used.append(a); per_ctx[c].append(a)
    for c in menu:
        if ctx_shared(c):
            s = build(c)
            for e in ents: cfg[(c, e)] = s
        else:
            for e in ents: cfg[(c, e)] = build(c)
    return cfg

def ops_alphabet(menu, ents):
    al = []
    for e in ents:
        for c in menu:
            al.append(insert(e, c)); al.append(remove(e, c))
        al.append(despawn(e))
        al.append(spawn(e, menu[:1]))
    al.append(REBUILD)
    return al

def build_scenario(rng, menu, ents, plan, L, initial, cfg=None, raws=None, pauses=False):
    """plan: list of (after_frame, mode, op) with mode 'direct' | 'update'"""
    cfg = cfg or make_cfg(rng, menu, ents, L)
    steps = []
    for e, cs in initial.items():
        steps.append(sop(spawn(e, cs)))
    paused = False
    for k in range(L):
        upd = [o for (f, m, o) in plan if f == k and m == 'update']
        # the virtual clock may be paused for a few frames: actions are evaluated and events delivered all the same
        if pauses and rng.random() < 0.15: paused = not paused
        steps.append(frame(raws[k] if raws else raw(), rand_dt(rng), F(1), paused, ops=upd))
        for (f, m, o) in plan:
            if f == k and m == 'direct':
                steps.append(sop(o))
    return scenario(menu, ents, cfg, steps)

def exhaustive_plans(menu, ents, nops, frames=(1, 2, 5)):
    al = ops_alphabet(menu, ents)
    single = [(f, m, o) for f in frames for m in ('direct', 'update') for o in al]
    if nops == 1:
        for p in single: yield [p]
    else:
        for p in itertools.product(single, repeat=nops):
            if all(p[i][0] <= p[i + 1][0] for i in range(nops - 1)):
                # at most one op through Commands per frame (see random_plan)
                upd = [x[0] for x in p if x[1] == 'update']
                if len(upd) == len(set(upd)):
                    yield list(p)

def random_plan(rng, menu, ents, L, n):
    al = ops_alphabet(menu, ents)
    plan = sorted([(rng.randrange(L), rng.choice(['direct', 'direct', 'update']), rng.choice(al)) for _ in range(n)], key=lambda x: x[0])
    # at most one op issued through Commands per frame: several commands on one entity in one flush (e.g. insert
    # after despawn) are user errors Bevy itself panics on, and say nothing about the crate
    seen = set(); out = []
    for f, m, o in plan:
        if m == 'update':
            if f in seen: m = 'direct'
            seen.add(f)
        out.append((f, m, o))
    return out

def pick_menu(rng, n=2):
    """n context types, at least one exclusive and one shared when n >= 2"""
    ex = [c for c in range(8) if not ctx_shared(c)]; sh = [c for c in range(8) if ctx_shared(c)]
    if n == 1: return [rng.choice(ex + sh)]
    m = [rng.choice(ex), rng.choice(sh)]
    while len(m) < n:
        c = rng.randrange(8)
        if c not in m: m.append(c)
    return sorted(m)
