"""C05 - a consuming action hides exactly its contributing inputs from later actions."""
import itertools
from fractions import Fraction as F
from scen import *

# relation classes of a later binding w.r.t. a consumed key(1, CONTROL): same key, same key other mods, needs Ctrl, needs Shift, other key,
# and for the other devices: same button, motion, wheel, pad button/axis with the same / a different device setting
FAMILY = [key(1, CONTROL), key(1), key(2, CONTROL), key(1, SHIFT), key(2, SHIFT), key(3),
          mbutton(0), mbutton(0, CONTROL), mbutton(1), motion(), motion(CONTROL), wheel(), wheel(SHIFT), pbutton(0), pbutton(1), paxis(0), paxis(1),
          # bindings requiring several modifiers: a superset of, a subset of, or overlapping with what a consumer used
          key(2, CONTROL | SHIFT), key(3, SHIFT | ALT), mbutton(1, CONTROL | ALT), motion(CONTROL | SHIFT), key(2, ALT)]

def rawall(rng=None, p=1.0):
    keys = [k for k in [1, 2, 3, 100, 102, 104] if rng is None or rng.random() < p]
    return raw(keys=keys, mbuttons=[b_ for b_ in [0, 1] if rng is None or rng.random() < p],
               motion=(F(1), F(-1, 2)) if rng is None or rng.random() < p else (F(0), F(0)),
               wheel=(F(0), F(1)) if rng is None or rng.random() < p else (F(0), F(0)),
               pads=[pad(0, [0, 1] if rng is None or rng.random() < p else [], [(0, F(1, 2)), (1, F(-1))] if rng is None or rng.random() < p else [])])

class Alloc:
    def __init__(self): self.used = []
    def get(self, rng, dim, consume, maxabs=False):
        for slot in range(4):
            a = aid(dim, slot, consume, maxabs)
            if a not in self.used:
                self.used.append(a); return a
        for mx in (maxabs, not maxabs):
            for d in range(4):
                for slot in range(4):
                    a = aid(d, slot, consume, mx)
                    if a not in self.used:
                        self.used.append(a); return a
        raise Exception('out of action types')

def consumer_case(rng, consumer_input, final_script, consume, later_inputs, same_ctx, later_pad, consumer_pad, L):
    ids = Ids(); al = Alloc()
    cons = action(ids, al.get(rng, 0, consume), [bind(ids, consumer_input, [PROBE], [])], [], [c_script('KExplicit', final_script)])
    laters = [action(ids, al.get(rng, j % 4, False), [bind(ids, inp, [PROBE], [])]) for j, inp in enumerate(later_inputs)]
    if same_ctx:
        cfg = {(0, 0): spec([cons] + laters, pad=consumer_pad)}
        menu = [0]
    else:
        cfg = {(0, 0): spec([cons], pad=consumer_pad), (2, 0): spec(laters, pad=later_pad)}
        menu = [0, 2]
    steps = [sop(spawn(0, menu)), frame(raw(pads=[pad(0)]))] + [frame(rawall()) for _ in range(L)] + [frame(raw(pads=[pad(0)])), frame(rawall())]
    return scenario(menu, [0], cfg, steps)

def multi_consumer_case(rng, dim, maxabs, with_conds, same_ctx):
    """a consuming action with three bindings, several of them contributing in the same frame (equal state): every one
    of them must be hidden from the listeners, whatever the accumulation mode"""
    ids = Ids(); al = Alloc()
    inputs = [key(1), key(2), mbutton(0)]
    subsets = [s_ for n in range(4) for s_ in itertools.combinations(range(3), n)]
    L = len(subsets)
    binds = [bind(ids, inp, [PROBE], [c_script('KExplicit', [rng.choice(['SFired', 'SFired', 'SOngoing']) for _ in range(L + 2)])] if with_conds else [])
             for inp in inputs]
    cons = action(ids, al.get(rng, dim, True, maxabs), binds)
    laters = [action(ids, al.get(rng, j % 4, False), [bind(ids, inp, [PROBE], [])]) for j, inp in enumerate(inputs + [key(3)])]
    if same_ctx:
        cfg = {(0, 0): spec([cons] + laters)}; menu = [0]
    else:
        cfg = {(0, 0): spec([cons]), (2, 0): spec(laters)}; menu = [0, 2]
    steps = [sop(spawn(0, menu)), frame(raw(pads=[pad(0)]))]
    for sub in subsets:
        steps.append(frame(raw(keys=[k for i, k in ((0, 1), (1, 2)) if i in sub] + [3], mbuttons=[0] if 2 in sub else [], pads=[pad(0)])))
    return scenario(menu, [0], cfg, steps)

def random_case(rng, L):
    ids = Ids(); al = Alloc()
    n = rng.randint(2, 4)
    menu = sorted(rng.sample([0, 1, 2, 3, 4, 6], n))
    cfg = {}
    for c in menu:
        acts = []
        for _ in range(rng.randint(1, 3)):
            consume = rng.random() < .6
            binds = []
            for _ in range(rng.randint(1, 3)):
                conds = [c_script(rng.choice(KINDS[:3]), [rng.choice(['SFired', 'SFired', 'SOngoing', 'SNone']) for _ in range(L + 2)])] if rng.random() < .4 else []
                binds.append(bind(ids, rng.choice(FAMILY), [PROBE], conds))
            aconds = [c_script('KExplicit', [rng.choice(['SFired', 'SOngoing', 'SNone']) for _ in range(L + 2)])] if rng.random() < .5 else []
            am = idlist(ids, []); ac = idlist(ids, aconds)
            acts.append('(mkAction %d %s %s %s)' % (al.get(rng, rng.randrange(4), consume, rng.random() < .4), am, ac, lst(binds)))
        cfg[(c, 0)] = spec(acts, pad=rng.choice([None, None, 0]))
    # some contexts are created later, while inputs are held: their bindings start suppressed (C08), and the
    # suppression test itself must not disturb what is hidden from the contexts evaluated after them
    late = [c for c in menu if rng.random() < 0.4] if len(menu) > 1 else []
    if len(late) == len(menu): late = late[1:]
    steps = [sop(spawn(0, [c for c in menu if c not in late])), frame(raw(pads=[pad(0)]))]
    for i in range(L):
        steps.append(frame(rawall(rng, 0.7)))
        if late and i >= 1 and rng.random() < 0.5:
            steps.append(sop(insert(0, late.pop())))
        elif i == L // 2 and rng.random() < 0.2:
            steps.append(sop(REBUILD))
        elif i == L // 2 and len(menu) >= 3 and rng.random() < 0.4:
            # a whole context type leaves (and may come back): the others keep their evaluation order
            gone = rng.choice([c for c in menu if c not in late] or menu)
            steps.append(sop(remove(0, gone)))
            if rng.random() < .5: late.append(gone)
    return scenario(menu, [0], cfg, steps)

def cases(tier, rng):
    scripts = {'Fired': ['SNone', 'SFired', 'SFired', 'SFired'], 'Ongoing': ['SNone', 'SOngoing', 'SOngoing', 'SOngoing'], 'None': ['SNone', 'SNone', 'SNone', 'SNone'],
               'mixed': ['SNone', 'SFired', 'SNone', 'SOngoing']}
    consumers = [key(1, CONTROL), key(1), mbutton(0, CONTROL), motion(), wheel(SHIFT), pbutton(0), paxis(0), key(1, CONTROL | SHIFT), mbutton(0, SHIFT | ALT)]
    for cin in consumers:
        for name, sc in scripts.items():
            for consume in (True, False):
                for same_ctx in (True, False):
                    pads_ = [(None, None), (0, None), (None, 0), (0, 0)] if ('Pad' in cin) else [(None, None)]
                    for cp, lp in pads_:
                        if same_ctx and cp != lp: continue
                        yield (consumer_case(rng, cin, sc, consume, FAMILY, same_ctx, lp, cp, 3), 'relation-classes')
    for dim in (0, 1):
        for maxabs in (False, True):
            for with_conds in (False, True):
                for same_ctx in (True, False):
                    yield (multi_consumer_case(rng, dim, maxabs, with_conds, same_ctx), 'multi-binding-consumer')
    for cin, held in ((key(1), dict(keys=[1])), (mbutton(0), dict(mbuttons=[0])), (key(1, CONTROL), dict(keys=[1, 102])), (pbutton(0), dict(pads=[pad(0, [0])]))):
        for mid_inputs in ([key(3)], [key(3), key(2)], [mbutton(1), key(3)], [key(2), cin]):
            for how in ('insert', 'rebuild'):
                ids = Ids(); al = Alloc()
                high = action(ids, al.get(rng, 0, True), [bind(ids, cin, [PROBE], [])])
                mid = [action(ids, al.get(rng, j % 4, j % 2 == 0), [bind(ids, inp, [PROBE], [])]) for j, inp in enumerate(mid_inputs)]
                low = [action(ids, al.get(rng, 1, False), [bind(ids, cin, [PROBE], [])]), action(ids, al.get(rng, 2, False), [bind(ids, key(2), [PROBE], [])])]
                cfg = {(0, 0): spec([high]), (4, 0): spec(mid), (2, 0): spec(low)}          # priorities 30 > 10 > -10
                hk = dict(held); hk.setdefault('pads', [pad(0)])
                steps = [sop(spawn(0, [0, 2] if how == 'insert' else [0, 4, 2])), frame(raw(pads=[pad(0)])), frame(raw(**hk)), frame(raw(**hk))]
                steps.append(sop(insert(0, 4) if how == 'insert' else REBUILD))
                hk2 = dict(hk); hk2['keys'] = sorted(set(hk.get('keys', []) + [2]))
                steps += [frame(raw(**hk)), frame(raw(**hk2)), frame(raw(**hk)), frame(raw(pads=[pad(0)])), frame(raw(**hk2))]
                yield (scenario([0, 2, 4], [0], cfg, steps), 'late-context')
    for _ in range(2500 if tier == 'thorough' else 250):
        yield (random_case(rng, rng.randint(3, 8)), 'random')

def nontrivial(case, out):
    return 'SFired' in out

STAGES = [dict(name='consumption', mode='app', coq='Check.C05w', profile=('Proofs.JudgeC05P', 'JudgeC05P.profile_C05b', 'C05_app_judgement_sound / C05_app_judgement_transfer'), cases=cases, nontrivial=nontrivial, shard=15,
               exhaustive={'thorough': True, 'quick': True},
               rule='a consuming (or non-consuming) action on each of 9 inputs (Ctrl+K, K, Ctrl+mouse button, motion, Shift+wheel, gamepad button, gamepad axis, Ctrl+Shift+K, Shift+Alt+mouse button) whose scripted final state is Fired / Ongoing / None / mixed, '
                    'followed - in the same context or in a lower-priority one, with equal or different gamepad settings - by probed bindings of all 22 relation classes (incl. bindings requiring a superset / subset / overlap of the consumed modifier keys) (same key, same key other modifiers, '
                    'other key needing the used modifier, other modifier, other devices); an idle frame and a further frame check that nothing stays hidden; a consuming action (Cumulative or MaxAbs, bool or 1D) with three bindings under every subset of them pressed, with and without scripted conditions, so that several inputs contribute in one frame; a context with unrelated, partly released inputs inserted or rebuilt between a consuming higher-priority context and a lower-priority listener while the contested input is held; random mixes (some contexts created late, rebuilds, a whole context type leaving in mid-run) of 2-4 contexts with 1-3 actions of 1-3 '
                    'bindings and scripted conditions at both levels. non-trivial = some action fires; distinct = distinct scenario text')]
CLAUSES = {1: 'an input related to one consumed earlier in the frame did not read as inactive', 2: 'a read differs from the raw input although nothing related to it was consumed before it in this frame (earlier actions affected, hidden without consumption, or hidden across frames)',
           8: 'panic', 9: 'malformed trace', 10: 'panic'}
def describe(stage, clause): return CLAUSES.get(clause, 'clause %d' % clause)
def matches_known(k, case, verdict): return False
TRUSTED = TRUSTED_BASE
ASSUMES = ['one holder per exclusive context type', 'frames hit by the cancellation corner of C04 stop the judgement of the rest of that frame', 'gamepad inputs are contested only between contexts with the same gamepad setting']
