"""Shared generator helpers."""
from fractions import Fraction as F
from sx import q

STATES = ['SNone', 'SOngoing', 'SFired']
DIMS = ['DBool', 'D1', 'D2', 'D3']
DT_GRID = [F(0), F(1, 64), F(1, 8), F(1, 4)]
VAL_GRID = [F(-2), F(-1), F(-1, 2), F(-1, 4), F(0), F(1, 4), F(1, 2), F(1), F(2)]

def aid(dim, slot=0, consume=False, maxabs=False):
    return dim * 16 + slot * 4 + (2 if consume else 0) + (1 if maxabs else 0)

def value(dim, comps):
    if dim == 0:
        return '(VB %s)' % ('true' if comps[0] else 'false')
    return '(V%d %s)' % (dim, ' '.join(q(c) for c in comps[:dim]))

def rand_value(rng, dim, grid=VAL_GRID, pzero=0.2):
    if dim == 0:
        return '(VB %s)' % rng.choice(['true', 'false'])
    return value(dim, [F(0) if rng.random() < pzero else rng.choice(grid) for _ in range(dim)])

def rand_fine(rng, lo=-256, hi=256, den=64):
    return F(rng.randint(lo, hi), den)

TRUSTED_BASE = ['Coq 8.16.1 kernel and its vm_compute (no native_compute, no extraction)',
                'Rust harness in /verif/harness (case parser, wrappers, exact f32->rational printer) and bin/check',
                'hand-written Gallina model in coq/Model tied to the code only by the correspondence run',
                'f32 arithmetic modelled by exact rationals; inputs chosen dyadic so that f32 is exact on them']

def rand_dt(rng, maxq=F(1, 4), maxe=9):
    """a delta on which Duration::as_secs_f32 is exact: m*2^-e s with odd m < 8 (whole nanoseconds, nanos exact in f32)"""
    while True:
        if rng.random() < 0.15:
            return F(0)
        d = F(rng.choice([1, 3, 5, 7]), 2 ** rng.randint(2, maxe))
        if d <= maxq:
            return d
