"""C02 - every activation episode is closed exactly once, also on deactivation."""
from scen import *
from opsprof import *

def cases(tier, rng):
    ents = [0, 1]
    L = 8
    # exhaustive single ops (and pairs in thorough) at frames where the scripted states are Ongoing / Fired / None
    for menu in ([0, 1], [2, 3]):
        init = {0: menu, 1: [menu[1]]}
        for plan in exhaustive_plans(menu, ents, 1):
            yield (build_scenario(rng, menu, ents, plan, L, init), 'one-op')
    if tier == 'thorough':
        menu = [4, 5]
        init = {0: menu, 1: [menu[1]]}
        plans = list(exhaustive_plans(menu, ents, 2, frames=(1, 2)))
        rng.shuffle(plans)
        for plan in plans[:2500]:
            yield (build_scenario(rng, menu, ents, plan, L, init), 'two-ops')
    for _ in range(2500 if tier == 'thorough' else 250):
        menu = pick_menu(rng, rng.randint(1, 3))
        ents = [0, 1, 2][:rng.randint(1, 3)]
        L = rng.randint(6, 30 if tier == 'thorough' else 14)
        init = {e: [c for c in menu if rng.random() < .7] for e in ents if rng.random() < .8}
        yield (build_scenario(rng, menu, ents, random_plan(rng, menu, ents, L, rng.randint(1, 8)), L, init), 'random')

def nontrivial(case, out):
    return ('ECanceled' in out or 'ECompleted' in out)

STAGES = [dict(name='episodes', mode='app', coq='Check.C02c', cases=cases, nontrivial=nontrivial, shard=25,
               exhaustive={'thorough': False, 'quick': True},
               rule='real App, an exclusive and a shared context type, 2-3 entities, two actions per context driven by scripted states cycling through None/Ongoing/Fired; '
                    'exhaustive: every single op from {insert, remove, despawn, respawn, rebuild} x entity x type issued after a frame in which the state is Ongoing / Fired / None, '
                    'directly between frames and through Commands from an Update system (264 histories); thorough adds 2500 ordered pairs; random interleavings of 1-8 ops over 6-30 frames. '
                    'non-trivial = a terminal event is delivered; distinct = distinct scenario text')]
CLAUSES = {1: 'an event was delivered for an (entity, action) whose context instance is gone', 2: 'the events of a frame do not continue a well-formed episode (Started+companion, one Ongoing/Fired per frame, matching terminal)',
           3: 'an event carries a state other than the one the episode is in', 4: 'deactivation (remove / despawn / rebuild) did not close the open episode with exactly its terminal event (zero value, state None), or closed an idle one',
           5: 'events delivered outside the frame evaluation without a deactivation', 6: 'events delivered before the frame evaluation', 8: 'panic', 9: 'malformed trace', 10: 'panic'}
def describe(stage, clause): return CLAUSES.get(clause, 'clause %d' % clause)
def matches_known(k, case, verdict): return False
TRUSTED = TRUSTED_BASE + ['Bevy 0.15 observer/command discipline modelled operationally (coq/Model/Frame.v), validated by the traces']
ASSUMES = ['no events-only blockers in this profile', 'deactivation from inside an observer of the same frame (third sentence of the property) is not exercised yet: the harness issues ops between frames and from an Update system',
           'the harness flushes the world after each direct op, so closing events are observed within the op step']
