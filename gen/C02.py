"""C02 - every activation episode is closed exactly once, also on deactivation."""
from scen import *
from opsprof import *

def cases(tier, rng):
    ents = [0, 1]
    L = 8
    # exhaustive single ops (and pairs in thorough) at frames where the scripted states are Ongoing / Fired / None
    for menu in ([0, 1], [2, 3]):
        init = {0: menu, 1: [menu[1]]}
        for plan in exhaustive_plans(menu, ents, 1):
            yield (build_scenario(rng, menu, ents, plan, L, init), 'one-op')
    if tier == 'thorough':
        menu = [4, 5]
        init = {0: menu, 1: [menu[1]]}
        plans = list(exhaustive_plans(menu, ents, 2, frames=(1, 2)))
        rng.shuffle(plans)
        for plan in plans[:2500]:
            yield (build_scenario(rng, menu, ents, plan, L, init), 'two-ops')
    for _ in range(2500 if tier == 'thorough' else 250):
        menu = pick_menu(rng, rng.randint(1, 3))
        ents = [0, 1, 2][:rng.randint(1, 3)]
        L = rng.randint(6, 30 if tier == 'thorough' else 14)
        init = {e: [c for c in menu if rng.random() < .7] for e in ents if rng.random() < .8}
        # in a quarter of the cases every context is tied to gamepad 0, which is unplugged at some point (for good): the
        # contexts go on being evaluated (their scripted conditions do not look at the device)
        tied = rng.random() < .25
        raws = None
        if tied:
            gone_at = rng.randrange(1, L)
            raws = [raw(pads=[pad(0)] if k < gone_at else []) for k in range(L)]
        yield (build_scenario(rng, menu, ents, random_plan(rng, menu, ents, L, rng.randint(1, 8)), L, init,
                              cfg=make_cfg(rng, menu, ents, L, blockers=rng.random() < .5, pad=0 if tied else None), raws=raws, pauses=rng.random() < .4), 'random')

def react_cases(tier, rng):
    import re
    kinds = ['EStarted', 'EOngoing', 'EFired', 'ECanceled', 'ECompleted']
    def one(menu, ents, L, reacts_of):
        cfg = make_cfg(rng, menu, ents, L)
        init = {e: list(menu) for e in ents}
        sc = build_scenario(rng, menu, ents, [], L, init, cfg=cfg)
        aids_ = sorted(set(int(x) for x in re.findall(r'\(mkAction (\d+)', sc)))
        rs = reacts_of(aids_)
        return '(reacting %s %s)' % (lst('(mkReact %d %s %d %s)' % r for r in rs), sc)
    # every (event kind, op) pair as a single reaction on the first action of each context, exclusive and shared
    for menu in ([0, 1], [2, 3]):
        ents = [0, 1]
        for k in kinds:
            for which in (0, 1):
                for o in [remove(0, menu[which]), despawn(0), REBUILD, remove(1, menu[1]), insert(0, menu[which])]:
                    for ai in (0, 2):
                        yield (one(menu, ents, 8, lambda aids_: [(aids_[min(ai, len(aids_) - 1)], k, -1, o)]), 'single-reaction')
    for _ in range(2000 if tier == 'thorough' else 200):
        menu = pick_menu(rng, rng.randint(1, 3)); ents = [0, 1, 2][:rng.randint(1, 3)]
        L = rng.randint(6, 14)
        al = ops_alphabet(menu, ents)
        def reacts(aids_):
            rs = [(rng.choice(aids_), rng.choice(kinds), rng.choice([-1] + ents), rng.choice(al)) for _ in range(rng.randint(1, 4))]
            # a rebuild closes the episodes of several context types in the order in which Bevy runs the per-type
            # observers (a hash-map order the model does not have): two reactions to closing events whose
            # operations do not commute would make the final world depend on it, so with a rebuild and more than
            # one context type at most one reaction listens to a terminal event
            if len(menu) >= 2 and any(r[3] == REBUILD for r in rs):
                seen = False
                for i, r in enumerate(rs):
                    if r[1] in ('ECanceled', 'ECompleted'):
                        if seen:
                            rs[i] = (r[0], rng.choice(kinds[:3]), r[2], r[3])
                        seen = True
            return rs
        yield (one(menu, ents, L, reacts), 'random-reactions')

def nontrivial(case, out):
    return ('ECanceled' in out or 'ECompleted' in out)

STAGES = [dict(name='reactions', mode='app', coq='Check.C02r', profile=('Proofs.JudgeC02rWideP', 'JudgeC02rWideP.profile_C02r_wideb', 'C02_reactions_judgement_sound / C02_reactions_judgement_transfer'), cases=react_cases, nontrivial=nontrivial, shard=25, noshrink=True,
               exhaustive={'thorough': False, 'quick': True},
               rule='deactivation requested from inside an observer of the same frame\'s action events: a reaction (fires once) issues remove / despawn / rebuild / insert through the observer\'s Commands when an '
                    'event of a chosen action and kind (Started, Ongoing, Fired, Canceled, Completed) is delivered; every (kind, op) pair on two actions of an exclusive and a shared type, and random sets of 1-4 '
                    'reactions; the delivery order (closing events overtaking the rest of the frame) is compared with the model, and per (entity, action) every episode must be closed exactly once'),
          dict(name='episodes', mode='app', coq='Check.C02c', profile=('Proofs.JudgeC02P', 'JudgeC02P.profile_C02b', 'C02_app_judgement_sound / C02_app_judgement_transfer'), cases=cases, nontrivial=nontrivial, shard=25,
               exhaustive={'thorough': False, 'quick': True},
               rule='real App, an exclusive and a shared context type, 2-3 entities, two actions per context driven by scripted states cycling through None/Ongoing/Fired (in half of the random cases also a plain blocker that fails now and then; in 40% the virtual clock is paused for some frames; in a quarter all contexts are tied to a gamepad that gets unplugged); '
                    'exhaustive: every single op from {insert, remove, despawn, respawn, rebuild} x entity x type issued after a frame in which the state is Ongoing / Fired / None, '
                    'directly between frames and through Commands from an Update system (264 histories); thorough adds 2500 ordered pairs; random interleavings of 1-8 ops over 6-30 frames. '
                    'non-trivial = a terminal event is delivered; distinct = distinct scenario text')]
CLAUSES_R = {1: 'an entity that does not hold the context received an event (or a joining one a Started from the old instance)', 2: 'an episode was closed twice or started twice (Started minus terminal events left {0,1})',
             4: 'a deactivated instance left an episode open (no terminal event) or closed it more than once', 8: 'panic', 9: 'malformed trace', 10: 'panic'}
CLAUSES = {7: 'an entity that got the context when nobody else held it joined an instance that is not at rest (something of an earlier instance survived the departure of its last holder)', 1: 'an event was delivered for an (entity, action) whose context instance is gone', 2: 'the events of a frame do not continue a well-formed episode (Started+companion, one Ongoing/Fired per frame, matching terminal)',
           3: 'an event carries a state other than the one the episode is in', 4: 'deactivation (remove / despawn / rebuild) did not close the open episode with exactly its terminal event (zero value, state None), or closed an idle one',
           5: 'events delivered outside the frame evaluation without a deactivation', 6: 'events delivered before the frame evaluation', 8: 'panic', 9: 'malformed trace', 10: 'panic'}
def describe(stage, clause): return (CLAUSES_R if stage == 'reactions' else CLAUSES).get(clause, 'clause %d' % clause)
def matches_known(k, case, verdict): return False
TRUSTED = TRUSTED_BASE + ['Bevy 0.15 observer/command discipline modelled operationally (coq/Model/Frame.v), validated by the traces']
ASSUMES = ['no events-only blockers in this profile', 'ops are issued between frames, through Commands from an Update system (at most one per frame), and from inside observers of action events (reactions stage)',
           'the harness flushes the world after each direct op, so closing events are observed within the op step']
