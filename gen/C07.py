"""C07 - the context registry mirrors the components present in the world."""
import itertools
from scen import *
from opsprof import *

def seq_plans(menu, ents, n):
    al = ops_alphabet(menu, ents) + ['FRAME']
    for seq in itertools.product(al, repeat=n):
        yield list(seq)

def seq_scenario(rng, menu, ents, seq, keyed=True):
    L = len(seq) + 2
    cfg = make_cfg(rng, menu, ents, L, nact=1, keyed=keyed)
    steps = []
    k = 0
    for o in seq:
        if o == 'FRAME':
            steps.append(frame(raw(keys=[c % 4 for c in menu] if k % 2 else []), rand_dt(rng))); k += 1
        else:
            steps.append(sop(o))
    steps.append(frame(raw()))
    return scenario(menu, ents, cfg, steps)

def cases(tier, rng):
    n = 3 if tier == 'thorough' else 2
    menu, ents = [2, 3], [0, 1]
    plans = list(seq_plans(menu, ents, n))
    if len(plans) > 6000: rng.shuffle(plans); plans = plans[:6000]
    for seq in plans:
        yield (seq_scenario(rng, menu, ents, seq), 'exhaustive-%d' % n)
    for x in device_cases(tier, rng):
        yield x
    for _ in range(3000 if tier == 'thorough' else 300):
        menu = pick_menu(rng, rng.randint(2, 4))
        ents = [0, 1, 2]
        L = rng.randint(8, 30)
        init = {e: [c for c in menu if rng.random() < .5] for e in ents if rng.random() < .7}
        plan = random_plan(rng, menu, ents, L, rng.randint(3, 20))
        keys = [c % 4 for c in menu]
        raws = [raw(keys=[k for k in keys if rng.random() < .5]) for _ in range(L)]
        cfg = make_cfg(rng, menu, ents, L, nact=2, keyed=True)
        # an entity whose context_instance() binds nothing at all still holds the context
        for c in menu:
            if not ctx_shared(c) and rng.random() < .3:
                cfg[(c, rng.choice(ents))] = spec([])
        yield (build_scenario(rng, menu, ents, plan, L, init, cfg=cfg, raws=raws), 'random')

def device_cases(tier, rng):
    """exclusive instances with per-entity gamepad settings (a specific pad, or any), joining and leaving in any order:
    each reads the device its own entity's configuration names, whatever was evaluated before it"""
    from fractions import Fraction as F
    for _ in range(200 if tier == 'thorough' else 30):
        ids = Ids()
        c = rng.choice([0, 2, 4, 6]); ents = [0, 1, 2]
        cfg = {}
        for e in ents:
            cfg[(c, e)] = spec([action(ids, aid(0, 0, False, False), [bind(ids, pbutton(0), [PROBE], [])]),
                                action(ids, aid(1, 0, False, False), [bind(ids, paxis(0), [PROBE], [])])], pad=rng.choice([0, 1, None, None]))
        steps = [sop(spawn(e, [c] if rng.random() < .7 else [])) for e in ents]
        steps.append(frame(raw(pads=[pad(0), pad(1)])))
        for _ in range(rng.randint(5, 10)):
            hot = rng.randrange(2)
            steps.append(frame(raw(pads=[pad(p, [0] if rng.random() < .5 else [], [(0, rng.choice([F(1, 2), F(-1)]) if p == hot else F(0))]) for p in range(2)]), rand_dt(rng)))
            if rng.random() < .3:
                e = rng.choice(ents)
                steps.append(sop(rng.choice([insert(e, c), remove(e, c), REBUILD])))
        yield (scenario([c], ents, cfg, steps), 'per-entity-devices')

def nontrivial(case, out):
    return 'OSpawn' in case or 'OInsert' in case

STAGES = [dict(name='mirror', mode='app', coq='Check.C07c', profile=('Proofs.JudgeC07P', '(fun sc => JudgeC07P.spawns_declared sc && JudgeC07P.shared_specb sc && JudgeC07P.nonconsumingb sc && JudgeC07P.sites_distinctb sc)', 'C07_app_judgement_sound'), cases=cases, nontrivial=nontrivial, shard=30,
               exhaustive={'thorough': False, 'quick': True},
               rule='two entities x {one exclusive, one shared type}: every sequence of length 2 (quick, 144) / 3 (thorough, 1728) over {insert, remove, despawn, spawn, rebuild, frame} x entity x type; '
                    'random histories (some exclusive instances binding nothing) of 3-20 ops (direct and via Commands) over 2-4 types, 3 entities, 8-30 frames with key presses; exclusive instances with per-entity gamepad settings joining, leaving and being rebuilt next to two gamepads; after every step the lookup is compared with the component, '
                    'panics are captured, and what context_instance() was called for is compared with the join/leave history. non-trivial = some context is ever added; distinct = distinct scenario text')]
CLAUSES = {1: 'ContextInstances::get::<C>(e).is_some() differs from World::get::<C>(e).is_some()', 2: 'context_instance() was (not) called where the join/leave/rebuild history requires',
           3: 'a newly built instance does not start from fresh data', 4: 'an operation changed the polled data of an instance it neither built nor removed (e.g. a shared instance when one of several holders left)',
           5: 'a binding of an exclusive instance did not read the device its own entity\'s configuration names', 8: 'an operation panicked', 9: 'malformed trace', 10: 'panic'}
def describe(stage, clause): return CLAUSES.get(clause, 'clause %d' % clause)
def matches_known(k, case, verdict): return False
TRUSTED = TRUSTED_BASE + ['translation of ECS operations into OnAdd/OnRemove triggers modelled operationally, validated by the traces']
ASSUMES = ['ops name live entities or are dropped (as Commands do)']
