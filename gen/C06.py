"""C06 - contexts are evaluated in descending priority whatever the insertion history."""
import itertools
from fractions import Fraction as F
from scen import *
from opsprof import *

def contested_cfg(menu, ents, double=False, hold=False, chord=False):
    """one key per pair of types, bound by a consuming action in both; exclusive types get the same spec on every entity"""
    ids = Ids()
    pairs = list(itertools.combinations(menu, 2))
    keyof = {p: i for i, p in enumerate(pairs)}
    cfg = {}
    slot = {d: 0 for d in range(4)}
    def fresh():
        # consuming, cumulative action types: dims in turn
        for d in range(4):
            if slot[d] < 8:
                k = slot[d]; slot[d] += 1
                return aid(d, k // 2, True, k % 2 == 1)
        raise Exception('out of action types')
    acts_of = {}
    for c in menu:
        acts_of[c] = [(fresh(), keyof[p]) for p in pairs if c in p]
    for c in menu:
        def build():
            # double: the pair's action binds two contested keys in both types (Cumulative and MaxAbs in turn), so
            # that the winner has several contributing inputs in one frame and must take all of them
            # hold: every action carries a Hold condition with a very long hold time, so that the winner is Ongoing, not
            # Fired: it wins the contested key all the same
            # chord (two-type menus only): the higher-priority type binds the contested key as Ctrl+key, the lower one the
            # plain key - consuming the chord hides the key from the plain binding below
            hi_c = max(menu, key=lambda x: CTX_PRIO[x])
            return spec([action(ids, a, [bind(ids, key(k, CONTROL if (chord and c == hi_c) else 0), [], [])] + ([bind(ids, key(k + len(pairs)), [], [])] if double else []),
                                [], ['(c_hold 100/1 false 1/2 false)'] if hold else [])
                         for a, k in acts_of[c]])
        if ctx_shared(c):
            s = build()
            for e in ents: cfg[(c, e)] = s
        else:
            for e in ents: cfg[(c, e)] = build()
    return cfg, list(range(len(pairs) * (2 if double else 1)))

def history_scenario(rng, menu, ents, ops, double=False, held=False, hold=False, chord=False):
    cfg, keys = contested_cfg(menu, ents, double, hold, chord)
    if chord: keys = keys + [rng.choice([102, 103])]
    steps = []
    for o in ops:
        steps.append(sop(o))
        # held: a type that arrives by insertion finds every key still down (no idle frame in between)
        if not (held and 'OInsert' in o and steps and 'SFrame' in steps[-2]):
            steps.append(frame(raw()))
        steps.append(frame(raw(keys=keys)))
    return scenario(menu, ents, cfg, steps)

def middle_arrives(rng, menu, double):
    """the highest and the lowest type contest a key that is held; a type of a priority in between, whose own keys are up,
    is inserted (on the same or on another entity): the lowest must stay silent"""
    by_prio = sorted(menu, key=lambda c: -CTX_PRIO[c])
    hi, lo = by_prio[0], by_prio[-1]
    cfg, keys = contested_cfg(menu, [0, 1], double)
    pairs = list(itertools.combinations(menu, 2))
    kk = [i for i, p in enumerate(pairs) if set(p) == {hi, lo}]
    held = kk + ([k + len(pairs) for k in kk] if double else [])
    for mids_on in (0, 1):
        steps = [sop(spawn(0, [])), sop(spawn(1, [])), sop(insert(0, hi)), sop(insert(0 if not ctx_shared(lo) else 1, lo)), frame(raw()), frame(raw(keys=held))]
        for mid in by_prio[1:-1]:
            steps += [sop(insert(mids_on if ctx_shared(mid) else 0, mid)), frame(raw(keys=held))]
        steps += [frame(raw()), frame(raw(keys=keys))]
        yield scenario(menu, [0, 1], cfg, steps)

def cases(tier, rng):
    ntypes = 4 if tier == 'thorough' else 3
    for base in ([0, 1, 2, 3, 4][:ntypes], [5, 6, 7, 2, 1][:ntypes]):
        menu = sorted(base)
        for order in itertools.permutations(menu):
            for nents in (1, 2):
                # exclusive types are held by one entity at a time; shared ones by all
                def holder(c, i): return 0 if not ctx_shared(c) else i
                ops = [spawn(0, [])] + ([spawn(1, [])] if nents == 2 else [])
                ops += [insert(holder(c, 0), c) for c in order]
                if nents == 2:
                    ops += [insert(1, c) for c in order if ctx_shared(c)]
                base_ops = ops
                yield (history_scenario(rng, menu, [0, 1], base_ops), 'insertion-order')
                yield (history_scenario(rng, menu, [0, 1], base_ops, True), 'insertion-order-two-keys')
                yield (history_scenario(rng, menu, [0, 1], base_ops, nents == 2, True), 'insertion-order-keys-held')
                yield (history_scenario(rng, menu, [0, 1], base_ops, nents == 1, False, True), 'insertion-order-ongoing-winners')
                for c in menu:
                    yield (history_scenario(rng, menu, [0, 1], base_ops + [remove(0, c), insert(0, c)]), 'remove-reinsert')
                yield (history_scenario(rng, menu, [0, 1], base_ops + [REBUILD]), 'rebuild')
    # a consuming Ctrl+key above a plain key below: the chord wins the key in every insertion / removal / rebuild history
    for menu in ([0, 3], [1, 2], [4, 7], [5, 6], [0, 1]):
        for order in itertools.permutations(menu):
            ops = [spawn(0, [])] + [insert(0, c) for c in order]
            yield (history_scenario(rng, sorted(menu), [0, 1], ops, chord=True), 'chord-over-plain-key')
            yield (history_scenario(rng, sorted(menu), [0, 1], ops + [remove(0, order[0]), insert(0, order[0])], chord=True), 'chord-over-plain-key')
            yield (history_scenario(rng, sorted(menu), [0, 1], ops + [REBUILD], chord=True), 'chord-over-plain-key')
    for menu in ([0, 1, 2], [5, 6, 7], [1, 3, 4, 6], [0, 2, 5, 7], [2, 3, 4]):
        for double in (False, True):
            for sc_ in middle_arrives(rng, sorted(menu), double):
                yield (sc_, 'middle-type-arrives-while-held')
    for _ in range(1500 if tier == 'thorough' else 120):
        n = rng.randint(3, 5)
        menu = sorted(rng.sample(range(8), n))
        ents = [0, 1, 2]
        owner = {c: rng.choice(ents) for c in menu}
        ops = [spawn(e, []) for e in ents]
        for _ in range(rng.randint(4, 40 if tier == 'thorough' else 14)):
            c = rng.choice(menu)
            r = rng.random()
            e = owner[c] if not ctx_shared(c) else rng.choice(ents)
            if r < .5: ops.append(insert(e, c))
            elif r < .8: ops.append(remove(e, c))
            elif r < .9: ops.append(REBUILD)
            else:
                # move an exclusive type to another entity: remove first, so that one entity holds it at a time
                if not ctx_shared(c):
                    ops.append(remove(owner[c], c)); owner[c] = rng.choice(ents); ops.append(insert(owner[c], c))
        yield (history_scenario(rng, menu, ents, ops, rng.random() < .5, rng.random() < .4, rng.random() < .3), 'random')

def nontrivial(case, out):
    return out.count('SFired') >= 2

STAGES = [dict(name='priority', mode='app', coq='Check.C06c', profile=('Proofs.JudgeC06P', 'JudgeC06P.profile_C06b', 'C06_app_judgement_sound / C06_app_judgement_transfer'), cases=cases, nontrivial=nontrivial, shard=20,
               exhaustive={'thorough': True, 'quick': True},
               rule='3 (quick) / 4 (thorough) context types out of priorities {30,20,-10,0,10,-20,15,5} in two selections: every insertion order, each followed by every single removal and re-insertion and by a rebuild, '
                    'over 1-2 entities; random histories of 4-40 inserts/removes/rebuilds/moves over 3-5 types and 3 entities. Every pair of types contests one key - or, in half of the cases, two keys bound by one Cumulative / MaxAbs action - through a consuming action in both (in a third of the cases with a long Hold condition, so that the winner is Ongoing rather than Fired); after each op '
                    'an idle frame and a frame with all keys down are run and the winner of every pair is read from the polled states; in a third of the cases insertions happen while all keys stay down, and a type of intermediate priority arrives while the highest and the lowest contest a held key: the existing instances must not notice. non-trivial = at least two actions fire; distinct = distinct scenario text')]
CLAUSES = {1: 'a lower-priority context won a contested input (or a higher-priority one did not fire)', 2: 'events of a lower-priority context were produced before those of a higher-priority one', 3: 'a context type inserted while all keys stayed down changed the state of an action of an instance that was already there (a loser started to fire, or a winner stopped)',
           8: 'panic', 9: 'malformed trace', 10: 'panic'}
def describe(stage, clause): return CLAUSES.get(clause, 'clause %d' % clause)
def matches_known(k, case, verdict): return False
TRUSTED = TRUSTED_BASE + ['Vec::insert/remove modelled as list functions; slice::binary_search_by transcribed from the toolchain source']
ASSUMES = ['distinct priorities; an exclusive type is held by one entity at a time (two instances of one type would contest the pair keys among themselves)']
