"""C11 - built-in conditions. Unit stage: InputCondition::evaluate driven directly."""
import itertools
from fractions import Fraction as F
from sx import q
from common import *

T = F(1, 8)
TICKS = [F(0), T / 2, T, 2 * T]
SPEEDS = [F(0), F(1, 4), F(1, 2), F(1), F(2), F(4)]

def b(x): return 'true' if x else 'false'

def configs(act=F(1, 2), rel=False):
    a = q(act); r = b(rel)
    yield 'press', '(c_press %s)' % a
    yield 'just_press', '(c_just_press %s)' % a
    yield 'release', '(c_release %s)' % a
    for os in (False, True):
        yield 'hold', '(c_hold %s %s %s %s)' % (q(T), b(os), a, r)
    yield 'hold_and_release', '(c_hold_and_release %s %s %s)' % (q(T), a, r)
    yield 'tap', '(c_tap %s %s %s)' % (q(T), a, r)
    for os in (False, True):
        for lim in (0, 1, 2, 3):
            yield 'pulse', '(c_pulse %s %d %s %s %s)' % (q(T), lim, b(os), a, r)

def step(v, real, spd=F(1), paused=False):
    return '(cstep %s %s %s %s)' % (v, q(real), q(spd), b(paused))

def rand_real(rng):
    r = rng.random()
    if r < 0.15: return F(0)
    if r < 0.25: return rng.choice([F(1, 2), F(3, 8), F(1)])       # beyond Bevy's max delta: clamped to 1/4
    while True:
        d = F(rng.choice([1, 3, 5, 7]), 2 ** rng.randint(2, 7))
        if d <= F(1, 4): return d

def cases(tier, rng):
    maxlen = 4 if tier == 'thorough' else 3
    alphabet = [(a, t) for a in (True, False) for t in TICKS]
    for name, c in configs():
        for n in range(1, maxlen + 1):
            for seq in itertools.product(alphabet, repeat=n):
                steps = ' '.join(step('(VB %s)' % b(a), t) for a, t in seq)
                yield ('(ucond %s [%s])' % (c, steps), 'exh-' + name)
    # speeds and pauses, both time bases: all sequences of length 2 over (actuated, speed, paused) with a fixed real delta
    for rel in (False, True):
        for name, c in configs(rel=rel):
            if name in ('press', 'just_press', 'release'): continue
            for seq in itertools.product([(a, s, p) for a in (True, False) for s in SPEEDS for p in (False, True)], repeat=2):
                steps = ' '.join(step('(VB %s)' % b(a), T, s, p) for a, s, p in seq)
                steps += ' ' + step('(VB true)', T) + ' ' + step('(VB false)', T)
                if tier == 'thorough' or rng.random() < 0.1:
                    yield ('(ucond %s [%s])' % (c, steps), 'speed-' + name)
    # thresholds on and around the boundary, 1-3 dimensions, negative thresholds
    for act in (F(1, 2), -F(1, 2), F(1), F(0)):
        for name, c in configs(act=act):
            if name == 'pulse' and 'true' in c.split()[3:4]: pass
            for d in (1, 2, 3):
                vals = []
                for m in (abs(act) - F(1, 64), abs(act), abs(act) + F(1, 64)):
                    for sign in (1, -1):
                        comps = [F(0)] * d; comps[rng.randrange(d)] = sign * m
                        vals.append(value(d, comps))
                if d >= 2:
                    vals.append(value(d, [F(3, 10) * 0 + F(3, 8), F(1, 2)] + [F(0)] * (d - 2)))   # |v| = 5/8
                    vals.append(value(d, [F(3, 16), F(1, 4)] + [F(0)] * (d - 2)))                  # |v| = 5/16
                    if act != 0:
                        # a diagonal value: no single component reaches the threshold, the magnitude does (|v|^2 = 9/8 t^2)
                        vals.append(value(d, [abs(act) * F(3, 4), -abs(act) * F(3, 4)] + [F(0)] * (d - 2)))
                        vals.append(value(d, [F(0)] * (d - 2) + [abs(act) * F(3, 4), abs(act) * F(3, 4)]))
                rng.shuffle(vals)
                steps = ' '.join(step(v, T / 2) for v in vals)
                yield ('(ucond %s [%s])' % (c, steps), 'threshold')
    # random long histories with speed changes and pauses
    n = 6000 if tier == 'thorough' else 400
    allc = list(configs()) + list(configs(rel=True)) + list(configs(act=F(1, 4)))
    for _ in range(n):
        name, c = rng.choice(allc)
        # vary the times too
        tt = rng.choice([F(1, 8), F(1, 16), F(3, 16), F(1, 4), F(5, 64)])
        c = c.replace(q(T), q(tt), 1) if name not in ('press', 'just_press', 'release') else c
        L = rng.randint(5, 40)
        act, spd, paused = False, F(1), False
        steps = []
        for _ in range(L):
            if rng.random() < 0.3: act = not act
            if rng.random() < 0.15: spd = rng.choice(SPEEDS)
            if rng.random() < 0.1: paused = not paused
            v = rng.choice(['(VB true)', '(V1 1/1)', '(V2 0/1 -1/1)', '(V1 3/4)']) if act else rng.choice(['(VB false)', '(V1 1/8)', '(V2 0/1 0/1)'])
            steps.append(step(v, rand_real(rng), spd, paused))
        yield ('(ucond %s [%s])' % (c, ' '.join(steps)), 'random-' + name)

def app_cases(tier, rng):
    from scen import Ids, action, bind, spec, sop, spawn, frame, raw, scenario, key, mbutton, paxis, pad, PROBE, REBUILD, m_script
    allc = [c for _, c in configs()] + [c for _, c in configs(rel=True)] + [c for _, c in configs(act=F(1, 4))]
    for _ in range(1500 if tier == 'thorough' else 120):
        ids = Ids()
        L = rng.randint(8, 30)
        acts = []
        for j in range(rng.randint(1, 4)):
            inp = rng.choice([key(j % 4), mbutton(j % 2), paxis(j % 2)])
            level = rng.random() < .5
            c = rng.choice(allc)
            if level: acts.append(action(ids, aid(j % 4, j, False, False), [bind(ids, inp, [], [c])]))
            else: acts.append(action(ids, aid(j % 4, j, False, False), [bind(ids, inp, [], [])], [], [c]))
        cfg = {(0, 0): spec(acts)}
        steps = [sop(spawn(0, [0])), frame(raw(pads=[pad(0)]))]
        keys, speed, paused = set(), F(1), False
        for i in range(L):
            for k in range(4):
                if rng.random() < .3: keys ^= {k}
            if rng.random() < 0.15: speed = rng.choice(SPEEDS)
            if rng.random() < 0.1: paused = not paused
            steps.append(frame(raw(keys=keys, mbuttons=[k for k in range(2) if rng.random() < .4],
                                   pads=[pad(0, [], [(a, rng.choice([F(0), F(1, 4), F(3, 4), F(-1)])) for a in range(2)])]), rand_real(rng), speed, paused))
            if i == L // 2 and rng.random() < .2: steps.append(sop(REBUILD))
        yield (scenario([0], [0], cfg, steps), 'bound-in-context')

def nontrivial(case, out):
    return 'SFired' in out or 'SOngoing' in out

STAGES = [dict(name='cond', mode='unit', coq='Check.C11c', profile=('Proofs.JudgeBoolP', 'JudgeBoolP.c11_caseb', 'C11_judgement_sound / C11_judgement_transfer (JudgeBoolP.C11_judgement_transfer_b)'), cases=cases, nontrivial=nontrivial, shard=500,
               exhaustive={'thorough': True, 'quick': True},
               rule='InputCondition::evaluate called directly. Exhaustive: for each of 15 configurations (Press, JustPress, Release, Hold x one_shot, '
                    'HoldAndRelease, Tap, Pulse x trigger_on_start x limit 0..3) every sequence of length <= 3 (quick) / <= 4 (thorough) over '
                    '(actuated?) x tick in {0,T/2,T,2T}; all length-2 prefixes over (actuated, speed in {0,1/4,1/2,1,2,4}, paused) in both time bases '
                    '(thorough; 10% sample in quick); values at threshold-1/64, threshold, threshold+1/64 in 1-3 dimensions incl. negative thresholds; '
                    'random histories of length 5..40 with speed changes, pauses and real deltas beyond the 250 ms clamp. '
                    'non-trivial = some output is not None; distinct = distinct case text')]

STAGES.append(dict(name='context', mode='app', coq='Check.C11w', profile=('Proofs.JudgeC11AppP', 'JudgeC11AppP.profile_C11b', 'C11_app_judgement_sound / C11_app_judgement_transfer'), cases=app_cases, nontrivial=nontrivial, shard=25,
                   exhaustive={'thorough': False, 'quick': False},
                   rule='the same conditions bound in a real context (input level or action level) on keys, mouse buttons and gamepad axes, 8-30 frames with speed changes, pauses, '
                        'real deltas beyond the clamp and rebuilds; every evaluation recorded by the wrapper is compared with the history-based specification'))
CLAUSES = {1: 'Press differs from "Fired iff actuated"', 2: 'JustPress differs from "Fired on the rising edge only"',
           3: 'Release differs from "Ongoing while actuated, Fired on the falling edge"',
           4: 'Hold differs from "Fired once actuated continuously for the hold time (once if one-shot), Ongoing before"',
           5: 'HoldAndRelease differs from "Ongoing while actuated; Fired on release iff held at least the hold time"',
           6: 'Tap differs from "Fired on release iff held at most the release time; Ongoing while held shorter"',
           7: 'Pulse differs from its interval/limit pattern', 8: 'a condition left None without the input having been actuated',
           9: 'malformed output', 10: 'panic', 18: 'panic', 19: 'malformed trace', 20: 'panic', 99: 'a timer became non-finite (NaN/inf)'}
def describe(stage, clause): return CLAUSES.get(clause, 'clause %d' % clause)
def matches_known(k, case, verdict): return False
TRUSTED = TRUSTED_BASE
ASSUMES = ['hold/release/interval times positive', 'real deltas m*2^-e s (odd m<8, e<=7) and dyadic speeds, so that Duration and f32 arithmetic are exact',
           'which frame deltas count towards "held" is fixed to the code accounting (first actuated frame and the release frame count)',
           'Time<Virtual> is advanced by the harness with the formula of bevy_time::virt::advance_with_raw_delta (private there)']
