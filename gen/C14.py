"""C14 - shared contexts fan events out to all holders; exclusive ones stay isolated."""
import itertools
from scen import *
from opsprof import *

def join_leave_plans(menu, ents, n, frames):
    al = []
    for e in ents:
        for c in menu:
            al.append(insert(e, c)); al.append(remove(e, c))
    for seq in itertools.product([(f, o) for f in frames for o in al], repeat=n):
        if all(seq[i][0] <= seq[i + 1][0] for i in range(n - 1)):
            yield [(f, 'direct', o) for f, o in seq]

def per_entity_cfg(rng, menu, ents, L):
    """exclusive instances get entity-specific scripts (so isolation is visible), shared ones one spec"""
    ids = Ids(); cfg = {}; used = []
    for c in menu:
        acts = []
        for j in range(2):
            while True:
                a = aid((c + j) % 4, rng.randrange(4), False, False)
                if a not in used: break
            used.append(a); acts.append(a)
        def build(shift):
            return spec([action(ids, a, [], [], [c_script('KExplicit', [CYCLE[(i + shift + 3 * j) % len(CYCLE)] for i in range(L + 2)])]) for j, a in enumerate(acts)])
        if ctx_shared(c):
            s = build(c)
            for e in ents: cfg[(c, e)] = s
        else:
            for e in ents: cfg[(c, e)] = build(c + 2 * e + 1)
    return cfg

def cases(tier, rng):
    ents = [0, 1, 2]
    L = 8
    n = 2 if tier == 'thorough' else 1
    for menu in ([0, 1], [4, 3]):
        menu = sorted(menu)
        plans = list(join_leave_plans(menu, ents, n, (1, 2, 4)))
        if len(plans) > 1500: rng.shuffle(plans); plans = plans[:1500]
        for plan in plans:
            init = {0: menu, 1: [c for c in menu if ctx_shared(c)]}
            yield (build_scenario(rng, menu, ents, plan, L, init, cfg=per_entity_cfg(rng, menu, ents, L)), 'join-leave-%d' % n)
    for _ in range(1500 if tier == 'thorough' else 200):
        menu = pick_menu(rng, rng.randint(2, 3))
        ents = [0, 1, 2]
        L = rng.randint(6, 16)
        init = {e: [c for c in menu if rng.random() < .7] for e in ents}
        plan = random_plan(rng, menu, ents, L, rng.randint(0, 6))
        yield (build_scenario(rng, menu, ents, plan, L, init, cfg=per_entity_cfg(rng, menu, ents, L)), 'random')

def nontrivial(case, out):
    return 'mkEv 1 ' in out or 'mkEv 2 ' in out

STAGES = [dict(name='fanout', mode='app', coq='Check.C14c', cases=cases, nontrivial=nontrivial, shard=25,
               exhaustive={'thorough': False, 'quick': True},
               rule='an exclusive and a shared context type side by side, three entities; exclusive instances are driven by entity-specific scripted states, the shared one by one script; '
                    'every single join/leave (insert/remove x entity x type) after frames 1, 2, 4 (quick; ordered pairs, sampled to 1500, in thorough) and random histories of 0-6 ops over 6-16 frames; '
                    'non-trivial = some event is delivered to the second or third entity; distinct = distinct scenario text')]
CLAUSES = {1: 'an entity that did not hold the context at evaluation time received one of its events', 2: 'holders of a shared context did not receive identical event lists',
           3: 'the events an exclusive owner received are not those of its own instance', 8: 'panic', 9: 'malformed trace', 10: 'panic'}
def describe(stage, clause): return CLAUSES.get(clause, 'clause %d' % clause)
def matches_known(k, case, verdict): return False
TRUSTED = TRUSTED_BASE + ['Bevy 0.15 observer dispatch (trigger_targets to global observers) modelled operationally']
ASSUMES = ['holders at evaluation time = entities for which the registry lookup succeeded before the frame']
