"""C14 - shared contexts fan events out to all holders; exclusive ones stay isolated."""
import itertools
from scen import *
from fractions import Fraction as F
from opsprof import *

def join_leave_plans(menu, ents, n, frames):
    al = []
    for e in ents:
        for c in menu:
            al.append(insert(e, c)); al.append(remove(e, c))
    for seq in itertools.product([(f, o) for f in frames for o in al], repeat=n):
        if all(seq[i][0] <= seq[i + 1][0] for i in range(n - 1)):
            yield [(f, 'direct', o) for f, o in seq]

def per_entity_cfg(rng, menu, ents, L):
    """exclusive instances get entity-specific scripts (so isolation is visible), shared ones one spec"""
    ids = Ids(); cfg = {}; used = []
    for c in menu:
        acts = []
        for j in range(2):
            while True:
                a = aid((c + j) % 4, rng.randrange(4), False, False)
                if a not in used: break
            used.append(a); acts.append(a)
        def build(shift):
            return spec([action(ids, a, [], [], [c_script('KExplicit', [CYCLE[(i + shift + 3 * j) % len(CYCLE)] for i in range(L + 2)])]) for j, a in enumerate(acts)])
        if ctx_shared(c):
            s = build(c)
            for e in ents: cfg[(c, e)] = s
        else:
            for e in ents: cfg[(c, e)] = build(c + 2 * e + 1)
    return cfg

def cases(tier, rng):
    ents = [0, 1, 2]
    L = 8
    n = 2 if tier == 'thorough' else 1
    for menu in ([0, 1], [4, 3]):
        menu = sorted(menu)
        plans = list(join_leave_plans(menu, ents, n, (1, 2, 4)))
        if len(plans) > 1500: rng.shuffle(plans); plans = plans[:1500]
        for plan in plans:
            init = {0: menu, 1: [c for c in menu if ctx_shared(c)]}
            yield (build_scenario(rng, menu, ents, plan, L, init, cfg=per_entity_cfg(rng, menu, ents, L)), 'join-leave-%d' % n)
    # per-entity gamepads: exclusive instances tied to different gamepads next to an unrestricted shared context
    from scen import bind, pbutton, paxis, pad, PROBE, frame, raw, sop, spawn, scenario, Ids, action, spec, rand_dt
    for _ in range(300 if tier == 'thorough' else 40):
        ids = Ids()
        ex, sh = rng.choice([0, 2, 4, 6]), rng.choice([1, 3, 5, 7])
        ents3 = [0, 1, 2]
        cfg = {}
        for e in ents3:
            cfg[(ex, e)] = spec([action(ids, aid(0, 0, False, False), [bind(ids, pbutton(0), [PROBE], [])]),
                                 action(ids, aid(1, 0, False, False), [bind(ids, paxis(0), [PROBE], [])])], pad=rng.choice([e, e, None]))
        shs = spec([action(ids, aid(0, 1, False, False), [bind(ids, pbutton(1), [PROBE], [])])], pad=rng.choice([None, 1]))
        for e in ents3: cfg[(sh, e)] = shs
        steps = [sop(spawn(e, [c for c in (ex, sh) if rng.random() < .85] or [ex])) for e in ents3]
        steps.append(frame(raw(pads=[pad(p) for p in range(3)])))
        nfr = rng.randint(5, 10)
        for k in range(nfr):
            if k == nfr // 2 and rng.random() < .5:
                steps.append(sop(REBUILD))        # every instance is rebuilt for its own entity: own bindings, own gamepad
            hot = rng.randrange(3)
            steps.append(frame(raw(pads=[pad(p, [bt for bt in range(2) if rng.random() < .4], [(0, rng.choice([F(1, 2), F(-1)]) if p == hot else F(0))]) for p in range(3)]), rand_dt(rng)))
        yield (scenario(sorted([ex, sh]), ents3, cfg, steps), 'per-entity-gamepads')
    # the same with CONSUMING actions on all instances: what an instance on one gamepad consumes must not hide the same
    # button or axis of another gamepad from the instance tied to that one
    for _ in range(200 if tier == 'thorough' else 30):
        ids = Ids()
        ex = rng.choice([0, 2, 4, 6]); ents3 = [0, 1, 2]
        cfg = {}
        for e in ents3:
            cfg[(ex, e)] = spec([action(ids, aid(0, 0, True, False), [bind(ids, pbutton(0), [PROBE], [])]),
                                 action(ids, aid(1, 0, True, False), [bind(ids, paxis(0), [PROBE], [])])], pad=e)
        steps = [sop(spawn(e, [ex])) for e in ents3]
        steps.append(frame(raw(pads=[pad(p) for p in range(3)])))
        for k in range(rng.randint(5, 10)):
            steps.append(frame(raw(pads=[pad(p, [0] if rng.random() < .6 else [], [(0, rng.choice([F(1, 2), F(-1), F(0)]))]) for p in range(3)]), rand_dt(rng)))
        yield (scenario([ex], ents3, cfg, steps), 'per-entity-gamepads-consuming')
    # holders arranged in an entity hierarchy (the harness makes entity 10 + s a child of entity s): a parent that holds
    # nothing, a parent that holds the same shared context, a parent with its own exclusive instance - events must
    # not travel along the hierarchy
    for _ in range(300 if tier == 'thorough' else 40):
        menu = pick_menu(rng, 2)
        hents = [0, 10, 1, 11]
        L = rng.randint(5, 9)
        init = {0: [c for c in menu if rng.random() < .4], 10: [c for c in menu if rng.random() < .9],
                1: [c for c in menu if rng.random() < .4], 11: [c for c in menu if rng.random() < .9]}
        plan = random_plan(rng, menu, hents, L, rng.randint(0, 2))
        yield (build_scenario(rng, menu, hents, plan, L, init, cfg=per_entity_cfg(rng, menu, hents, L)), 'hierarchy')
    for _ in range(1500 if tier == 'thorough' else 200):
        menu = pick_menu(rng, rng.randint(2, 3))
        ents = [0, 1, 2]
        L = rng.randint(6, 16)
        init = {e: [c for c in menu if rng.random() < .7] for e in ents}
        plan = random_plan(rng, menu, ents, L, rng.randint(0, 6))
        yield (build_scenario(rng, menu, ents, plan, L, init, cfg=per_entity_cfg(rng, menu, ents, L)), 'random')

def nontrivial(case, out):
    return 'mkEv 1 ' in out or 'mkEv 2 ' in out

STAGES = [dict(name='fanout', mode='app', coq='Check.C14c', profile=('Proofs.JudgeProfiles', 'JudgeProfiles.prof_C14', 'C14_app_judgement_sound_all (C14_app_judgement_sound / _transfer for non-consuming profiles)'), cases=cases, nontrivial=nontrivial, shard=25,
               exhaustive={'thorough': False, 'quick': True},
               rule='an exclusive and a shared context type side by side, three entities; exclusive instances are driven by entity-specific scripted states, the shared one by one script; '
                    'every single join/leave (insert/remove x entity x type) after frames 1, 2, 4 (quick; ordered pairs, sampled to 1500, in thorough) and random histories of 0-6 ops over 6-16 frames; exclusive instances tied to different gamepads (or unrestricted) next to a shared context, three gamepads with independent button/axis activity, a rebuild in the middle; the same with consuming actions on every instance and several gamepads active at once; holders that are parents / children of each other in the entity hierarchy (a parent holding nothing, the same shared context, or its own exclusive instance); '
                    'non-trivial = some event is delivered to the second or third entity; distinct = distinct scenario text')]
CLAUSES = {1: 'an entity that did not hold the context at evaluation time received one of its events', 2: 'holders of a shared context did not receive identical event lists', 5: 'an exclusive instance does not follow the configuration of its own entity (state differs from what its own scripted condition says for the instance\'s age)',
           3: 'the events an exclusive owner received are not those of its own instance', 4: 'a binding of a per-entity instance did not read its own device (instances with different gamepads are not independent)', 6: 'with consuming actions: a read of a per-entity instance differs from the raw input of its own device although nothing related (same device, or an unrestricted instance) was consumed before it - or was not hidden although something was', 8: 'panic', 9: 'malformed trace', 10: 'panic'}
def describe(stage, clause): return CLAUSES.get(clause, 'clause %d' % clause)
def matches_known(k, case, verdict): return False
TRUSTED = TRUSTED_BASE + ['Bevy 0.15 observer dispatch (trigger_targets to global observers) modelled operationally']
ASSUMES = ['holders at evaluation time = entities for which the registry lookup succeeded before the frame']
