"""C03 - the explicit / implicit / blocker law. App stage, scripted conditions only."""
import itertools
from fractions import Fraction as F
from scen import *

A = aid(0, 0, False, False)       # bool, non-consuming, cumulative
KEYS = [0, 1, 2]

def build(input_kinds, action_kinds, rows, pressed_rows):
    """input_kinds: list (per input) of lists of kinds; rows: per frame, (per input list of results, action results)"""
    ids = Ids()
    nfr = len(rows)
    am = idlist(ids, [PROBE])
    ac = idlist(ids, [c_script(k, [r[1][j] for r in rows]) for j, k in enumerate(action_kinds)])
    binds = []
    for i, kinds in enumerate(input_kinds):
        binds.append(bind(ids, key(KEYS[i]), [PROBE], [c_script(k, [r[0][i][j] for r in rows]) for j, k in enumerate(kinds)]))
    act = '(mkAction %d %s %s %s)' % (A, am, ac, lst(binds))
    cfg = {(0, 0): spec([act])}
    steps = [sop(spawn(0, [0])), frame(raw())]
    for pr in pressed_rows:
        steps.append(frame(raw(keys=[KEYS[i] for i in range(len(input_kinds)) if pr[i]])))
    return scenario([0], [0], cfg, steps)

def cases(tier, rng):
    n_in = 3 if tier == 'thorough' else 2
    # input level alone, one input: all kind sequences, all result rows, key up and down
    for n in range(0, n_in + 1):
        for kinds in itertools.product(KINDS, repeat=n):
            rows, pressed = [], []
            for res in itertools.product(STATES, repeat=n):
                for p in (True, False):
                    # the scripted conditions get one result per frame; frame 0 is the idle frame
                    rows.append(([list(res)], [])); pressed.append([p])
            rows = [([['SNone'] * n], [])] + rows       # idle frame consumes the first script entry
            yield (build([list(kinds)], [], rows, pressed), 'input-level-%d' % n)
    # action level alone
    for n in range(1, n_in + 1):
        for kinds in itertools.product(KINDS, repeat=n):
            rows, pressed = [], []
            for res in itertools.product(STATES, repeat=n):
                for p in (True, False):
                    rows.append(([[]], list(res))); pressed.append([p])
            rows = [([[]], ['SNone'] * n)] + rows
            yield (build([[]], list(kinds), rows, pressed), 'action-level-%d' % n)
    # both levels: all pairs of short sequences
    m = 2 if tier == 'thorough' else 1
    seqs = [k for n in range(0, m + 1) for k in itertools.product(KINDS, repeat=n)]
    for ki in seqs:
        for ka in seqs:
            if not ki and not ka: continue
            rows, pressed = [], []
            for ri in itertools.product(STATES, repeat=len(ki)):
                for ra in itertools.product(STATES, repeat=len(ka)):
                    rows.append(([list(ri)], list(ra))); pressed.append([True])
            rows = [([['SNone'] * len(ki)], ['SNone'] * len(ka))] + rows
            yield (build([list(ki)], list(ka), rows, pressed), 'both-levels')
    # "Fired iff the value is non-zero" for values far below any tolerance: a key scaled down to 2^-100 (its square underflows
    # in f32) or 2^-30, at input or action level, without conditions and with passing blockers only; all output types
    for tiny in ('1/%d' % 2 ** 100, '-1/%d' % 2 ** 100, '1/%d' % 2 ** 30):
        for dim in range(4):
            for level in ('input', 'action'):
                for blockers in (False, True):
                    ids = Ids()
                    sc_ = '(m_scale %s %s %s)' % (tiny, tiny, tiny)
                    am = idlist(ids, ([sc_] if level == 'action' else []) + [PROBE])
                    ac = idlist(ids, [c_script('(KBlocker false)', ['SFired'] * 6), c_script('(KBlocker true)', ['SFired'] * 6)] if blockers else [])
                    bd = bind(ids, key(0), ([sc_] if level == 'input' else []) + [PROBE], [])
                    act = '(mkAction %d %s %s %s)' % (aid(dim, 1, False, False), am, ac, lst([bd]))
                    steps = [sop(spawn(0, [0])), frame(raw()), frame(raw(keys=[0])), frame(raw(keys=[0])), frame(raw()), frame(raw(keys=[0]))]
                    yield (scenario([0], [0], {(0, 0): spec([act])}, steps), 'tiny-values')
    # random: 1-3 inputs, up to 8 conditions per level
    for _ in range(1500 if tier == 'thorough' else 150):
        ninp = rng.randint(1, 3)
        ik = [[rng.choice(KINDS) for _ in range(rng.randint(0 if ninp == 1 else 1, 5))] for _ in range(ninp)]
        ak = [rng.choice(KINDS) for _ in range(rng.randint(0, 6))]
        L = rng.randint(4, 12)
        # results biased towards Fired so that blockers and implicits often pass
        def r(): return rng.choice(['SFired', 'SFired', 'SOngoing', 'SNone'])
        rows = [([[r() for _ in k] for k in ik], [r() for _ in ak]) for _ in range(L + 1)]
        pressed = [[rng.random() < 0.8 for _ in range(ninp)] for _ in range(L)]
        yield (build(ik, ak, rows, pressed), 'random-%d-inputs' % ninp)

def nontrivial(case, out):
    return 'SFired' in out and 'c_script' in case

STAGES = [dict(name='law', mode='app', coq='Check.C03c', profile=('Proofs.JudgeC03P', 'JudgeC03P.profile_C03b', 'C03_app_judgement_sound / C03_app_judgement_transfer'), cases=cases, nontrivial=nontrivial, shard=40,
               exhaustive={'thorough': True, 'quick': True},
               rule='one bool action bound to keys in a real context; every condition is scripted (kind in {explicit, implicit, blocker, events-only blocker} '
                    'x result in {None, Ongoing, Fired} per frame). Exhaustive: every kind sequence of length <= 2 (quick) / <= 3 (thorough) at input level and at '
                    'action level, each run through all result rows with the key up and down (one row per frame of one App); all pairs of an input-level and an '
                    'action-level sequence of length <= 1 (quick) / <= 2 (thorough); random 1-3 inputs with up to 5+6 conditions; a key scaled to +-2^-100 / 2^-30 at input or action level on every output type, without conditions and with passing blockers only. '
                    'non-trivial = some scripted condition present and some Fired state observed; distinct = distinct scenario text')]

CLAUSES = {1: 'polled state differs from the law applied to the logged (kind, result) pairs of the contributing inputs and the action-level conditions',
           2: 'events delivered although an events-only blocker failed, or missing although none failed', 8: 'panic', 9: 'malformed trace / a condition was not invoked', 10: 'panic'}
def describe(stage, clause): return CLAUSES.get(clause, 'clause %d' % clause)
def matches_known(k, case, verdict): return False
TRUSTED = TRUSTED_BASE + ['Bevy 0.15 observer dispatch and command flushing (modelled operationally, validated by the traces)']
ASSUMES = ['inputs are keys (values true/false, or scaled to a tiny magnitude), so the cancellation corner of C04 cannot occur', 'scripted conditions wrap nothing: the law is judged from the logged (kind, result) pairs']


def blocked_value_cases(tier, rng):
    """\"events are suppressed, with state and value still updated and visible\": an events-only blocker that fails over
    several consecutive frames while the state stays the same and the VALUE changes (a second key joins or leaves)"""
    for _ in range(40 if tier == 'thorough' else 12):
        ids = Ids()
        L = rng.randint(6, 10)
        level = rng.choice(['action', 'input'])
        blk = lambda: c_script('(KBlocker true)', ['SFired'] + [rng.choice(['SNone', 'SNone', 'SFired']) for _ in range(L)])
        am = idlist(ids, [PROBE])
        ac = idlist(ids, [c_script('KExplicit', ['SFired'] * (L + 1))] + ([blk()] if level == 'action' else []))
        binds = [bind(ids, key(0), [PROBE], [blk()] if level == 'input' else []),
                 bind(ids, key(1), ['(m_scale 2/1 2/1 2/1)', PROBE], [blk()] if level == 'input' else [])]
        act = '(mkAction %d %s %s %s)' % (aid(rng.choice([1, 2, 3]), 2, False, False), am, ac, lst(binds))
        steps = [sop(spawn(0, [0])), frame(raw())]
        cur = set()
        for _ in range(L):
            for k in (0, 1):
                if rng.random() < .45: cur ^= {k}
            steps.append(frame(raw(keys=sorted(cur))))
        yield (scenario([0], [0], {(0, 0): spec([act])}, steps), 'value-under-events-only-blocker')

STAGES.append(dict(name='values', mode='app', coq='Check.C04c', profile=('Proofs.JudgeC04P', 'JudgeC04P.profile_C04b', 'C04_app_judgement_sound / C04_app_judgement_transfer (the stage is judged by Check.C04c)'),
                   cases=blocked_value_cases, nontrivial=nontrivial, shard=8, exhaustive={'thorough': False, 'quick': False},
                   rule='a numeric action with two keys (one scaled by 2) under an events-only blocker (action level or on both inputs) that fails over consecutive frames while keys join and leave: the polled value follows the merged value in every frame, blocked or not'))
_describe3 = describe
def describe(stage, clause):
    if stage == 'values':
        return {2: 'the polled value is not the merged value of the frame (it went stale while events were withheld)', 1: 'a contributing value was not merged as documented'}.get(clause, 'clause %d' % clause)
    return _describe3(stage, clause)
