"""C04 - most significant inputs win; values accumulate and keep the output type."""
import itertools
from fractions import Fraction as F
from scen import *

V1S = [F(-1), F(0), F(1, 2), F(1)]

def scripted_scenario(out_dim, maxabs, per_input_frames, with_conds, extra_action_mods=()):
    """per_input_frames[i] = list over frames of (own state, value string)"""
    ids = Ids()
    n = len(per_input_frames)
    L = len(per_input_frames[0]) if n else 1
    a = aid(out_dim, 0, False, maxabs)
    am = idlist(ids, [PROBE] + list(extra_action_mods) + [PROBE])
    ac = idlist(ids, [])
    binds = []
    for i in range(n):
        fr = per_input_frames[i]
        mods = [m_script([None] + [v for (_, v) in fr]), PROBE]
        conds = [c_script('KExplicit', ['SNone'] + [s for (s, _) in fr])] if with_conds[i] else []
        binds.append(bind(ids, key(i), mods, conds))
    act = '(mkAction %d %s %s %s)' % (a, am, ac, lst(binds))
    steps = [sop(spawn(0, [0])), frame(raw())] + [frame(raw(keys=list(range(n)))) for _ in range(L)]
    return scenario([0], [0], {(0, 0): spec([act])}, steps)

def chunks(l, n):
    for i in range(0, len(l), n): yield l[i:i + n]

def rand_chain(rng, L):
    ms = []
    for _ in range(rng.randint(0, 3)):
        k = rng.randrange(5)
        if k == 0: ms.append('(m_negate %s %s %s)' % tuple(b(rng.random() < .5) for _ in range(3)))
        elif k == 1: ms.append('(m_scale %s %s %s)' % tuple(q(rng.choice([F(-2), F(0), F(1, 2), F(3), F(1)])) for _ in range(3)))
        elif k == 2: ms.append('(m_swizzle %s)' % rng.choice(['YXZ', 'ZYX', 'XZY', 'YZX', 'ZXY']))
        else: ms.append(m_script([None if rng.random() < .4 else rand_value(rng, rng.randrange(4)) for _ in range(L + 1)]))
    return ms

def random_scenario(rng, L):
    ids = Ids()
    acts = []
    used = []
    for _ in range(rng.randint(1, 3)):
        while True:
            a = aid(rng.randrange(4), rng.randrange(4), False, rng.random() < .5)
            if a not in used: break
        used.append(a)
        am = idlist(ids, [PROBE] + rand_chain(rng, L) + [PROBE])
        ac = idlist(ids, [c_script(rng.choice(KINDS), [rng.choice(['SFired', 'SFired', 'SOngoing', 'SNone']) for _ in range(L + 1)]) for _ in range(rng.choice([0, 0, 1, 2]))])
        binds = []
        for _ in range(rng.randint(0, 5)):
            inp = rng.choice([key(rng.randrange(4)), mbutton(rng.randrange(2)), paxis(rng.randrange(2)), pbutton(0), motion(), wheel()])
            conds = [c_script(rng.choice(KINDS[:3]), [rng.choice(STATES) for _ in range(L + 1)]) for _ in range(rng.choice([0, 1, 1, 2]))]
            binds.append(bind(ids, inp, rand_chain(rng, L) + [PROBE], conds))
        acts.append('(mkAction %d %s %s %s)' % (a, am, ac, lst(binds)))
    steps = [sop(spawn(0, [0])), frame(raw(pads=[pad(0)]))]
    for _ in range(L):
        steps.append(frame(raw(keys=[k for k in range(4) if rng.random() < .5], mbuttons=[k for k in range(2) if rng.random() < .5],
                               motion=(rng.choice([F(0), F(1), F(-1, 2)]), rng.choice([F(0), F(2)])), wheel=(F(0), rng.choice([F(0), F(1), F(-1)])),
                               pads=[pad(0, [0] if rng.random() < .5 else [], [(0, rng.choice([F(0), F(1, 2), F(-1)])), (1, rng.choice([F(0), F(1, 4)]))])])))
    return scenario([0], [0], {(0, 0): spec(acts)}, steps)

def cases(tier, rng):
    ninp = 3 if tier == 'thorough' else 2
    per_input = [(s, '(V1 %s)' % q(v)) for s in STATES for v in V1S]
    for out_dim in range(4):
        for maxabs in (False, True):
            for n in range(1, ninp + 1):
                combos = list(itertools.product(per_input, repeat=n))
                if len(combos) > 1800: rng.shuffle(combos); combos = combos[:1800]
                for ch in chunks(combos, 150):
                    frames = [[c[i] for c in ch] for i in range(n)]
                    yield (scripted_scenario(out_dim, maxabs, frames, [True] * n), 'exhaustive-states-values-%d' % n)
            # condition-less inputs and mixed: the own state comes from the value
            combos = list(itertools.product([('SNone', '(V1 %s)' % q(v)) for v in V1S] , repeat=2))
            yield (scripted_scenario(out_dim, maxabs, [[c[i] for c in combos] for i in range(2)], [False, False]), 'condition-less')
            combos = list(itertools.product(per_input, [('SNone', '(V1 %s)' % q(v)) for v in V1S]))
            yield (scripted_scenario(out_dim, maxabs, [[c[i] for c in combos] for i in range(2)], [True, False]), 'mixed')
    # values of every dimension on every output type (dimension-changing modifiers)
    vals = ['(VB true)', '(VB false)', '(V1 -1/1)', '(V2 1/2 -1/1)', '(V2 0/1 1/1)', '(V3 1/1 1/2 -1/1)', '(V3 0/1 0/1 1/1)']
    combos = list(itertools.product([(s, v) for s in ('SFired', 'SOngoing') for v in vals], repeat=2))
    for out_dim in range(4):
        for maxabs in (False, True):
            for ch in chunks(combos, 100):
                yield (scripted_scenario(out_dim, maxabs, [[c[i] for c in ch] for i in range(2)], [True, True],
                                         extra_action_mods=['(m_swizzle YXZ)'] if out_dim % 2 else []), 'mixed-dimensions')
    for _ in range(2500 if tier == 'thorough' else 250):
        yield (random_scenario(rng, rng.randint(4, 12)), 'random')

def nontrivial(case, out):
    return 'SFired' in out

STAGES = [dict(name='merge', mode='app', coq='Check.C04c', profile=('Proofs.JudgeC04P', 'JudgeC04P.profile_C04b', 'C04_app_judgement_sound / C04_app_judgement_transfer'), cases=cases, nontrivial=nontrivial, shard=8,
               exhaustive={'thorough': True, 'quick': True},
               rule='non-consuming actions of all four output types and both accumulation modes. Exhaustive: every assignment of own state in {None, Ongoing, Fired} (scripted explicit condition) and value in '
                    '{-1, 0, 1/2, 1} (scripted modifier) to 1-2 (quick) / 1-3 (thorough, sampled to 1800) inputs, one assignment per frame; condition-less and mixed variants; pairs of values of every dimension '
                    '(bool, 1D, 2D, 3D) merged into every output type with a dimension-changing action-level modifier. Random: 1-3 actions, 0-5 inputs of raw dimension bool/1D/2D (keys, mouse, gamepad), '
                    'chains of up to 3 modifiers (Negate, Scale, Swizzle, scripted dimension changers) at both levels, scripted conditions. non-trivial = some action fires; distinct = distinct scenario text')]
CLAUSES = {6: 'a condition was shown a value other than the one after the modifiers of its level (input-level conditions see the input\'s modified value, action-level ones the value after the action-level modifiers)', 1: 'the value entering the action-level modifiers is not the accumulation (sum / per-axis largest magnitude) of the inputs with the most significant non-None own state, in the action\'s dimension',
           2: 'the polled value is not the output of the action-level modifier chain converted to the action\'s dimension', 3: 'the polled value does not have the declared output dimension',
           4: 'the polled state is not the law applied to the contributing inputs\' results and the action-level results', 5: 'an input that is past the held-input suppression did not pass its raw value through its modifiers', 8: 'panic (e.g. the unreachable! in ActionOutput::as_output)', 9: 'malformed trace', 10: 'panic'}
def describe(stage, clause): return CLAUSES.get(clause, 'clause %d' % clause)
def matches_known(k, case, verdict): return False
TRUSTED = TRUSTED_BASE
ASSUMES = ['which inputs contribute is judged only on regular frames (no prefix of condition-less contributors merges to exactly zero while another is still to be merged), as the property states']


def route_cases(tier, rng):
    """the order of an input's modifiers is the declaration order whatever the construction route: set-wide modifiers
    (with_modifiers_each) come AFTER the binding's own ones, also over presets and decorated bindings; judged by the
    route-equivalence judgement of C19 (every route behaves like the hand-written sequence)"""
    import C19
    for c, tag in C19._cases(tier, rng):
        if tag.startswith('routes-x') or 'decorated' in tag or 'presets-created' in tag:
            yield (c if c.startswith('(rmulti') else '(rmulti [%s])' % c, 'routed-' + tag)

STAGES.append(dict(name='routes', mode='app', coq='Check.C19m', profile=('Proofs.JudgeC19P', 'JudgeC19P.profile_C19mb', 'C19_routes_judgement_sound / C19_app_judgement_transfer (the stage is judged by Check.C19m)'),
                   noshrink=True, cases=route_cases, nontrivial=lambda case, out: 'SFired' in out, shard=20, exhaustive={'thorough': False, 'quick': False},
                   rule='the construction routes of C19 whose modifiers are attached in several steps: own modifiers of a binding (scripted, value-setting, so that the order is visible) plus set-wide ones through with_modifiers_each, presets over decorated fields; each route against the hand-written sequence'))
CLAUSES_ROUTES = {1: 'a route does not denote the logical binding sequence', 2: 'a preset does not match the compass', 3: 'a construction route applies an input\'s modifiers in another order than the declaration order (it differs from the hand-written sequence)'}
_describe0 = describe
def describe(stage, clause):
    return CLAUSES_ROUTES.get(clause, 'clause %d' % clause) if stage == 'routes' else _describe0(stage, clause)
