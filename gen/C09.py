"""C09 - input is reflected in actions and events within the same frame, before Update."""
import itertools
from fractions import Fraction as F
from scen import *

INPUTS = [('key', key(0)), ('mbutton', mbutton(0)), ('motion', motion()), ('wheel', wheel())]
CONDS = [('none', []), ('press', ['(c_press 1/2)']), ('hold', ['(c_hold 1/8 false 1/2 false)'])]
EDGE = ['(c_just_press 1/2)', '(c_release 1/2)', '(c_tap 1/4 1/2 false)']

def build(rng, L, hows, shared=False):
    ids = Ids()
    acts = []
    k = 0
    for (iname, inp) in INPUTS:
        for (cname, conds) in CONDS:
            a = aid(k % 4, k // 4, False, False); k += 1
            acts.append(action(ids, a, [bind(ids, inp, [PROBE], list(conds))]))
    # edge-triggered conditions at action level: they must see every frame, also the idle ones
    for j, c in enumerate(EDGE):
        acts.append(action(ids, aid(j % 4, 3, False, True), [bind(ids, key(0), [PROBE], [])], [], [c]))
    # one consuming action on a key chord (Ctrl+key 1), level-triggered: while the chord is held and nothing changes,
    # nothing may happen to it (what the reader remembers about consumed modifiers must not leak into the next frame).
    # It is the only binding that needs a modifier and nobody else binds key 1, so consumption hides nothing here.
    acts.append(action(ids, aid(3, 3, True, False), [bind(ids, key(1, CONTROL), [PROBE], [])]))
    # exclusive on one entity, or shared by three holders two of which may leave while inputs are held: the others must
    # not notice (no Started in a frame without input change)
    if shared:
        sp = spec(acts); holders = [0, 1, 2]
        cfg = {(1, e): sp for e in holders}; menu = [1]
        steps = [sop(spawn(e, [1])) for e in holders] + [frame(raw())]
        leave = {rng.randrange(2, L): rng.choice([remove(e, 1), despawn(e)]) for e in holders[1:] if rng.random() < .8}
    else:
        cfg = {(0, 0): spec(acts)}; menu = [0]; holders = [0]; leave = {}
        steps = [sop(spawn(0, [0])), frame(raw())]
    cur = set()
    paused = False
    for i in range(L):
        if i in leave: steps.append(sop(leave[i]))
        # the virtual clock may be paused: input is reflected all the same
        if rng.random() < 0.15: paused = not paused
        if rng.random() < 0.5:
            for n in [n for n, _ in INPUTS] + ['chordkey', 'ctrl']:
                if rng.random() < .5: cur ^= {n}
        rw = raw(keys=([0] if 'key' in cur else []) + ([1] if 'chordkey' in cur else []) + ([modkey(1)] if 'ctrl' in cur else []),
                 mbuttons=[0] if 'mbutton' in cur else [],
                 motion=(F(1), F(1, 2)) if 'motion' in cur else (F(0), F(0)), wheel=(F(0), F(1)) if 'wheel' in cur else (F(0), F(0)))
        # sub-frame taps (pressed and released by window events before the frame) on inputs that are not held: they never
        # show in ButtonInput::pressed and must not be reflected at all
        taps = rng.randrange(32) if rng.random() < 0.4 else 0
        steps.append(frame(rw, rand_dt(rng, maxe=7), F(1), paused, how=hows[i % len(hows)] + 4 * taps))
    return scenario(menu, holders, cfg, steps)

def cases(tier, rng):
    for hows in ([0], [1], [2], [0, 1, 2], [1, 2], [2, 0]):
        for _ in range(6 if tier == 'thorough' else 2):
            yield (build(rng, 14, hows), 'injection-%s' % ''.join(map(str, hows)))
    for _ in range(1500 if tier == 'thorough' else 150):
        yield (build(rng, rng.randint(6, 20), [rng.randrange(3) for _ in range(5)], rng.random() < .35), 'random')

def nontrivial(case, out):
    return 'EStarted' in out

STAGES = [dict(name='schedule', mode='app', coq='Check.C09c', profile=('Proofs.JudgeC09P', 'JudgeC09P.profile_C09b', 'C09_app_judgement_sound / C09_app_judgement_transfer'), cases=cases, nontrivial=nontrivial, shard=20,
               exhaustive={'thorough': False, 'quick': False},
               rule='one context (exclusive, or shared by three holders some of which leave in mid-run) with 16 actions: {key, mouse button, mouse motion, wheel} x {no condition, Press, Hold} and a key with action-level JustPress / Release / Tap, plus a consuming action on a Ctrl+key chord held over several frames; sub-frame taps (press + release events within one frame) on inputs that are not held; raw input injected as window events before the frame, by resource mutation '
                    'between frames, or from a system in First (fixed and mixed modes); harness systems: a marker before the crate\'s set, a marker + snapshot probe ordered after the set in PreUpdate, a snapshot '
                    'probe in Update; sticky random scripts of 6-20 frames, the virtual clock paused now and then. non-trivial = an episode starts; distinct = distinct scenario text')]
def late_cases(tier, rng):
    """contexts created while inputs are down (several bindings per action, a second gamepad holding the bound button):
    an input that goes down on a binding that is not under the start-up suppression is reflected in that very frame"""
    import C08
    for c, tag in C08.cases('quick', rng):
        if tag in ('several-bindings-per-action', 'other-gamepad-held', 'modifier-order'):
            yield (c, tag)

STAGES.append(dict(name='late', mode='app', coq='Check.C08w', profile=('Proofs.JudgeC08P', 'JudgeC08P.profile_C08b', 'C08_app_judgement_sound / C08_app_judgement_transfer (the stage is judged by Check.C08w)'), cases=late_cases, nontrivial=lambda case, out: 'LMod' in out, shard=25,
                   exhaustive={'thorough': False, 'quick': False},
                   rule='contexts inserted or rebuilt while some of their inputs are down: actions with 2-4 bindings of which some are held, a context tied to one gamepad while another gamepad holds the bound button, Ctrl+key with the key or the modifier down first; every binding whose own input has been up since creation must be driven in the frame its input goes down'))
CLAUSES_LATE = {1: 'a binding was driven although its own input has been down in every frame since its instance was created', 2: 'an input went down (or was down) on a binding whose input had been up at least once since creation, and the binding was not driven in that frame: the input is not reflected in the frame it reaches Bevy',
                12: 'no new instance was built where the join / leave history requires one', 8: 'panic', 9: 'malformed trace', 10: 'panic'}
CLAUSES = {1: 'data polled by a PreUpdate system ordered after the crate\'s set differs from the data polled in Update', 2: 'data polled in Update differs from the data at the end of the frame',
           3: 'action events were delivered before the crate\'s set ran in this frame (late delivery from the previous frame)', 4: 'action events of the frame were delivered after the probe ordered after the crate\'s set',
           5: 'a frame that did not change an action\'s state delivered Started, Canceled or Completed', 6: 'a binding did not read this frame\'s raw input (one-frame lag, or not evaluated at all in this frame)',
           7: 'the state of a level-triggered action is not the function of this frame\'s raw input', 8: 'equal raw input in two consecutive frames gave different states for a level-triggered action', 30: 'an operation between two frames (a holder of the shared context leaving) changed the polled data of the remaining holders\' instance', 10: 'an action-level JustPress did not fire exactly on the frame its input became active (a frame was not reflected)',
           18: 'panic', 19: 'malformed trace', 20: 'panic'}
def describe(stage, clause): return (CLAUSES_LATE if stage == 'late' else CLAUSES).get(clause, 'clause %d' % clause)
def matches_known(k, case, verdict): return False
TRUSTED = TRUSTED_BASE + ['the system order InputSystem < EnhancedInputSystem < sync point < dependants < Update is an assumption of Model/Frame.frame (partial); the trace comparison detects deviations']
ASSUMES = ['"no time-dependent condition crosses a threshold" is read as "no condition changes its result"; quiet-frame clause judged on the polled states']


def device_cases(tier, rng):
    """contexts on any gamepad next to contexts tied to one gamepad (tied ones evaluated before and after, tied ones
    leaving in mid-run): input on EVERY gamepad is reflected in the unrestricted context in the same frame"""
    import C15
    from fractions import Fraction as F
    for c, tag in C15.cases(tier, rng):
        if tag == 'gamepads':
            yield (c, 'devices-' + tag)
    from scen import Ids, sop, spawn, frame, raw, scenario, pad, pbutton, paxis, remove, insert
    for _ in range(60 if tier == 'thorough' else 12):
        ids = Ids()
        pin = [pbutton(0), paxis(0)]
        anyc, tied = rng.choice([(3, 0), (0, 3), (2, 4), (4, 2)])          # either one may have the higher priority
        cfg = {(anyc, 0): C15.one_ctx(ids, pin, pad=None), (tied, 0): C15.one_ctx(ids, pin, pad=0, a_slot=1)}
        menu = sorted([anyc, tied])
        steps = [sop(spawn(0, [anyc])), frame(raw(pads=[pad(0), pad(1)]))]
        L = rng.randint(6, 10); join = rng.randrange(1, 3); leave = rng.randrange(join + 1, L)
        for i in range(L):
            if i == join: steps.append(sop(insert(0, tied)))
            if i == leave: steps.append(sop(remove(0, tied)))
            hot = rng.randrange(2)
            steps.append(frame(raw(pads=[pad(p, [0] if (p == hot and rng.random() < .7) else [], [(0, rng.choice([F(1, 2), F(-1)]) if (p == hot and rng.random() < .6) else F(0))]) for p in range(2)])))
        yield (scenario(menu, [0], cfg, steps), 'devices-tied-context-comes-and-goes')

STAGES.append(dict(name='devices', mode='app', coq='Check.C15c', profile=('Proofs.JudgeProfiles', 'JudgeProfiles.prof_C15', 'C15_app_judgement_sound_all (the stage is judged by Check.C15c)'),
                   cases=device_cases, nontrivial=lambda case, out: 'VB true' in out or 'V1 ' in out, shard=6, exhaustive={'thorough': False, 'quick': False},
                   rule='unrestricted and single-gamepad contexts side by side over 1-3 gamepads (the gamepad family of C15), and a context tied to gamepad 0 that joins and leaves next to an unrestricted one while the other gamepad is used: every probed read of a frame is the raw state of the device the context names in THAT frame'))
_describe9 = describe
def describe(stage, clause):
    if stage == 'devices':
        return {3: 'a gamepad binding did not reflect the input of its device in the same frame (an unrestricted context must see every gamepad, whatever ran before it)'}.get(clause, 'clause %d' % clause)
    return _describe9(stage, clause)
