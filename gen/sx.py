"""S-expressions shared by the generators, the harness and Coq: ( .. ) application, [ .. ] list."""
import re

def parse(s):
    toks = re.findall(r'[()\[\]]|[^\s()\[\]]+', s)
    pos = [0]
    def go():
        t = toks[pos[0]]; pos[0] += 1
        if t in '([':
            close = ')' if t == '(' else ']'
            items = []
            while toks[pos[0]] != close:
                items.append(go())
            pos[0] += 1
            return (t, items)
        return t
    return go()

def show(x):
    if isinstance(x, str):
        return x
    o, items = x
    return o + ' '.join(show(i) for i in items) + (')' if o == '(' else ']')

RAT = re.compile(r'^(-?\d+)/(\d+)$')
INT = re.compile(r'^-?\d+$')

def coq(x):
    if isinstance(x, str):
        m = RAT.match(x)
        if m:
            n = m.group(1)
            return '(Qmake %s %s)' % (n if not n.startswith('-') else '(%s)' % n, m.group(2))
        if INT.match(x):
            return x if not x.startswith('-') else '(%s)' % x
        return x
    o, items = x
    if o == '(':
        return '(' + ' '.join(coq(i) for i in items) + ')'
    return '[' + '; '.join(coq(i) for i in items) + ']'

def to_coq(s):
    return coq(parse(s))

def deletions(s):
    """All cases obtained by deleting one element of one [list] (outermost lists first)."""
    t = parse(s)
    out = []
    def paths(x, path):
        if isinstance(x, str):
            return
        o, items = x
        if o == '[':
            for i in range(len(items)):
                out.append(path + [i])
        for i, it in enumerate(items):
            paths(it, path + [i])
    paths(t, [])
    out.sort(key=len)
    halves = []
    def lists(x, path):
        if isinstance(x, str):
            return
        o, items = x
        if o == '[' and len(items) >= 4:
            halves.append((path, len(items)))
        for i, it in enumerate(items):
            lists(it, path + [i])
    lists(t, [])
    def keep(x, path, lo, hi):
        o, items = x
        if not path:
            return (o, items[lo:hi])
        return (o, [keep(it, path[1:], lo, hi) if i == path[0] else it for i, it in enumerate(items)])
    pre = []
    for path, n in halves:
        pre.append(show(keep(t, path, 0, n // 2)))
        pre.append(show(keep(t, path, n // 2, n)))
        pre.append(show(keep(t, path, 0, n - 1)))
    def delete(x, path):
        o, items = x
        if len(path) == 1:
            return (o, items[:path[0]] + items[path[0] + 1:])
        return (o, [delete(it, path[1:]) if i == path[0] else it for i, it in enumerate(items)])
    return pre + [show(delete(t, p)) for p in out]

def q(num, den=1):
    from fractions import Fraction
    f = Fraction(num, den)
    return '%d/%d' % (f.numerator, f.denominator)
