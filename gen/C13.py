"""C13 - actions evaluate in binding order and see each other's state accordingly."""
import itertools
from fractions import Fraction as F
from scen import *
from opsprof import CYCLE

def build(rng, perm, refs, L, rebind, shared, leave=False, rebuild=False):
    """perm: order of first binding of actions 0..n-1; refs[i] = (kind, target index or 'absent') for action i"""
    ids = Ids()
    n = len(perm)
    aids_ = [aid(i % 4, i // 4 + 1, False, False) for i in range(n)]
    absent = aid(0, 0, False, False)
    c = 1 if shared else 0
    acts = []
    order = list(perm)
    if rebind is not None:
        order.insert(rebind[0], rebind[1])         # bind some action a second time somewhere
    seen_first = set()
    for i in order:
        first = i not in seen_first
        seen_first.add(i)
        rl = refs[i] if isinstance(refs[i], list) else [refs[i]]     # one or several references per action
        conds = []
        mods = []
        if first:
            conds.append(c_script('KExplicit', [CYCLE[(k + 3 * i) % len(CYCLE)] for k in range(L + 2)]))
            for kind, tgt in rl:
                t = absent if tgt == 'absent' else aids_[tgt]
                if kind == 'chord': conds.append('(c_chord %d)' % t)
                elif kind == 'block': conds.append('(c_block_by %d false)' % t)
                elif kind == 'block-events': conds.append('(c_block_by %d true)' % t)
                elif kind == 'accumulate': mods.append('(m_accumulate %d)' % t)
            mods.append(PROBE)
            # some bindings need modifier keys: what an input looks like has no bearing on when its action is evaluated
            binds = [bind(ids, key(i % 4, rng.choice([0, 0, CONTROL, SHIFT | ALT, CONTROL | SHIFT])), [PROBE], [c_script('KImplicit', [rng.choice(STATES) for _ in range(L + 2)])] if rng.random() < .3 else [])]
        else:
            binds = [bind(ids, key((i + 1) % 4), [PROBE], ['(c_chord %d)' % aids_[rng.randrange(n)]])]
        amx = idlist(ids, mods); acx = idlist(ids, conds)
        acts.append('(mkAction %d %s %s %s)' % (aids_[i], amx, acx, lst(binds)))
    ents = [0, 1] if shared else [0]
    s = spec(acts)
    cfg = {(c, e): s for e in ents}
    steps = [sop(spawn(e, [c])) for e in ents] + [frame(raw())]
    leave_at = rng.randrange(1, L) if (leave and shared) else -1
    for k in range(L):
        steps.append(frame(raw(keys=[x for x in range(4) if rng.random() < .6] + [m for m in (100, 102, 104) if rng.random() < .5]), rand_dt(rng)))
        if rebuild and k == L // 2:
            # a rebuild while keys are held and actions are Fired: the new instances start at rest, so what later-bound and
            # self references are shown in the next frame is None
            steps.append(sop(REBUILD))
        if k == leave_at:
            # one of the two holders of the shared context leaves in mid-run: the instance goes on for the other one, and
            # what its conditions are shown next frame is still the state of the frame before
            steps.append(sop(rng.choice([remove(1, c), despawn(1), remove(0, c)])))
    return scenario([c], ents, cfg, steps)

REFK = ['chord', 'block', 'block-events', 'accumulate', 'none']

def cases(tier, rng):
    L = 6
    # all binding orders of 3 (quick) / 4 (thorough) actions, references forwards, backwards, to self and to an absent action
    n = 4 if tier == 'thorough' else 3
    for perm in itertools.permutations(range(n)):
        for variant in range(6 if tier == 'thorough' else 3):
            refs = []
            for i in range(n):
                tgt = rng.choice(list(range(n)) + ['absent'])
                refs.append((REFK[(i + variant) % len(REFK)], tgt))
            rebind = (rng.randint(1, n), rng.randrange(n)) if variant % 2 == 1 else None
            yield (build(rng, perm, refs, L, rebind, variant % 3 == 2), 'binding-orders')
    # every (kind, direction) pair explicitly: target earlier / later / self / absent
    for kind in REFK[:4]:
        for direction in ('earlier', 'later', 'self', 'absent'):
            refs = [('none', 0), ('none', 0), ('none', 0)]
            i = 1
            tgt = {'earlier': 0, 'later': 2, 'self': 1, 'absent': 'absent'}[direction]
            refs[i] = (kind, tgt)
            yield (build(rng, (0, 1, 2), refs, 10, None, False), 'reference-%s-%s' % (kind, direction))
    # several references on one action: two blockers (events-only / plain, in both orders) looking at different actions,
    # so that in some frames only the first-listed one is blocking
    for k1, k2 in itertools.product(('block', 'block-events'), repeat=2):
        for t1, t2 in ((0, 1), (1, 0), (0, 3), (3, 0)):
            refs = [('none', 0), ('none', 0), [(k1, t1), (k2, t2)], ('none', 0)]
            for perm in ((0, 1, 2, 3), (2, 0, 1, 3), (0, 2, 3, 1)):
                yield (build(rng, perm, refs, 12, None, False), 'two-blockers')
    # shared context, one holder leaves while forward / self references are live
    for kind in REFK[:4]:
        for direction in ('later', 'self', 'earlier'):
            for _ in range(3 if tier == 'thorough' else 1):
                refs = [('none', 0), ('none', 0), ('none', 0)]
                refs[1] = (kind, {'earlier': 0, 'later': 2, 'self': 1}[direction])
                yield (build(rng, (0, 1, 2), refs, 10, None, True, leave=True), 'shared-holder-leaves')
    for _ in range(1000 if tier == 'thorough' else 100):
        n = rng.randint(2, 4)
        perm = list(range(n)); rng.shuffle(perm)
        refs = [(rng.choice(REFK), rng.choice(list(range(n)) + ['absent'])) for _ in range(n)]
        for i in range(n):
            if rng.random() < .35:
                refs[i] = [refs[i], (rng.choice(REFK[:4]), rng.choice(list(range(n)) + ['absent']))]
        yield (build(rng, perm, refs, rng.randint(4, 12), (rng.randint(1, n), rng.randrange(n)) if rng.random() < .4 else None, rng.random() < .3, leave=rng.random() < .5), 'random')

def nontrivial(case, out):
    return ('c_chord' in case or 'c_block_by' in case or 'm_accumulate' in case) and 'SFired' in out

STAGES = [dict(name='visibility', mode='app', coq='Check.C13c', profile=('Proofs.JudgeC13bP', 'JudgeC13bP.profile_C13b', 'C13_app_judgement_sound / C13_app_judgement_transfer'), cases=cases, nontrivial=nontrivial, shard=25,
               exhaustive={'thorough': True, 'quick': True},
               rule='one context (exclusive, or shared with two holders) with 2-4 actions in every binding order (6 / 24 permutations), chord / block-by / events-only block-by / accumulate-by references '
                    'forwards, backwards, to self and to an action absent from the context, some action bound a second time in the middle, bindings with and without modifier keys, actions with two references (two blockers looking at different actions); scripted states over 6-12 frames; in the shared variant one holder may leave in mid-run. Every instrumented condition and '
                    'modifier records the states of all actions it is shown. non-trivial = a cross-action reference present and some Fired state; distinct = distinct scenario text')]
CLAUSES = {1: 'a condition/modifier was shown a state other than: current frame for earlier-bound actions, previous frame for later-bound ones and the action itself',
           2: 'the set of actions visible to a condition is not the set of actions of the context', 3: 'Chord did not return the referenced action\'s shown state (None if absent)',
           4: 'BlockBy did not return None exactly while the referenced action is shown as Fired', 5: 'actions were not evaluated in the order of their first binding',
           6: 'AccumulateBy did not return the running sum exactly while the referenced action is shown as Fired (the plain input otherwise), or AccumulateBy missed a frame in which its instance was evaluated',
           7: 'events-only BlockBy: events were delivered although a referenced action was shown as Fired, or withheld although none was',
           11: 'a BlockBy whose referenced action is shown as Fired did not force the action to None',
           12: 'an operation between frames changed the polled data of an instance it neither builds nor removes (what its references are shown next frame is no longer the previous frame\'s state)',
           8: 'panic', 9: 'malformed trace', 10: 'panic'}
def describe(stage, clause): return CLAUSES.get(clause, 'clause %d' % clause)
def matches_known(k, case, verdict): return False
TRUSTED = TRUSTED_BASE + ['ActionsData read by the wrappers through its public map (HashMap iteration order is not relied on: entries are sorted)']
ASSUMES = ['block-by and accumulate-by references are attached at action level in this profile; the event clause applies to actions whose only events-only blockers are those']


def rebuild_cases(tier, rng):
    for kind in REFK[:4]:
        for direction in ('later', 'self', 'earlier'):
            for shared in (False, True):
                refs = [('none', 0), ('none', 0), ('none', 0)]
                refs[1] = (kind, {'earlier': 0, 'later': 2, 'self': 1}[direction])
                yield (build(rng, (0, 1, 2), refs, 8, None, shared, rebuild=True), 'rebuild-%s-%s' % (kind, direction))

_cases0 = cases
def cases(tier, rng):
    for x in _cases0(tier, rng): yield x
    for x in rebuild_cases(tier, rng): yield x
STAGES[0]['cases'] = cases
STAGES.append(dict(name='rebuild', mode='app', coq='Check.C07c', profile=('Proofs.JudgeC07P', '(fun sc => JudgeC07P.spawns_declared sc && JudgeC07P.shared_specb sc && JudgeC07P.nonconsumingb sc && JudgeC07P.sites_distinctb sc)', 'C07_app_judgement_sound / _transfer (the stage is judged by Check.C07c)'),
                   cases=rebuild_cases, nontrivial=nontrivial, shard=25, exhaustive={'thorough': True, 'quick': True},
                   rule='the reference scenarios of the visibility stage with a RebuildInputContexts in mid-run while keys are held and actions are Fired; judged by the registry judgement of C07: every rebuilt instance starts at rest (state None, no events, zero value and durations), so the previous-frame state its references are shown next is None'))
_describe13 = describe
def describe(stage, clause):
    if stage == 'rebuild':
        return {3: 'an instance built by the rebuild does not start at rest: stale action data survives, and forward / self references are shown a state that is not the previous frame\'s of the new instance', 2: 'instances were not built as the rebuild requires', 1: 'registry and components disagree'}.get(clause, 'clause %d' % clause)
    return _describe13(stage, clause)
